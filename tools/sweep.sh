#!/bin/bash
# tools/sweep.sh <seed> <tier> [ids...]  — runs the listed (default: all ready) checks sequentially, one summary line each
cd "$(dirname "$0")/.."
seed=${1:-0}; tier=${2:-quick}; shift 2
ids="$@"; [ -z "$ids" ] && ids=$(python3 -c "import json;print(' '.join(json.load(open('tools/ready.json'))))")
for c in $ids; do
  s=$(date +%s); out=$(VERIF_SEED=$seed ./check $c --tier $tier 2>&1); rc=$?; e=$(date +%s)
  echo "$c rc=$rc $((e-s))s $(echo "$out" | grep -c '^VIOLATION') viol $(echo "$out" | grep -c '^KNOWN-FINDING') known | $(echo "$out" | grep 'tier=' | sed 's/.*evaluations=/ev=/' | cut -c1-90)"
  echo "$out" | grep '^VIOLATION\|^INCONCLUSIVE' | cut -c1-220 | head -4
done
