#!/usr/bin/env python3
"""Mutant validation helper (never touches /repo):
   tools/mut.py nifty/cl/utilities.py 'OLD' 'NEW' -- C23 [C22 ...] [-- extra check args]
   tools/mut.py --patch file.diff -- C23
Copies /repo/nifty to a scratch dir, applies the replacement (must match exactly once unless
--all) or the patch, runs ./check with VERIF_REPO pointing at the scratch copy, prints the
verdict lines, removes the scratch copy."""
import os, shutil, subprocess, sys, tempfile
args = sys.argv[1:]
i = args.index("--")
spec, rest = args[:i], args[i + 1:]
extra = []
if "--" in rest:
    j = rest.index("--"); rest, extra = rest[:j], rest[j + 1:]
d = tempfile.mkdtemp(prefix="coordscratch_", dir="/tmp")
try:
    shutil.copytree("/repo/nifty", os.path.join(d, "nifty"), ignore=shutil.ignore_patterns("__pycache__"))
    if spec[0] == "--patch":
        subprocess.run(["patch", "-p1", "-d", d, "-i", os.path.abspath(spec[1])], check=True, stdout=subprocess.DEVNULL)
    else:
        allm = "--all" in spec
        spec = [s for s in spec if s != "--all"]
        f, old, new = spec
        p = os.path.join(d, f)
        s = open(p).read()
        n = s.count(old)
        if n == 0 or (n != 1 and not allm):
            sys.exit(f"pattern matches {n} times in {f}")
        open(p, "w").write(s.replace(old, new))
    env = dict(os.environ, VERIF_REPO=d)
    for pid in rest:
        r = subprocess.run(["./check", pid] + extra, cwd="/verif", env=env, capture_output=True, text=True)
        lines = [l for l in r.stdout.splitlines() if l.startswith(("VIOLATION", "INCONCLUSIVE", "KNOWN")) or "RESULT" in l or "] tier=" in l]
        print(f"== {pid} rc={r.returncode}")
        for l in lines[:6]:
            print("   ", l[:260])
        if r.returncode not in (0, 1):
            print(r.stdout[-800:], r.stderr[-800:])
finally:
    shutil.rmtree(d, ignore_errors=True)
