#!/usr/bin/env python3
"""Confirms for every seeded change that the repository's existing tests still pass with it:
   tools/seed_tests.py [names...]
For each seeded/<name>/patch.diff: export /repo HEAD to a scratch directory (outside /repo and
/verif), apply the patch, run test/test_cl (with the mpi4py ImportError stub; the real mpi4py
cannot load libmpi here) when the patch touches nifty/cl, and test/test_re when it touches
nifty/re (or nifty/config.py), record pass/fail counts in meta.json, delete the scratch copy."""
import glob
import json
import os
import re
import shutil
import subprocess
import sys
import tempfile

ROOT = os.path.dirname(os.path.dirname(os.path.abspath(__file__)))
names = sys.argv[1:] or sorted(os.path.basename(os.path.dirname(p))
                               for p in glob.glob(os.path.join(ROOT, "seeded", "*", "patch.diff")))
NW = os.environ.get("SEED_TEST_WORKERS", "12")
RE_MAP = [
    ("conjugate_gradient", ["test_ncg", "test_optimize_kl", "test_evi"]),
    ("re/optimize.py", ["test_ncg", "test_optimize_kl", "test_evi"]),
    ("re/optimize_kl.py", ["test_optimize_kl", "test_evi", "test_likelihood"]),
    ("re/evi.py", ["test_optimize_kl", "test_evi", "test_likelihood", "test_blackjax"]),
    ("re/likelihood", ["test_likelihood", "test_likelihood_impl", "test_optimize_kl"]),
    ("re/hmc", ["test_hmc_leapfrog", "test_hmc_1d_distributions", "test_hmc_pytree", "test_blackjax"]),
    ("re/correlated_field", ["test_correlated_field", "test_matern"]),
    ("re/gauss_markov", ["test_gauss_markov", "test_correlated_field"]),
    ("tree_math", ["test_custom_map", "test_forest_math", "test_misc", "test_likelihood", "test_ncg",
                   "test_minisanity", "test_hmc_pytree"]),
    ("custom_map", ["test_custom_map", "test_forest_math", "test_optimize_kl", "test_minisanity"]),
    ("multi_grid", ["test_indexing"]),
    ("re/evidence_lower_bound", ["test_estimate_evidence_lower_bound", "test_lanczos"]),
    ("num/lanczos", ["test_estimate_evidence_lower_bound", "test_lanczos"]),
    ("re/minisanity", ["test_minisanity", "test_optimize_kl"]),
    ("stats_distributions", ["test_stats_distributions", "test_num"]),
    ("re/prior", ["test_stats_distributions", "test_num"]),
    ("sampling_los", ["test_sampling_los"]),
    ("nifty/config.py", ["test_correlated_field"]),
]
FLAKY = ("test_beta_operator",)       # unseeded KS test, fails at random on the unchanged tree too

for name in names:
    d = os.path.join(ROOT, "seeded", name)
    meta_p = os.path.join(d, "meta.json")
    meta = json.load(open(meta_p))
    if meta.get("tests_confirmed") and not os.environ.get("SEED_TEST_FORCE"):
        print(name, "already confirmed:", meta["tests_confirmed"]["summary"])
        continue
    patch = open(os.path.join(d, "patch.diff")).read()
    files = re.findall(r"^\+\+\+ b/(\S+)", patch, re.M)
    cl = any(f.startswith("nifty/cl") for f in files)
    rex = any(f.startswith("nifty/re") or f == "nifty/config.py" for f in files)
    scratch = tempfile.mkdtemp(prefix="coordseedtest_", dir="/tmp")
    try:
        subprocess.run(f"git -C /repo archive HEAD | tar -x -C {scratch}", shell=True, check=True)
        r = subprocess.run(["git", "apply", os.path.join(d, "patch.diff")], cwd=scratch, capture_output=True,
                           text=True)
        if r.returncode != 0:
            r = subprocess.run(["patch", "-p1", "-i", os.path.join(d, "patch.diff")], cwd=scratch,
                               capture_output=True, text=True)
        if r.returncode != 0:
            meta["tests_confirmed"] = dict(summary="PATCH DOES NOT APPLY to current HEAD", detail=r.stderr[-300:])
            json.dump(meta, open(meta_p, "w"), indent=1)
            print(name, "patch does not apply")
            continue
        runs = []
        env = dict(os.environ, JAX_PLATFORMS="cpu")
        if cl:
            env1 = dict(env, PYTHONPATH=f"{ROOT}/tools/nompi:{scratch}")
            cmd = ["/venv/bin/python", "-m", "pytest", "test/test_cl", "-q", "-p", "no:cacheprovider",
                   "--timeout=900", "-n", NW, "--ignore=test/test_cl/test_mpi", "--noconftest"]
            runs.append(("test_cl (mpi4py stubbed)", cmd, env1))
        if rex:
            env2 = dict(env, PYTHONPATH=scratch)
            sel = set()
            for f in files:
                for pat, tests in RE_MAP:
                    if pat in f:
                        sel.update(tests)
            sel = sorted(f"test/test_re/{t}.py" for t in sel) or ["test/test_re"]
            cmd = ["/venv/bin/python", "-m", "pytest"] + sel + ["-q", "-p", "no:cacheprovider",
                                                               "--timeout=900", "-n", NW]
            runs.append(("test_re (files that reach the changed module: " + " ".join(os.path.basename(x) for x in sel)
                         + ")", cmd, env2))
        res = []
        ok = True
        for label, cmd, e in runs:
            p = None
            for attempt in range(2):     # pytest-xdist occasionally hangs (idle workers in ducc0's thread pool)
                try:
                    p = subprocess.run(cmd, cwd=scratch, env=e, capture_output=True, text=True,
                                       timeout=int(os.environ.get("SEED_TEST_TIMEOUT", "1500")))
                    break
                except subprocess.TimeoutExpired:
                    subprocess.run("ps -eo pid,args | grep '%s' | grep -v grep | awk '{print $1}' | xargs -r kill -9"
                                   % os.path.basename(scratch), shell=True)
                    p = None
            if p is None:
                res.append(dict(suite=label, cmd=" ".join(cmd), summary="HUNG twice (timeout)", failed=[]))
                ok = False
                continue
            tail = [ln for ln in p.stdout.splitlines() if " passed" in ln or " failed" in ln or " error" in ln][-1:]
            failed = [ln for ln in p.stdout.splitlines() if ln.startswith("FAILED") or ln.startswith("ERROR")]
            real = [f for f in failed if not any(x in f for x in FLAKY)]
            res.append(dict(suite=label, cmd=" ".join(cmd), summary=(tail or ["?"])[0].strip(" ="),
                            failed=failed[:10]))
            if real or p.returncode not in (0, 1) or (p.returncode == 1 and not failed):
                ok = False
        meta["tests_confirmed"] = dict(ok=ok, runs=res,
                                       summary="; ".join(f"{r['suite']}: {r['summary']}" for r in res))
        meta.setdefault("ran", []).append("existing tests with the patch (coordinator, scratch export of HEAD): "
                                          + meta["tests_confirmed"]["summary"])
        json.dump(meta, open(meta_p, "w"), indent=1)
        print(name, "OK" if ok else "TESTS FAIL", meta["tests_confirmed"]["summary"])
    finally:
        shutil.rmtree(scratch, ignore_errors=True)
