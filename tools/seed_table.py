#!/usr/bin/env python3
"""prints a markdown table of the seeded changes and which check caught them"""
import glob, json, os
print("| seeded change | property | needs to manifest | caught by | note |")
print("|---|---|---|---|---|")
for p in sorted(glob.glob(os.path.join(os.path.dirname(__file__), "..", "seeded", "*", "meta.json"))):
    m = json.load(open(p))
    print(f"| {m['name']} | {m['property']} | {m['needs_to_manifest'][:150]} | {', '.join(m.get('caught_by') or []) or 'MISSED'} | {m.get('history','caught by the check as it was')[:160]} |")
