# Stub used only to *run the repository's nifty.cl tests* in this sandbox: the real
# mpi4py cannot load libmpi here (RuntimeError at `from mpi4py import MPI`), which makes
# every test_cl fixture error out. Raising ImportError selects NIFTy's documented
# no-MPI code path (utilities.get_MPI_params).
raise ImportError("mpi4py disabled: libmpi cannot be loaded in this sandbox")
