#!/usr/bin/env python3
"""tools/seed_intake.py <name> <property> <worktree> <patchfile|WORKTREE> <demo.py> "<needs>" [checks...]
Confirms a seeded change independently: demo fails with the patch and passes without it (in the
worktree), then runs the named checks against a scratch copy with the patch applied, and stores
patch.diff, demo, meta.json under /verif/seeded/<name>/."""
import json, os, shutil, subprocess, sys
name, prop, wt, patch, demo, needs = sys.argv[1:7]
checks = sys.argv[7:] or [prop]
out = f"/verif/seeded/{name}"
os.makedirs(out, exist_ok=True)
def sh(cmd, **kw):
    return subprocess.run(cmd, shell=True, capture_output=True, text=True, **kw)
# normalise: obtain patch text against unchanged tree
if patch == "WORKTREE":
    ptxt = sh(f"git -C {wt} diff -- nifty").stdout
    sh(f"git -C {wt} checkout -- nifty")
else:
    ptxt = open(patch).read()
    sh(f"git -C {wt} checkout -- nifty")
open(f"{out}/patch.diff", "w").write(ptxt)
shutil.copy(demo, f"{out}/demo.py")
env = f"cd {wt} && PYTHONPATH={wt}/.nompi:{wt} JAX_PLATFORMS=cpu timeout 900 /venv/bin/python {demo}"
r0 = sh(env)                                         # unchanged
a = sh(f"cd {wt} && git apply {out}/patch.diff || patch -p1 < {out}/patch.diff")
r1 = sh(env)                                         # with change
sh(f"git -C {wt} checkout -- nifty")
meta = dict(name=name, property=prop, needs_to_manifest=needs,
            prompt_framing=os.environ.get("SEED_FRAMING", "neutral (round two: property text + worktree, no purpose stated)"),
            demo_unchanged_rc=r0.returncode, demo_with_change_rc=r1.returncode,
            demo_with_change_tail=(r1.stdout + r1.stderr)[-600:],
            ran=[f"demo.py on unchanged worktree -> rc {r0.returncode}", f"demo.py with patch -> rc {r1.returncode}"])
print("demo unchanged rc", r0.returncode, "| with change rc", r1.returncode)
if r0.returncode != 0:
    print(r0.stdout[-500:], r0.stderr[-500:])
res = {}
for c in checks:
    extra = os.environ.get("SEED_EXTRA", "")
    r = sh(f"/verif/tools/mut.py --patch {out}/patch.diff -- {c}" + (f" -- {extra}" if extra else ""), cwd="/verif")
    print(r.stdout[-1500:], r.stderr[-300:])
    res[c] = r.stdout[-1500:]
    meta["ran"].append(f"./check {c} (quick) against patched copy: " + ("VIOLATION reported" if "VIOLATION" in r.stdout else "no violation"))
meta["check_output"] = res
meta["caught_by"] = [c for c in checks if "VIOLATION" in res[c]]
json.dump(meta, open(f"{out}/meta.json", "w"), indent=1)
