#!/venv/bin/python
"""Generate MANIFEST.json from the META dicts of checks/cNN_*.py (single source of truth).
Properties without a check module are listed under not_applicable with the reason from
tools/not_applicable.json (kept current by hand)."""
import glob, importlib, json, os, sys
ROOT = os.path.dirname(os.path.dirname(os.path.abspath(__file__)))
sys.path.insert(0, ROOT)
props = [json.loads(l) for l in open(os.path.join(ROOT, "properties.jsonl"))]
na_reasons = json.load(open(os.path.join(ROOT, "tools", "not_applicable.json")))
repo_hooks = json.load(open(os.path.join(ROOT, "tools", "hooks.json")))
ready = set(json.load(open(os.path.join(ROOT, "tools", "ready.json"))))   # checks that are finished and silent
checks, claimed = [], set()
for path in sorted(glob.glob(os.path.join(ROOT, "checks", "c[0-9][0-9]_*.py"))):
    mod = importlib.import_module("checks." + os.path.basename(path)[:-3])
    m = mod.META
    if m.get("withdrawn") or m["id"] not in ready:
        continue
    pid = m["id"]
    claimed.add(pid)
    checks.append(dict(
        property_id=pid,
        quick_cmd=f"./check {pid} --tier quick",
        thorough_cmd=f"./check {pid} --tier thorough",
        evidence_file=f"evidence/{pid}.json",
        replay_cmd_template=f"./check {pid} --replay {{path}}",
        engine="vf.runner",
        level_claimed=dict(category=m["level"], text=m["level_text"], design_ref=m.get("design_ref", "")),
        level_note=m["level_note"],
        technique=m["technique"]))
na = []
for p in props:
    if p["id"] not in claimed:
        na.append(dict(property_id=p["id"], reason=na_reasons.get(
            p["id"], "no check built yet in this session; property not claimed (see DESIGN.md §8)")))
man = dict(
    version=1,
    setup_cmd="/venv/bin/python -B -c \"import sys; sys.path.insert(0,'.'); from vf.runner import ensure_deps; ensure_deps()\"",
    hooks=dict(guard="NIFTY_VERIF", enable=repo_hooks["enable"],
               baseline_off_cmd="cd /repo && env -u NIFTY_VERIF /venv/bin/python -m pytest -ra -q -p no:cacheprovider --timeout=900 --continue-on-collection-errors",
               source_commits=repo_hooks["source_commits"], add_only=True),
    engines=[dict(name="vf.runner", path="vf/runner.py", serves_properties=sorted(claimed),
                  kind_free_text="runtime monitoring: seeded workload generators drive the real NIFTy code from /repo in worker processes; monitors/oracles judge recorded observations; three-valued verdicts")],
    checks=checks,
    notes="Technique family: runtime monitoring (no sanitizers apply: NIFTy is pure Python without threads or native code of its own). See DESIGN.md.",
    not_applicable=na)
json.dump(man, open(os.path.join(ROOT, "MANIFEST.json"), "w"), indent=1)
print(f"MANIFEST.json: {len(checks)} checks, {len(na)} not_applicable")
try:
    import jsonschema
    jsonschema.validate(man, json.load(open("/root/.vp/MANIFEST.schema.json")))
    print("schema ok")
except ImportError:
    pass
