"""C29 — Gauss-Markov processes have the exact continuous-time covariance.

Observed (nifty/re/gauss_markov.py, un-jitted): the output at ``xi = 0`` and the dense
Jacobian with respect to the excitations (``jax.linearize`` applied to every basis
vector) of ``wiener_process``, ``integrated_wiener_process`` (with / without
asperity), ``ornstein_uhlenbeck_process``, ``discrete_gauss_markov_process`` /
``scalar_gauss_markov_process`` and of the model classes ``WienerProcess``,
``IntegratedWienerProcess``, ``OrnsteinUhlenbeckProcess`` (fixed parameters, prior
tuples, stationary OU start), on uniform and non-uniform grids with constant and
time-varying parameters.

Oracle (NumPy only): the processes are affine in the excitations, so the sample
covariance is exactly ``J J^T``.  It must equal the covariance of the continuous-time
linear SDE at the grid points, assembled from the closed-form per-step transition
``A_k`` and step covariance ``Q_k`` (piece-wise constant parameters):
  Wiener      A=1,             Q = s^2 dt
  IWP         A=[[1,dt],[0,1]], Q = s^2 [[dt^3/3 + a dt, dt^2/2],[dt^2/2, dt]]
  OU          A=exp(-g dt),    Q = s^2 (1 - exp(-2 g dt))
(the closed forms are cross-checked in every case against Van Loan's matrix-exponential
formula for the SDE).  Additionally the covariance and the mean on the grid must not
change when the real code is run on a refined grid (every interval split), which is the
parametrisation-independent meaning of "exact continuous-time covariance".  The generic
generator is compared sample-by-sample with the specialised functions and, on random
linear systems, with the discrete Lyapunov recursion.
"""
import numpy as np

from vf import rehelp as H

META = dict(
    id="C29", level="exploration",
    title="Gauss-Markov processes have the exact continuous-time covariance",
    technique="exact covariance J J^T from the Jacobian w.r.t. the excitations vs closed-form "
              "continuous-time grid covariance; grid-refinement invariance; generic vs specialised",
    rule=("case = (process kind: function or model class of Wiener / integrated Wiener (+asperity) / "
          "Ornstein-Uhlenbeck, generic generator vs specialised, generic generator on a random linear "
          "system) x step count from {1,2,3,4,6,12} (thorough: 1..12) x step kind (scalar, uniform array, "
          "non-uniform with ratio up to 1e3) x scalar or time-varying sigma / gamma / asperity x zero or "
          "non-zero initial state x (models) fixed values, prior tuples, stationary start. "
          "non-trivial: non-uniform steps or a time-varying parameter (generic: a sequence of "
          "matrices); distinct = distinct descriptor including the rounded parameters"),
    assumptions=[
        "parameters given as sequences are piece-wise constant on the intervals (docstring of "
        "WienerProcess)",
        "OU: `sigma` is the stationary standard deviation, i.e. the implemented SDE is "
        "dx = -gamma x dt + sigma sqrt(2 gamma) dW (the docstring's formula omits the sqrt(2 gamma))",
        "IWP: `asperity` adds sigma^2*asperity*dt to the variance of x per step, i.e. the noise on x has "
        "amplitude sigma*sqrt(asperity) (the docstring writes sigma*asperity); both conventions are "
        "taken from the implementation and from the correlated-field model it mirrors — the "
        "refinement-invariance oracle does not depend on them",
        "sample-level comparison generic vs IWP assumes the upper-triangular factor of the step "
        "covariance (as in the repository's own test)",
        "gamma*dt >= 1e-3 so that 1-exp(-2 gamma dt) is well conditioned",
    ],
    need=["cov_compare", "mean_compare", "affine_compare", "refine_compare", "generic_sample_compare",
          "generic_cov_compare", "model_compare", "vanloan_selfcheck"],
    quick=dict(cases=300, workers=6, budget_s=60),
    thorough=dict(cases=3000, workers=16, budget_s=700),
    design_ref="DESIGN.md §5 C29",
    level_text=("exact (no sampling) comparison of complete grid covariances for generated grids and "
                "parameters; exploration, not exhaustive"),
    level_note=("closed-form step covariances are textbook results, cross-checked per case with scipy's "
                "matrix exponential; jax forward-mode autodiff is trusted for the Jacobian"),
)

NB = [1, 2, 3, 4, 6, 12]        # quick-tier step counts (closed under the x2 / x3 refinements used)


def init(ck):
    import jax
    import jax.numpy as jnp
    import nifty.re as jft
    from nifty.re import gauss_markov as gm
    H.silence_nifty_logger()
    H.enable_compile_cache()
    ck.state.update(jax=jax, jnp=jnp, jft=jft, gm=gm)


# ------------------------------------------------------------------------- oracle
def step_AQ(proc, dt, s, g, a):
    """closed-form transition and step covariance of one interval"""
    if proc == "wiener":
        return np.array([[1.0]]), np.array([[s * s * dt]])
    if proc == "ou":
        return np.array([[np.exp(-g * dt)]]), np.array([[s * s * (-np.expm1(-2.0 * g * dt))]])
    A = np.array([[1.0, dt], [0.0, 1.0]])
    Q = s * s * np.array([[dt ** 3 / 3.0 + a * dt, dt ** 2 / 2.0], [dt ** 2 / 2.0, dt]])
    return A, Q


def sde_FL(proc, s, g, a):
    """drift matrix F and diffusion matrix L (dz = F z dt + L dW) of the continuous-time SDE"""
    if proc == "wiener":
        return np.array([[0.0]]), np.array([[s]])
    if proc == "ou":
        return np.array([[-g]]), np.array([[s * np.sqrt(2.0 * g)]])
    return np.array([[0.0, 1.0], [0.0, 0.0]]), np.array([[s * np.sqrt(a), 0.0], [0.0, s]])


def vanloan(F, L, dt):
    from scipy.linalg import expm
    d = F.shape[0]
    Mx = np.zeros((2 * d, 2 * d))
    Mx[:d, :d] = -F
    Mx[:d, d:] = L @ L.T
    Mx[d:, d:] = F.T
    E = expm(Mx * dt)
    A = E[d:, d:].T
    return A, A @ E[:d, d:]


def grid_moments(As, Qs, m0, P0):
    """mean and covariance of the stacked states z_0..z_n of z_{k+1} = A_k z_k + N(0,Q_k)"""
    n, d = len(As), P0.shape[0]
    P, m = [P0], [m0]
    for k in range(n):
        P.append(As[k] @ P[k] @ As[k].T + Qs[k])
        m.append(As[k] @ m[k])
    C = np.zeros(((n + 1) * d, (n + 1) * d))
    for i in range(n + 1):
        Phi = np.eye(d)
        for j in range(i, n + 1):
            blk = Phi @ P[i]
            C[j * d:(j + 1) * d, i * d:(i + 1) * d] = blk
            C[i * d:(i + 1) * d, j * d:(j + 1) * d] = blk.T
            if j < n:
                Phi = As[j] @ Phi
    return np.concatenate(m), C


def cov_close(Co, Cr, rtol=1e-9):
    """entrywise |Co-Cr| <= rtol*sqrt(Cr_ii Cr_jj) (+ tiny): rounding of sum_k J_ik J_jk is bounded
    by eps*sqrt(C_ii C_jj) (Cauchy-Schwarz), so small entries are compared on their own scale"""
    if Co.shape != Cr.shape or not np.all(np.isfinite(Co)):
        return False, np.inf
    dg = np.sqrt(np.maximum(np.diag(Cr), 0.0))
    sc = np.outer(dg, dg)
    tol = rtol * sc + 1e-18 * (np.max(sc) if sc.size else 0.0) + 1e-300
    err = np.abs(Co - Cr)
    worst = float(np.max(err / np.maximum(sc, 1e-300))) if err.size else 0.0
    return bool(np.all(err <= tol)), worst


def vec_close(a, b, rtol=1e-11):
    a, b = np.asarray(a, float).ravel(), np.asarray(b, float).ravel()
    if a.shape != b.shape or not np.all(np.isfinite(a)):
        return False
    return bool(np.all(np.abs(a - b) <= rtol * (np.abs(a) + np.abs(b)) + 1e-13 * (1 + np.max(np.abs(b), initial=0))))


# ---------------------------------------------------------------------- generators
def r3(x):
    return np.round(x, 4)


def gen_grid(rng, n, allow_scalar=True):
    kinds = ["scalar", "uniform", "nonuniform", "nonuniform"] if allow_scalar else \
        ["uniform", "nonuniform", "nonuniform"]
    kind = kinds[int(rng.integers(0, len(kinds)))]
    if kind in ("scalar", "uniform"):
        d = float(r3(np.exp(rng.uniform(np.log(0.02), np.log(5.0)))))
        dts = np.full(n, d)
    else:
        base = np.exp(rng.uniform(np.log(0.01), np.log(0.1)))
        dts = r3(base * np.exp(rng.uniform(0.0, np.log(1e3) * rng.random(), n)))
        dts = np.minimum(dts, 10.0)
    return kind, dts


def gen_par(rng, n, lo, hi, force=None):
    tv = bool(rng.integers(0, 2)) if force is None else force
    if tv:
        return "seq", r3(np.exp(rng.uniform(np.log(lo), np.log(hi), n)))
    return "const", np.full(n, float(r3(np.exp(rng.uniform(np.log(lo), np.log(hi))))))


def as_arg(jnp, kind, arr):
    """scalar python float for constant parameters, jnp array for sequences"""
    return float(arr[0]) if kind in ("const", "scalar") else jnp.asarray(arr)


def jac_and_zero(S, f, xi_tmpl):
    """output at xi = 0 and dense Jacobian w.r.t. xi (pytree)"""
    jax, jnp = S["jax"], S["jnp"]
    z = jax.tree_util.tree_map(jnp.zeros_like, xi_tmpl)
    out0, fwd = jax.linearize(f, z)
    J = H.dense_map(fwd, xi_tmpl)
    return np.asarray(out0, float).ravel(), J


# --------------------------------------------------------------------------- cases
# slot rotates with the round number i // 6: the first round already covers all slots (one per
# worker when 6 workers deal the indices round-robin) and every worker cycles through all of them,
# so that all monitors are reached early even on a heavily loaded machine
SLOTS = [["fn_wiener", "model_wiener"], ["fn_iwp"], ["fn_ou"], ["gen_special", "gen_random"],
         ["model_iwp"], ["model_ou"]]


def case(ck, i):
    S = ck.state
    rng = ck.rng()
    rnd = i // len(SLOTS)
    slot = SLOTS[(i + rnd) % len(SLOTS)]
    kind = slot[(rnd // 2) % len(slot)] if len(slot) > 1 else slot[0]
    nb = NB if not ck.thorough() else list(range(1, 13))
    n = int(nb[int(rng.integers(0, len(nb)))])
    if kind.startswith("fn_"):
        fn_case(ck, S, rng, kind[3:], n)
    elif kind == "gen_special":
        gen_special(ck, S, rng, n)
    elif kind == "gen_random":
        gen_random(ck, S, rng, n)
    else:
        model_case(ck, S, rng, kind[6:], n)


def params(rng, proc, n, allow_scalar_dt=True):
    gk, dts = gen_grid(rng, n, allow_scalar_dt)
    sk, sig = gen_par(rng, n, 0.3, 3.0)
    gak, gam = ("const", np.zeros(n))
    ak, asp = ("none", np.zeros(n))
    if proc == "ou":
        gak, gam = gen_par(rng, n, 0.1, 3.0)
        gam = np.maximum(gam, 1e-3 / dts)          # keep gamma*dt >= 1e-3
        if gak == "const":
            gam = np.full(n, float(np.max(gam)))
        gam = r3(gam + 5e-5)
    if proc == "iwp" and rng.random() < 0.65:
        ak, asp = gen_par(rng, n, 0.05, 2.0)
    return dict(gk=gk, dts=dts, sk=sk, sig=sig, gak=gak, gam=gam, ak=ak, asp=asp)


def call_fn(S, proc, pr, x0, xi):
    jnp, gm = S["jnp"], S["gm"]
    dt = as_arg(jnp, pr["gk"] if pr["gk"] == "scalar" else "seq", pr["dts"])
    sig = as_arg(jnp, pr["sk"], pr["sig"])
    if proc == "wiener":
        return gm.wiener_process(xi, x0, sig, dt)
    if proc == "ou":
        return gm.ornstein_uhlenbeck_process(xi, x0, sig, as_arg(jnp, pr["gak"], pr["gam"]), dt)
    asp = None if pr["ak"] == "none" else as_arg(jnp, pr["ak"], pr["asp"])
    return gm.integrated_wiener_process(xi, x0, sig, dt, asp)


def oracle(ck, proc, pr, m0, P0):
    As, Qs = [], []
    for dt, s, g, a in zip(pr["dts"], pr["sig"], pr["gam"], pr["asp"]):
        A, Q = step_AQ(proc, dt, s, g, a)
        Av, Qv = vanloan(*sde_FL(proc, s, g, a), dt)
        ck.hit("vanloan_selfcheck")
        if not (np.allclose(A, Av, rtol=1e-6, atol=1e-9) and np.allclose(Q, Qv, rtol=1e-5, atol=1e-9 * np.max(np.abs(Q)))):
            raise RuntimeError(f"harness oracle self-check failed: closed form vs Van Loan ({proc})")
        As.append(A)
        Qs.append(Q)
    return grid_moments(As, Qs, m0, P0)


def describe(proc, pr, n, x0):
    return dict(proc=proc, n=n, grid=pr["gk"], dt=[float(x) for x in pr["dts"][:3]], sigma=pr["sk"],
                s0=float(pr["sig"][0]), gamma=pr["gak"], g0=float(pr["gam"][0]), asp=pr["ak"],
                a0=float(pr["asp"][0]), x0=np.asarray(x0, float).ravel().tolist())


def nontrivial(pr):
    return pr["gk"] == "nonuniform" or "seq" in (pr["sk"], pr["gak"], pr["ak"])


def gen_x0(rng, proc):
    z = rng.random() < 0.3
    if proc == "iwp":
        return np.zeros(2) if z else r3(rng.standard_normal(2))
    return 0.0 if z else float(r3(rng.standard_normal()))


def check_moments(ck, tag, out0, J, mref, Cref, desc, mon="cov_compare"):
    ck.hit("mean_compare")
    if not vec_close(out0, mref):
        ck.violation(f"{tag}:mean", f"{tag}: output at xi=0 is not the deterministic propagation of x0",
                     observed=out0[:8].tolist(), expected=mref[:8].tolist(), desc=desc)
    ck.hit(mon)
    ok, worst = cov_close(J @ J.T, Cref)
    if not ok:
        ck.violation(f"{tag}:cov", f"{tag}: covariance J J^T of the samples differs from the "
                     "continuous-time covariance on the grid", worst_rel=worst, desc=desc,
                     obs_diag=np.diag(J @ J.T)[:8].tolist(), ref_diag=np.diag(Cref)[:8].tolist())


def fn_case(ck, S, rng, proc, n):
    jnp = S["jnp"]
    pr = params(rng, proc, n)
    x0 = gen_x0(rng, proc)
    d = 2 if proc == "iwp" else 1
    x0j = jnp.asarray(x0) if proc == "iwp" else x0
    xi_t = jnp.zeros((n, 2)) if proc == "iwp" else jnp.zeros(n)
    f = lambda xi: call_fn(S, proc, pr, x0j, xi)
    out0, J = jac_and_zero(S, f, xi_t)
    desc = describe(proc, pr, n, x0)
    m0 = np.atleast_1d(np.asarray(x0, float))
    mref, Cref = oracle(ck, proc, pr, m0, np.zeros((d, d)))
    tag = proc if not (proc == "iwp" and pr["ak"] != "none") else "iwp+asperity"
    check_moments(ck, tag, out0, J, mref, Cref, desc)
    # affine in xi
    xr = rng.standard_normal(xi_t.shape)
    outr = np.asarray(f(jnp.asarray(xr)), float).ravel()
    ck.hit("affine_compare")
    if not vec_close(outr, out0 + J @ xr.ravel(), rtol=1e-10):
        ck.violation(f"{tag}:affine", f"{tag} is not affine in the excitations", desc=desc)
    # grid refinement: split every interval, repeat the piece-wise constant parameters
    r = 0
    if n <= 6:
        r = 2
    if n <= 4 and rng.random() < 0.4:
        r = 3
    if r and (ck.thorough() or n * r in NB):
        fr = rng.dirichlet(np.full(r, 2.0), n)                      # split fractions per interval
        pr2 = dict(pr)
        pr2["dts"] = (pr["dts"][:, None] * fr).ravel()
        for k in ("sig", "gam", "asp"):
            pr2[k] = np.repeat(pr[k], r)
        pr2["gk"] = "nonuniform"
        # constant parameters stay scalars, sequences are repeated
        xi2 = jnp.zeros((n * r, 2)) if proc == "iwp" else jnp.zeros(n * r)
        o2, J2 = jac_and_zero(S, lambda xi: call_fn(S, proc, pr2, x0j, xi), xi2)
        sel = (np.arange(0, n * r + 1, r)[:, None] * d + np.arange(d)[None, :]).ravel()
        ck.hit("refine_compare")
        Cc = J @ J.T
        ok, worst = cov_close((J2 @ J2.T)[np.ix_(sel, sel)], Cc, rtol=1e-9)
        if not ok or not vec_close(o2[sel], out0, rtol=1e-10):
            ck.violation(f"{tag}:refine", f"{tag}: mean/covariance on the grid change when every interval "
                         f"is split into {r} sub-steps (not the continuous-time process)",
                         worst_rel=worst, desc=desc)
    ck.note(desc, nontrivial=nontrivial(pr), klass="fn_" + tag)


def upper_factor(Q):
    """U upper triangular with positive diagonal and U U^T = Q (1x1 or 2x2)"""
    if Q.shape == (1, 1):
        return np.sqrt(Q)
    c = np.sqrt(Q[1, 1])
    b = Q[0, 1] / c
    a = np.sqrt(Q[0, 0] - b * b)
    return np.array([[a, b], [0.0, c]])


def gen_special(ck, S, rng, n):
    """generic generator fed with the step matrices of a special case == specialised function"""
    jnp, gm = S["jnp"], S["gm"]
    proc = ["wiener", "iwp", "ou"][int(rng.integers(0, 3))]
    pr = params(rng, proc, n, allow_scalar_dt=False)
    x0 = gen_x0(rng, proc)
    d = 2 if proc == "iwp" else 1
    xi = rng.standard_normal((n, 2) if proc == "iwp" else n)
    x0j = jnp.asarray(x0) if proc == "iwp" else x0
    spec = np.asarray(call_fn(S, proc, pr, x0j, jnp.asarray(xi)), float)
    AQ = [step_AQ(proc, dt, s, g, a) for dt, s, g, a in zip(pr["dts"], pr["sig"], pr["gam"], pr["asp"])]
    A = np.stack([a for a, _ in AQ])
    U = np.stack([upper_factor(q) for _, q in AQ])
    const = bool(np.all(pr["dts"] == pr["dts"][0])) and "seq" not in (pr["sk"], pr["gak"], pr["ak"]) \
        and rng.random() < 0.7
    if d == 1:
        dr = float(A[0, 0, 0]) if const else jnp.asarray(A[:, 0, 0])
        am = float(U[0, 0, 0]) if (const and rng.random() < 0.5) else jnp.asarray(U[:, 0, 0])
        gen = gm.scalar_gauss_markov_process(jnp.asarray(xi), x0, dr, am)
    else:
        dr = jnp.asarray(A[0]) if const else jnp.asarray(A)
        am = jnp.asarray(U[0]) if (const and rng.random() < 0.5) else jnp.asarray(U)
        gen = gm.discrete_gauss_markov_process(jnp.asarray(xi), jnp.asarray(x0), dr, am)
    desc = dict(describe(proc, pr, n, x0), const_matrices=const, via="generic")
    ck.hit("generic_sample_compare")
    if not vec_close(np.asarray(gen, float), spec, rtol=1e-11):
        ck.violation(f"generic-vs-{proc}", f"generic Gauss-Markov generator with the step matrices of "
                     f"{proc} differs from the specialised function for the same xi",
                     generic=np.asarray(gen, float).ravel()[:8].tolist(), special=spec.ravel()[:8].tolist(),
                     desc=desc)
    ck.note(desc, nontrivial=not const, klass="gen_special_" + proc)


def gen_random(ck, S, rng, n):
    """generic generator on a random linear system vs the discrete Lyapunov recursion"""
    jnp, gm = S["jnp"], S["gm"]
    d = int(rng.integers(1, 4))
    seqA, seqB = bool(rng.integers(0, 2)), bool(rng.integers(0, 2))

    def rA():
        return r3(0.9 * rng.standard_normal((d, d)) / np.sqrt(d) + 0.3 * np.eye(d))

    def rB():
        return r3(rng.standard_normal((d, d)) * np.exp(rng.uniform(-1, 1)))
    As = [rA() for _ in range(n)] if seqA else [rA()] * n
    Bs = [rB() for _ in range(n)] if seqB else [rB()] * n
    x0 = r3(rng.standard_normal(d)) if rng.random() < 0.7 else np.zeros(d)
    dr = jnp.asarray(np.stack(As)) if seqA else jnp.asarray(As[0])
    am = jnp.asarray(np.stack(Bs)) if seqB else jnp.asarray(Bs[0])
    f = lambda xi: gm.discrete_gauss_markov_process(xi, jnp.asarray(x0), dr, am)
    out0, J = jac_and_zero(S, f, jnp.zeros((n, d)))
    mref, Cref = grid_moments(As, [b @ b.T for b in Bs], x0, np.zeros((d, d)))
    desc = dict(proc="generic", n=n, d=d, seqA=seqA, seqB=seqB, a00=float(As[0][0, 0]),
                b00=float(Bs[0][0, 0]), x0=x0.tolist())
    check_moments(ck, "generic", out0, J, mref, Cref, desc, mon="generic_cov_compare")
    ck.note(desc, nontrivial=(seqA or seqB), klass=f"gen_random_d{d}")


def lognormal(mean, std, xi):
    ls = np.sqrt(np.log1p((std / mean) ** 2))
    return float(np.exp(np.log(mean) - 0.5 * ls ** 2 + ls * xi))


def model_case(ck, S, rng, proc, n):
    """the model classes: same moments through the public Model interface"""
    jnp, jft = S["jnp"], S["jft"]
    pr = params(rng, proc, n)
    d = 2 if proc == "iwp" else 1
    name = "p"
    lat = {}                       # fixed latent values of parameter priors
    how = {}

    def par(key, kind, arr, allow_prior=True):
        """fixed value (float / array) or a (mean, std) prior tuple with fixed latent"""
        if kind == "const" and allow_prior and rng.random() < 0.35:
            mean, std = float(arr[0]), float(r3(arr[0] * rng.uniform(0.2, 0.8)))
            x = float(r3(rng.standard_normal()))
            lat[f"{name}_{key}"] = x
            val = lognormal(mean, std, x)
            arr[:] = val
            how[key] = "prior"
            return (mean, std)
        how[key] = kind
        return float(arr[0]) if kind == "const" else jnp.asarray(arr)
    sig = par("sigma", pr["sk"], pr["sig"])
    kw = {}
    if proc == "ou":
        gam = par("gamma", pr["gak"], pr["gam"])
    if proc == "iwp":
        asp = None if pr["ak"] == "none" else par("asperity", pr["ak"], pr["asp"])
    # initial state: fixed / prior tuple / (OU) stationary
    P0 = np.zeros((d, d))
    x0mode = ["fixed", "prior", "stationary"][int(rng.integers(0, 3 if proc == "ou" else 2))]
    if x0mode == "fixed":
        x0v = gen_x0(rng, proc)
        x0 = jnp.asarray(x0v) if proc == "iwp" else x0v
        m0 = np.atleast_1d(np.asarray(x0v, float))
    elif x0mode == "prior":
        mean = r3(rng.standard_normal(d))
        std = r3(np.exp(rng.uniform(-1, 1, d)))
        x0 = (jnp.asarray(mean), jnp.asarray(std)) if proc == "iwp" else (float(mean[0]), float(std[0]))
        m0, P0 = mean.astype(float), np.diag(std.astype(float) ** 2)
    else:
        x0 = None
        m0, P0 = np.zeros(1), np.array([[pr["sig"][0] ** 2]])
    if pr["gk"] == "scalar":
        dt, nsteps = float(pr["dts"][0]), n
    else:
        dt, nsteps = np.asarray(pr["dts"]), (n if rng.random() < 0.3 else None)
    if proc == "wiener":
        gp = jft.WienerProcess(x0, sig, dt, name=name, N_steps=nsteps)
    elif proc == "iwp":
        gp = jft.IntegratedWienerProcess(x0, sig, dt, name=name, asperity=asp, N_steps=nsteps)
    else:
        gp = jft.OrnsteinUhlenbeckProcess(sig, gam, dt, name=name, x0=x0, N_steps=nsteps)
    # linear latents: the excitations and (if present) the initial-state latent
    lin = {name: jnp.zeros((n, 2)) if proc == "iwp" else jnp.zeros(n)}
    if x0mode != "fixed":
        lin[name + "_x0"] = jnp.zeros(2) if proc == "iwp" else jnp.zeros(())
    fixed = {k: jnp.asarray(v) for k, v in lat.items()}
    dom_keys = set(gp.domain.keys())
    ck.hit("model_compare")
    if dom_keys != set(lin) | set(fixed):
        ck.violation(f"model:{proc}:domain", "model domain keys differ from the documented latents",
                     domain=sorted(map(str, dom_keys)), expected=sorted(set(lin) | set(fixed)))
        ck.note(dict(proc=proc, n=n, bad="domain"), nontrivial=False, klass="model_" + proc)
        return
    f = lambda l: gp({**l, **fixed})
    out0, J = jac_and_zero(S, f, lin)
    # dict keys are flattened in sorted order: "p" (xi) first, then "p_x0"
    if x0mode != "fixed":
        J = np.concatenate([J[:, n * d:], J[:, :n * d]], axis=1)     # order irrelevant for J J^T
    desc = dict(describe(proc, pr, n, m0), via="model", x0mode=x0mode, how=how, nsteps=nsteps is not None)
    mref, Cref = oracle(ck, proc, pr, m0, P0)
    tag = "model:" + (proc if not (proc == "iwp" and pr["ak"] != "none") else "iwp+asperity")
    check_moments(ck, tag, out0, J, mref, Cref, desc)
    if x0mode == "stationary" and "seq" not in (pr["sk"], pr["gak"]):
        # constant parameters + stationary start: covariance sigma^2 exp(-gamma |t-s|)
        t = np.concatenate([[0.0], np.cumsum(pr["dts"])])
        Cst = pr["sig"][0] ** 2 * np.exp(-pr["gam"][0] * np.abs(t[:, None] - t[None, :]))
        ck.hit("stationary_compare")
        ok, worst = cov_close(J @ J.T, Cst)
        if not ok:
            ck.violation("model:ou:stationary", "OU model with default x0 and constant parameters is not "
                         "stationary with covariance sigma^2 exp(-gamma|t-s|)", worst_rel=worst, desc=desc)
    ck.note(desc, nontrivial=nontrivial(pr) or x0mode != "fixed" or bool(lat), klass="model_" + proc)
