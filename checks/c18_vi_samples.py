"""C18 — Variational samples have the right distribution.

Monitor: NIFTy's white-noise entry points are replaced by a *scripted* source
(``nifty.cl.random.Random.normal`` for the classic API, ``nifty.re.evi.random_like``
for the JAX API).  Feeding basis vectors makes the linear map  L: white noise ->
residual  of the real samplers observable exactly; the oracle compares  L L^T  with
the inverse of the densely assembled metric  1 + J^T N^-1 J  of an independent NumPy
mirror of the generated model, and checks zero offset, exact mirroring, zero
residuals on point-estimated keys, sample mean = expansion point, and that the
nonlinear (geoVI) update leaves the linear sample unchanged for linear models.
An unscripted chi^2 smoke test (7 sigma) guards the scripting itself.
"""
import numpy as np

from vf import vihelp as vh

META = dict(
    id="C18", level="exploration",
    title="Variational samples have the right distribution",
    technique="scripted white noise through the real samplers; dense inverse-metric oracle",
    rule=("case = generated Gaussian model d = s(xi)+n (1-3 latent keys, 2-6 latent x 1-6 data dims, "
          "linear or mildly nonlinear (tanh, exp(0.1x), product coupling), full / rank-deficient / "
          "zero-row responses, diagonal or dense noise) x API (classic SampledKLEnergy / optimize_kl; "
          "JAX draw_linear_residual / OptimizeVI.draw_linear_samples / OptimizeVI.draw_samples) x "
          "options (mirroring, n_samples, point-estimate subsets, constants, napprox, geoVI minimiser, "
          "residual_map lmap/vmap/smap, cg/static_cg). non-trivial: >=2 latent keys or point estimates "
          "or rank-deficient response; distinct = distinct descriptor (model brief + option row + seed)"),
    assumptions=["CG configured to exact convergence (resnorm/gradnorm 1e-11); a JAX draw whose CG "
                 "reports info != 0 is skipped, not judged",
                 "metric condition number <= 1e6 (else skipped)",
                 "geoVI clause only on linear models (as the property states)",
                 "point estimates given as tuples of keys (the boolean-pytree form is not hashable "
                 "under NIFTy's own jit of the metric)",
                 "complex latent spaces are not generated",
                 "flipping the sign of one of the two independent white components (prior / likelihood "
                 "sample) leaves the distribution unchanged and is therefore not a violation (DESIGN "
                 "mutant 'prior sample with wrong sign' is an equivalent mutant for L L^T)",
                 "classic geoVI only with diagonal noise (SandwichOperator, used for dense noise, "
                 "carries no sampling_dtype, which geoVI's get_transformation needs)",
                 "JAX cases are not started with < 30 s of budget left (counted as skipped)"],
    need=["cl_cov_compared", "re_cov_compared", "cl_mirror_bitwise", "re_mirror_bitwise",
          "cl_pe_zero_checked", "re_pe_zero_checked", "cl_geovi_unchanged", "re_nonlinear_unchanged",
          "cl_sample_mean", "re_sample_mean", "smoke_chi2"],
    quick=dict(cases=420, workers=8, budget_s=75),
    thorough=dict(cases=8000, workers=16, budget_s=780),
    design_ref="DESIGN.md §5 C18",
    level_text=("exact observation of the residual map of the real samplers on generated small models; "
                "exploration of models x drivers x options, not exhaustive"),
    level_note=("trusts NumPy linear algebra for the dense oracle and jax.random.split for "
                "pre-computing the sub-keys NIFTy will derive; the harness-side dense response operator "
                "of the classic models is trusted"),
    max_skip_fraction=0.3,
)

TOL_COV = 1e-8       # relative to max|M^-1| (CG-limited; DESIGN allows 1e-7)
TOL_MEAN = 1e-13
TOL_GEO = 1e-7
TOL_OFF = 1e-12


def init(ck):
    import logging
    import nifty.cl as ift
    ck.state["ift"] = ift
    ift.logger.setLevel(logging.CRITICAL)


def _subset(rng, keys, proper=True, p_empty=0.5):
    if rng.uniform() < p_empty:
        return []
    ks = [k for k in keys if rng.integers(0, 2)]
    if proper and len(ks) == len(keys):
        ks = ks[:-1]
    return ks


def _cov_oracle(mir, x0, liq):
    Msub = mir.metric_sub(x0, liq)
    cond = np.linalg.cond(Msub)
    if not np.isfinite(cond) or cond > 1e6:
        raise vh.SkipCase("metric condition number > 1e6")
    C = np.zeros((mir.n, mir.n))
    C[np.ix_(liq, liq)] = np.linalg.inv(Msub)
    return C


def case(ck, i):
    return vh.run_case(ck, _case, i)


def _case(ck, i):
    rng = ck.rng()
    # the case family is drawn (not derived from i) so that the round-robin dealing of indices
    # over workers does not put all the expensive JAX cases on the same worker
    u = rng.uniform()
    # fixed prefix: whatever the machine load, every monitor in META["need"] sees events in the
    # first round of every worker layout
    forced = {0: ("re", dict(linear=True, nonlin=True, pe=True, route="ovi_draw")),
              1: ("cl", dict(linear=True, geo=True, pe=True, mirror=True, route="kl")),
              2: ("re", dict(linear=False, route="ovi_lin", pe=True)),
              3: ("smoke_re", None), 4: ("smoke_cl", None),
              5: ("cl", dict(route="driver", geo=False)),
              6: ("re", dict(route="dlr")),
              7: ("cl", dict(route="kl", geo=False, pe=True, mirror=True))}.get(i)
    if forced is not None:
        fam, force = forced
        if fam == "re":
            return case_re(ck, rng, force)
        if fam == "cl":
            return case_cl(ck, rng, force)
        return smoke(ck, rng, fam[-2:])
    if u < 0.12:
        return case_re(ck, rng)
    if u < 0.15:
        return smoke(ck, rng, "re")
    if u < 0.18:
        return smoke(ck, rng, "cl")
    return case_cl(ck, rng)


# =====================================================================================
# classic
# =====================================================================================
def case_cl(ck, rng, force=None):
    force = force or {}
    ift = ck.state["ift"]
    sc = vh.get_clscript(ck, ift)
    linear = force.get("linear", bool(rng.integers(0, 2)))
    geo = force.get("geo", bool(linear and rng.integers(0, 3) == 0)) and linear
    # classic geoVI needs likelihood.get_transformation() with a sampling dtype, which NIFTy's
    # SandwichOperator (our dense inverse covariance) does not carry -> diagonal noise there
    m = vh.gen_model(rng, linear=linear, noise_kinds=("diag",) if geo else ("diag", "diag", "dense"),
                     nkeys=2 if force.get("pe") else None)
    mir = vh.Mirror(m)
    b = vh.build_cl(ift, m, rg=bool(rng.integers(0, 2)))
    dom = b["dom"]
    x0 = 0.7 * rng.standard_normal(mir.n)
    pos = vh.cl_field(ift, dom, mir, x0)
    keys = mir.keys
    route = force.get("route", "driver" if rng.integers(0, 4) == 0 else "kl")
    mirror = True if route == "driver" else force.get("mirror", bool(rng.integers(0, 2)))
    ns = int(rng.integers(1, 5))
    pe = _subset(rng, keys) if len(keys) > 1 else []
    if force.get("pe"):
        pe = [keys[int(rng.integers(0, len(keys)))]]
    const = _subset(rng, keys, p_empty=0.6) if len(keys) > 1 else []
    napprox = 0 if route == "driver" else int(rng.choice([0, 0, 3]))
    seed = int(rng.integers(0, 2**31))
    opt = dict(api="cl", route=route, mirror=mirror, ns=ns, pe=pe, const=const, napprox=napprox,
               geo=geo, seed=seed)
    ck.note(dict(model=vh.model_brief(m), opt=opt),
            nontrivial=(len(keys) >= 2 or bool(pe) or vh.is_rank_deficient(m)),
            klass=f"cl:{route}:{'geo' if geo else 'mgvi'}:{'lin' if linear else 'nl'}")

    liq_keys = [k for k in keys if k not in pe]
    liq = mir.idx(liq_keys)
    pe_idx = mir.idx(pe)
    C = _cov_oracle(mir, x0, liq)

    ic = ift.GradientNormController(tol_abs_gradnorm=1e-11, iteration_limit=200)
    geo_min = ift.NewtonCG(ift.GradientNormController(tol_abs_gradnorm=1e-10, iteration_limit=8)) \
        if geo else None
    zero = ift.full(dom, 0.)

    def run(minimizer):
        if route == "kl":
            ham = ift.StandardHamiltonian(b["lh"], ic, prior_sampling_dtype=float)
            kl = ift.SampledKLEnergy(pos, ham, ns, minimizer, mirror_samples=mirror,
                                     constants=const, point_estimates=pe, napprox=napprox)
            return kl.samples, pos
        klmin = ift.SteepestDescent(ift.GradientNormController(iteration_limit=1))
        sl, mean = ift.optimize_kl(b["lh"], 1, ns, klmin, ic,
                                   nonlinear_sampling_minimizer=minimizer,
                                   constants=const, point_estimates=pe, initial_position=pos,
                                   output_directory=None, return_final_position=True,
                                   plot_energy_history=False, plot_minisanity_history=False)
        return sl, mean

    stride = 2 if mirror else 1

    def extract(res, j):
        items = list(res[0].at(zero).local_iterator())
        return vh.cl_vec(mir, items[stride * j])

    with ift.random.Context(seed):
        # how much white noise does one draw consume?
        sc.record()
        run(None)
        tot = sum(sc.calls)
        sc.off()
        if tot % ns != 0:
            raise RuntimeError(f"harness: scripted request total {tot} not divisible by ns={ns}")
        W = tot // ns
        L, off, raws = vh.cl_residual_map(ift, sc, lambda: run(geo_min), W, ns, extract)
        if geo:
            Llin, offlin, _ = vh.cl_residual_map(ift, sc, lambda: run(None), W, ns, extract)

    tag = f"cl:{route}:{'geovi' if geo else 'mgvi'}"
    # --- zero offset
    ck.hit("cl_offset_checked")
    if np.max(np.abs(off)) > TOL_OFF:
        ck.violation(f"offset-nonzero:{tag}", "zero white noise gives a non-zero residual",
                     offset=vh.small(off, 15))
    # --- covariance
    ck.hit("cl_cov_compared")
    sc_ = max(np.max(np.abs(C)), 1e-300)
    dev = np.max(np.abs(L @ L.T - C)) / sc_
    if not dev <= (TOL_GEO if geo else TOL_COV):
        ck.violation(f"covariance-mismatch:{tag}:pe={'yes' if pe else 'no'}:napprox={napprox}",
                     "L L^T of the scripted residual map differs from the inverse of the dense metric "
                     "1 + J^T N^-1 J at the expansion point",
                     reldev=float(dev), W=int(W), LLt=vh.small(L @ L.T), expected=vh.small(C))
    # --- point-estimated keys
    if len(pe_idx):
        ck.hit("cl_pe_zero_checked")
        if np.any(L[pe_idx, :] != 0) or np.any(off[pe_idx] != 0):
            ck.violation(f"point-estimate-residual-nonzero:{tag}",
                         "residual on a point-estimated key is not exactly zero",
                         rows=vh.small(L[pe_idx, :], 12))
    # --- geoVI on linear models leaves the linear sample unchanged
    if geo:
        ck.hit("cl_geovi_unchanged")
        d = vh.relerr(L, Llin)
        if not d <= TOL_GEO:
            ck.violation(f"geovi-changes-linear-sample:{tag}",
                         "for a linear model the geoVI sample differs from the MGVI sample drawn from "
                         "the same white noise", reldev=d, geo=vh.small(L), lin=vh.small(Llin))
    # --- mirrored partners, sample mean
    for todo, res in raws:
        sl, mean = res
        items = [vh.cl_vec(mir, f) for f in sl.at(zero).local_iterator()]
        expect_n = ns * stride
        if len(items) != expect_n:
            ck.violation(f"sample-count:{tag}", "number of samples differs from n_samples*(2 if mirrored)",
                         got=len(items), expected=expect_n)
            break
        if mirror:
            for j in range(ns):
                a, bb = items[2 * j], items[2 * j + 1]
                if geo:
                    ck.hit("cl_mirror_geo")
                    scale = max(np.max(np.abs(a)), 1e-300)
                    if np.max(np.abs(a + bb)) > TOL_GEO * scale and np.max(np.abs(a + bb)) > 1e-13:
                        ck.violation(f"mirror-not-negative:{tag}",
                                     "geoVI mirrored sample of a linear model is not the negative of "
                                     "its partner", a=vh.small(a, 12), b=vh.small(bb, 12))
                else:
                    ck.hit("cl_mirror_bitwise")
                    if not np.array_equal(bb, -a):
                        ck.violation(f"mirror-not-negative:{tag}",
                                     "mirrored sample is not the exact negative of its partner",
                                     a=vh.small(a, 15), b=vh.small(bb, 15))
            ck.hit("cl_sample_mean")
            avg = vh.cl_vec(mir, sl.average())
            ref = vh.cl_vec(mir, mean)
            if np.max(np.abs(avg - ref)) > TOL_MEAN * max(1.0, np.max(np.abs(ref))) \
                    + (TOL_GEO * np.max(np.abs(items[0])) if geo else 0.0):
                ck.violation(f"sample-mean-not-expansion-point:{tag}",
                             "average of the mirrored samples differs from the expansion point",
                             avg=vh.small(avg, 15), pos=vh.small(ref, 15))


# =====================================================================================
# JAX
# =====================================================================================
CGKW = dict(resnorm=1e-11, miniter=0, maxiter=200)


def _re_setup(ck, rng, linear=None, **kw):
    kw = {k: v for k, v in kw.items() if v is not None}
    jax, jnp, jft, rs = vh.get_jax(ck)
    if linear is None:
        linear = bool(rng.integers(0, 2))
    m = vh.gen_model(rng, linear=linear, **kw)
    mir = vh.Mirror(m)
    r = vh.build_re(jax, jnp, jft, m)
    x0 = 0.7 * rng.standard_normal(mir.n)
    pos = vh.re_pos(jft, jnp, mir, x0)
    return jax, jnp, jft, rs, m, mir, r["lh"], x0, pos


def case_re(ck, rng, force=None):
    vh.jax_budget_guard(ck, forced=force is not None)
    force = force or {}
    jax, jnp, jft, rs, m, mir, lh, x0, pos = _re_setup(ck, rng, linear=force.get("linear"),
                                                       nkeys=2 if force.get("pe") else None)
    linear = m["linear"]
    keys = mir.keys
    route = force.get("route", ["dlr", "ovi_lin", "ovi_lin", "ovi_draw"][int(rng.integers(0, 4))])
    pe = _subset(rng, keys) if len(keys) > 1 else []
    if force.get("pe"):
        pe = [keys[int(rng.integers(0, len(keys)))]]
    if route == "dlr":
        rmap, cgname, lmj = "python", "cg", False
    else:
        rmap, cgname, lmj = [("lmap", "cg", False), ("vmap", "static_cg", True),
                             ("smap", "static_cg", True), ("lmap", "static_cg", True)][
            int(rng.integers(0, 4))]
    cg = getattr(jft.conjugate_gradient, cgname)
    nonlin = bool(linear and (force.get("nonlin") or rng.integers(0, 2) == 0))
    kseed = int(rng.integers(0, 2**31))
    opt = dict(api="re", route=route, rmap=rmap, cg=cgname, pe=pe, nonlin=nonlin, kseed=kseed)
    ck.note(dict(model=vh.model_brief(m), opt=opt),
            nontrivial=(len(keys) >= 2 or bool(pe) or vh.is_rank_deficient(m)),
            klass=f"re:{route}:{rmap}:{'lin' if linear else 'nl'}")

    liq_keys = [k for k in keys if k not in pe]
    liq = mir.idx(liq_keys)
    pe_idx = mir.idx(pe)
    C = _cov_oracle(mir, x0, liq)
    nd, nliq = mir.nd, len(liq)
    W = nd + nliq
    nk = W + 1                                  # last key: zero noise
    pet = tuple(pe)
    tag = f"re:{route}"
    key0 = jax.random.PRNGKey(kseed)

    try:
        if route == "ovi_draw":
            keys_ = jax.random.split(key0, nk)       # what draw_samples will derive
        else:
            keys_ = jax.random.split(jax.random.fold_in(key0, 1), nk)
        table, _ = vh.re_basis_table(jax, keys_, nd, nliq)
        rs.set_table(table)
        if route == "dlr":
            cols, infos = [], []
            for j in range(nk):
                s, info = jft.draw_linear_residual(lh, pos, keys_[j], point_estimates=pet, cg=cg,
                                                   cg_kwargs=dict(CGKW), jit_metric=True)
                cols.append(vh.re_vec(mir, s))
                infos.append(int(info))
            A = np.stack(cols, axis=0)
            infos = np.asarray(infos)
            neg = None
            smp_mean = None
        else:
            ovi = jft.OptimizeVI(lh, 1, residual_map=rmap, linear_minimizer_jit=lmj)
            if route == "ovi_lin":
                smp, st = ovi.draw_linear_samples(pos, keys_, point_estimates=pet, cg=cg,
                                                  cg_kwargs=dict(CGKW))
            else:
                smp, st = ovi.draw_samples(jft.Samples(pos=pos, samples=None, keys=None), key=key0,
                                           sample_mode="linear_resample", n_samples=nk,
                                           point_estimates=pet,
                                           draw_linear_kwargs=dict(cg=cg, cg_kwargs=dict(CGKW)))
                if not np.array_equal(np.asarray(smp.keys), np.asarray(keys_)):
                    raise RuntimeError("harness: draw_samples derived other keys than predicted")
            infos = np.asarray(st)
            if len(smp) != 2 * nk:
                ck.violation(f"sample-count:{tag}", "number of samples is not 2*n_samples",
                             got=len(smp), expected=2 * nk)
                return
            allr = vh.re_vec(mir, smp._samples, batch=2 * nk)
            A, neg = allr[0::2], allr[1::2]
            full = vh.re_tree(smp.samples)               # public accessor: pos + residuals
            smp_mean = vh.re_vec(mir, {k: np.mean(np.asarray(full[k]), axis=0) for k in keys})
    finally:
        rs.off()

    ok = (infos == 0)
    if not np.all(ok):
        ck.hit("re_cg_not_converged", int(np.sum(~ok)))
        raise vh.SkipCase("JAX CG reported info != 0 for a scripted draw")
    if not np.all(np.isfinite(A)):
        raise RuntimeError("harness: NaN in scripted residuals (a key was not in the script table)")
    L = A[:W].T
    off = A[W]
    ck.hit("re_offset_checked")
    if np.max(np.abs(off)) > TOL_OFF:
        ck.violation(f"offset-nonzero:{tag}", "zero white noise gives a non-zero residual",
                     offset=vh.small(off, 15))
    ck.hit("re_cov_compared")
    dev = np.max(np.abs(L @ L.T - C)) / max(np.max(np.abs(C)), 1e-300)
    if not dev <= TOL_COV:
        ck.violation(f"covariance-mismatch:{tag}:pe={'yes' if pe else 'no'}",
                     "L L^T of the scripted residual map differs from the inverse of the dense metric "
                     "1 + J^T N^-1 J at the expansion point",
                     reldev=float(dev), LLt=vh.small(L @ L.T), expected=vh.small(C))
    if len(pe_idx):
        ck.hit("re_pe_zero_checked")
        if np.any(A[:, pe_idx] != 0) or (neg is not None and np.any(neg[:, pe_idx] != 0)):
            ck.violation(f"point-estimate-residual-nonzero:{tag}",
                         "residual on a point-estimated key is not exactly zero",
                         rows=vh.small(A[:, pe_idx], 12))
    if neg is not None:
        ck.hit("re_mirror_bitwise", nk)
        if not np.array_equal(neg, -A):
            ck.violation(f"mirror-not-negative:{tag}",
                         "mirrored sample is not the exact negative of its partner",
                         a=vh.small(A[:3], 15), b=vh.small(neg[:3], 15))
        ck.hit("re_sample_mean")
        if np.max(np.abs(smp_mean - x0)) > TOL_MEAN * max(1.0, np.max(np.abs(x0))) * 10:
            ck.violation(f"sample-mean-not-expansion-point:{tag}",
                         "average of the mirrored samples differs from the expansion point",
                         avg=vh.small(smp_mean, 15), pos=vh.small(x0, 15))

    # ---- nonlinear update on a linear model must keep the linear samples
    if nonlin:
        n2 = 2
        key2 = jax.random.fold_in(key0, 7)
        keys2 = jax.random.split(key2, n2)
        white = rng.standard_normal((W, n2))
        table2, _ = vh.re_basis_table(jax, keys2, nd, nliq, white=white)
        try:
            rs.set_table(table2)
            ovi = jft.OptimizeVI(lh, 1, residual_map="lmap", linear_minimizer_jit=False)
            dl = dict(cg=jft.conjugate_gradient.cg, cg_kwargs=dict(CGKW))
            nlk = dict(minimize_kwargs=dict(xtol=1e-10, maxiter=5,
                                            cg_kwargs=dict(miniter=0, maxiter=100)))
            lin, st1 = ovi.draw_samples(jft.Samples(pos=pos, samples=None, keys=None), key=key2,
                                        sample_mode="linear_resample", n_samples=n2,
                                        point_estimates=pet, draw_linear_kwargs=dl,
                                        nonlinearly_update_kwargs=nlk)
            mode2 = ["nonlinear_update", "nonlinear_sample", "nonlinear_resample"][
                int(rng.integers(0, 3))]
            upd, st2 = ovi.draw_samples(lin, key=key2, sample_mode=mode2, n_samples=n2,
                                        point_estimates=pet, draw_linear_kwargs=dl,
                                        nonlinearly_update_kwargs=nlk)
        finally:
            rs.off()
        if np.all(np.asarray(st1) == 0):
            a = vh.re_vec(mir, lin._samples, batch=2 * n2)
            bb = vh.re_vec(mir, upd._samples, batch=2 * n2)
            ck.hit("re_nonlinear_unchanged")
            d = vh.relerr(a, bb)
            if not d <= TOL_GEO:
                ck.violation(f"nonlinear-update-changes-linear-sample:re:{mode2}",
                             "for a linear model the nonlinearly updated samples differ from the "
                             "linear samples", reldev=d, lin=vh.small(a), upd=vh.small(bb))
            if len(pe_idx):
                ck.hit("re_pe_zero_checked")
                if np.any(bb[:, pe_idx] != 0):
                    ck.violation("point-estimate-residual-nonzero:re:nonlinear",
                                 "nonlinearly updated residual on a point-estimated key is not zero",
                                 rows=vh.small(bb[:, pe_idx], 12))
            ck.hit("re_mirror_geo")
            if np.max(np.abs(bb[0::2] + bb[1::2])) > TOL_GEO * max(np.max(np.abs(bb)), 1e-300):
                ck.violation("mirror-not-negative:re:nonlinear",
                             "nonlinearly updated mirrored samples of a linear model are not negatives",
                             s=vh.small(bb, 12))


# =====================================================================================
# unscripted smoke test (7 sigma): the real RNG gives residuals with r^T M r ~ chi^2
# =====================================================================================
def smoke(ck, rng, api):
    N = 160
    if api == "cl":
        ift = ck.state["ift"]
        sc = vh.get_clscript(ck, ift)
        sc.off()
        m = vh.gen_model(rng)
        mir = vh.Mirror(m)
        b = vh.build_cl(ift, m)
        x0 = 0.7 * rng.standard_normal(mir.n)
        pos = vh.cl_field(ift, b["dom"], mir, x0)
        seed = int(rng.integers(0, 2**31))
        ck.note(dict(model=vh.model_brief(m), opt=dict(api="cl", smoke=True, seed=seed)),
                nontrivial=len(mir.keys) >= 2 or vh.is_rank_deficient(m), klass="smoke:cl")
        M = mir.metric(x0)
        if np.linalg.cond(M) > 1e6:
            raise vh.SkipCase("metric condition number > 1e6")
        ic = ift.GradientNormController(tol_abs_gradnorm=1e-11, iteration_limit=200)
        ham = ift.StandardHamiltonian(b["lh"], ic, prior_sampling_dtype=float)
        with ift.random.Context(seed):
            kl = ift.SampledKLEnergy(pos, ham, N, None, mirror_samples=False)
        zero = ift.full(b["dom"], 0.)
        Rm = np.stack([vh.cl_vec(mir, f) for f in kl.samples.at(zero).local_iterator()])
    else:
        vh.jax_budget_guard(ck, forced=ck.i is not None and ck.i < 8)
        jax, jnp, jft, rs, m, mir, lh, x0, pos = _re_setup(ck, rng)
        rs.off()
        kseed = int(rng.integers(0, 2**31))
        ck.note(dict(model=vh.model_brief(m), opt=dict(api="re", smoke=True, kseed=kseed)),
                nontrivial=len(mir.keys) >= 2 or vh.is_rank_deficient(m), klass="smoke:re")
        M = mir.metric(x0)
        if np.linalg.cond(M) > 1e6:
            raise vh.SkipCase("metric condition number > 1e6")
        ovi = jft.OptimizeVI(lh, 1, residual_map="vmap", linear_minimizer_jit=True)
        ks = jax.random.split(jax.random.PRNGKey(kseed), N)
        smp, st = ovi.draw_linear_samples(pos, ks, cg=jft.conjugate_gradient.static_cg,
                                          cg_kwargs=dict(CGKW))
        if not np.all(np.asarray(st) == 0):
            raise vh.SkipCase("JAX CG reported info != 0")
        Rm = vh.re_vec(mir, smp._samples, batch=2 * N)[0::2]
    if Rm.shape != (N, mir.n):
        ck.violation(f"sample-count:smoke:{api}", "unexpected number of samples", shape=list(Rm.shape))
        return
    t = float(np.einsum("ni,ij,nj->", Rm, M, Rm))
    E = N * mir.n
    sd = np.sqrt(2.0 * N * mir.n)
    ck.hit("smoke_chi2")
    if abs(t - E) > 7 * sd:
        ck.violation(f"smoke-chi2:{api}",
                     "unscripted samples: sum r^T M r is more than 7 sigma from its chi^2 expectation",
                     t=t, expected=E, sigma=float(sd))
