"""C34 — Lanczos, stochastic log-determinant and ELBO estimators are exact in the limit.

lanczos   ``nifty.re.lanczos.lanczos_tridiag`` on SPD operators with prescribed spectra: Q orthonormal,
          Q A Q^T = T, T symmetric tridiagonal; full order: eig(T) = eig(A); order < n: Ritz values inside
          the spectrum, extreme Ritz values of the leading blocks converge monotonically; early
          breakdown (repeated eigenvalues) pads with zeros.
slq       ``stochastic_lq_logdet`` / ``_slq_gauss_radau`` with the Rademacher probes *recorded at run
          time* (jax.debug.callback inside a wrapper of jax.random.rademacher): order >= n  =>  estimate
          = (1/m) sum_z z^T log(A) z (dense eigh); order < n: Gauss rule for log over-estimates.
elbo_re / elbo_cl   linear Gaussian models d = R xi + n with sigma-point sample sets (+-sqrt(n) columns of a
          square root of the covariance of the chosen Gaussian Q): the sample average of the quadratic
          Hamiltonian is its exact expectation, so
              ELBO = -<H>_Q + 1/2 (N - log det Lambda)            (assembled densely)
          and for Q = exact posterior  ELBO = log p(d) + 1/2 log|2 pi N| (closed-form evidence; the constant
          is the documented omitted term), for Q = posterior with shifted mean it is smaller by exactly
          KL(Q||P) = 1/2 delta^T Lambda delta.  All option routes (eigsh / slq, signal / data / auto,
          metric_jit, slq_jit, batches, resume from the top-k eigensystem, classic vs JAX) are compared
          with the same closed form.
"""
import numpy as np

from vf.libhelp import pick, rfloat, spd_with_spectrum

META = dict(
    id="C34", level="exploration",
    title="Lanczos, stochastic log-determinant and ELBO estimators are exact in the limit",
    technique=("dense eigh / closed-form Gaussian evidence oracles; probes of the stochastic estimator "
               "recorded at run time; sigma-point sample sets make sample averages exact"),
    rule=("families lanczos (n 2..24, spectra: wide, clustered, repeated, geometric; dense and matrix-free, "
          "shaped vectors; order n and < n), slq (same operators, order >= n and < n, 1-4 probes, vmap/lmap), "
          "elbo_re (1-5 data x 2-6 latent, Q in {exact, shifted mean, perturbed covariance}, options eigsh/slq x "
          "signal/data/auto x metric_jit x slq_jit x compute_all / n_eigenvalues x batches x resume at k), "
          "elbo_resume (3-9 data x 3-9 latent, n_eigenvalues up to the full relevant dimension; every resume split "
          "1..n_eigenvalues x n_batches in {1,2,3,4} x signal/data/auto x with/without resume_eigenvalues, each "
          "compared with the one-go run of the same batch schedule, the dense closed form and the expected number "
          "of eigenvalues), elbo_cl (the mirrored classic model; compute_all / partial / resume / analytic_prior_term). "
          "non-trivial: lanczos/slq: n >= 4 and non-uniform spectrum; elbo: perturbed Q or resumed or slq; "
          "distinct = distinct descriptor"),
    assumptions=[
        "eigenvalue cut positions (partial eigsh, resume, slq deflation) are only generated where the "
        "neighbouring eigenvalues differ by > 5% (unique invariant subspace)",
        "all relevant metric eigenvalues are >= 1.05 so that the min_lh_eval early stop is not triggered "
        "unless compute_all is used",
        "for Q with a covariance different from Lambda^-1 the reported number is compared with its closed "
        "form only (it is then not the ELBO of Q, the entropy term is that of Lambda^-1)",
    ],
    need=["lanczos_full", "lanczos_partial", "slq_full_order", "slq_probes_recorded", "elbo_re_calls",
          "elbo_re_evidence", "elbo_re_kl", "elbo_re_resumed", "elbo_resume_split_inside_batch", "elbo_re_slq", "elbo_cl_calls",
          "elbo_cl_vs_re", "elbo_re_analytic"],
    quick=dict(cases=70, workers=6, budget_s=150),
    thorough=dict(cases=1500, workers=16, budget_s=780),
    design_ref="DESIGN.md §5 C34",
    level_text="~70 (quick) generated operators / models; every option route compared with a closed form",
    level_note=("trusts numpy/scipy dense linear algebra; tolerances 1e-9 (Lanczos), 1e-8 (SLQ, ELBO); "
                "use_radau_as_bound and analytic_prior_term with SLQ only smoke-tested"),
)


def init(ck):
    import jax
    jax.config.update("jax_enable_x64", True)
    from vf.libhelp import enable_jax_cache, install_mpi_stub
    enable_jax_cache()
    install_mpi_stub()
    import jax.numpy as jnp
    import nifty.re as jft
    import nifty.cl as ift
    from nifty.re.num import lanczos as L
    import nifty.re.evidence_lower_bound as E
    ck.state.update(jax=jax, jnp=jnp, jft=jft, ift=ift, L=L, E=E, probes=[])
    # run-time recording of the Rademacher probes actually drawn (works inside scan / jit / vmap)
    orig = jax.random.rademacher
    store = ck.state["probes"]

    def rec(a):
        store.append(np.array(a))

    def rademacher(key, shape=(), dtype=int):
        z = orig(key, shape, dtype)
        jax.debug.callback(rec, z)
        return z
    jax.random.rademacher = rademacher
    import logging
    logging.getLogger("NIFTy").setLevel(logging.ERROR)
    logging.getLogger("nifty").setLevel(logging.ERROR)


# ------------------------------------------------------------------------------------------
def gen_spectrum(rng, n):
    kind = pick(rng, ["wide", "clustered", "repeated", "geometric", "uniform"])
    if kind == "wide":
        ev = np.exp(rng.uniform(np.log(1e-2), np.log(1e3), n))
    elif kind == "clustered":
        c = np.exp(rng.uniform(-1, 3, max(1, n // 3)))
        ev = np.array([c[int(rng.integers(0, len(c)))] * (1 + 1e-3 * rng.standard_normal()) for _ in range(n)])
    elif kind == "repeated":
        c = np.round(np.exp(rng.uniform(0, 3, max(1, n // 2))), 2)
        ev = np.array([c[int(rng.integers(0, len(c)))] for _ in range(n)])
    elif kind == "geometric":
        ev = 2.0 ** np.arange(n) * rng.uniform(0.5, 2)
    else:
        ev = np.full(n, rfloat(rng, 0.5, 5))
    return kind, np.sort(np.abs(ev))[::-1] + 0.0


def close(a, b, rtol, atol=0.0):
    a, b = np.asarray(a), np.asarray(b)
    return a.shape == b.shape and bool(np.all(np.abs(a - b) <= rtol * max(np.max(np.abs(a), initial=0),
                                                                          np.max(np.abs(b), initial=0)) + atol))


class Bad:
    def __init__(self, ck):
        self.ck, self.seen = ck, set()

    def __call__(self, key, what, **w):
        if key not in self.seen:
            self.seen.add(key)
            self.ck.violation(key, what, **w)


# ------------------------------------------------------------------------------------------
def case_lanczos(ck, rng, bad):
    jnp, L, jft = ck.state["jnp"], ck.state["L"], ck.state["jft"]
    n = int(pick(rng, list(range(2, 13)) + [10, 12, 12, 16, 20, 24]))
    kind, ev = gen_spectrum(rng, n)
    A, Qm = spd_with_spectrum(rng, ev)
    shaped = n % 2 == 0 and rng.integers(0, 3) == 0
    vshape = (2, n // 2) if shaped else (n,)
    form = pick(rng, ["matmul", "callable_np_closure"])
    Aj = jnp.asarray(A)
    mat = (lambda v: (Aj @ v.reshape(-1)).reshape(vshape))
    v = rng.standard_normal(vshape)
    order = n if rng.integers(0, 5) < 3 else int(rng.integers(1, n + 1))
    T, B = jft.lanczos.lanczos_tridiag(mat, jnp.asarray(v), order=order)
    T, B = np.asarray(T), np.asarray(B).reshape(order, n)
    desc = dict(fam="lanczos", n=n, spectrum=kind, order=order, shaped=bool(shaped))
    distinct = np.unique(np.round(ev / ev[0], 9)).size
    ck.note(desc, nontrivial=(n >= 4 and kind != "uniform"), klass="lanczos")
    sA = float(ev[0])
    # structure
    if T.shape != (order, order) or not np.allclose(T, T.T, atol=1e-14 * sA) or \
            np.max(np.abs(np.triu(T, 2)), initial=0) > 0:
        bad("lanczos:not-tridiagonal", "returned T is not a symmetric tridiagonal matrix of shape (order, order)")
        return
    # effective Krylov dimension: rows of the basis that are non-zero
    nz = np.linalg.norm(B, axis=1) > 0.5
    r = int(nz.sum())
    if not np.all(nz[:r]):
        bad("lanczos:basis-holes", "non-zero basis vectors after a zero one")
        return
    Br, Tr = B[:r], T[:r, :r]
    ck.hit("lanczos_basis_checks")
    if not close(Br @ Br.T, np.eye(r), 0, 1e-9):
        bad("lanczos:basis-not-orthonormal", "Lanczos basis vectors are not orthonormal",
            dev=float(np.max(np.abs(Br @ Br.T - np.eye(r)))), spectrum=kind)
    if not close(Br[0], v.reshape(-1) / np.linalg.norm(v), 0, 1e-12):
        bad("lanczos:first-vector", "first basis vector is not the normalised start vector")
    if not close(Br @ A @ Br.T, Tr, 0, 1e-9 * sA):
        bad("lanczos:projection", "Q A Q^T != T", dev=float(np.max(np.abs(Br @ A @ Br.T - Tr))), spectrum=kind)
    if r < order:
        ck.hit("lanczos_breakdowns")
        # documented: padded with zeros after an early breakdown
        if np.max(np.abs(T[r:, :]), initial=0) > 1e-9 * sA or np.max(np.abs(B[r:]), initial=0) > 0:
            bad("lanczos:padding", "output not padded with zeros after breakdown")
    if r > distinct and kind in ("repeated", "uniform"):
        # breakdown threshold is absolute (1e-12): rounding noise can restart the recurrence inside a
        # degenerate eigenspace; all invariants below still have to hold -> observation only
        ck.hit("lanczos_missed_breakdown")
    th = np.linalg.eigvalsh(Tr)
    # Ritz values inside the spectrum
    if th.min() < ev[-1] * (1 - 1e-9) - 1e-12 * sA or th.max() > ev[0] * (1 + 1e-9):
        bad("lanczos:ritz-outside-spectrum", "Ritz values outside [lambda_min, lambda_max]",
            ritz=[float(th.min()), float(th.max())], spec=[float(ev[-1]), float(ev[0])])
    if order == n or r < order:
        # invariant subspace reached: every Ritz value is an eigenvalue; full order & full rank: all of them
        ck.hit("lanczos_full")
        d = np.min(np.abs(th[:, None] - ev[None, :]), axis=1)
        if np.max(d) > 1e-9 * sA:
            bad("lanczos:eigenvalues", "eigenvalues of the full-order tridiagonal are not eigenvalues of A",
                dev=float(np.max(d)), spectrum=kind)
        if r == n and not close(np.sort(th), np.sort(ev), 1e-9):
            bad("lanczos:eigenvalues", "full-order tridiagonal does not have the operator's spectrum")
    else:
        ck.hit("lanczos_partial")
    # monotone convergence of the extreme Ritz values of the leading blocks
    hi = [np.linalg.eigvalsh(Tr[:j, :j])[-1] for j in range(1, r + 1)]
    lo = [np.linalg.eigvalsh(Tr[:j, :j])[0] for j in range(1, r + 1)]
    if np.any(np.diff(hi) < -1e-10 * sA) or np.any(np.diff(lo) > 1e-10 * sA):
        bad("lanczos:ritz-not-monotone", "extreme Ritz values do not converge monotonically")


def dense_fun(A, f):
    w, V = np.linalg.eigh(A)
    return (V * f(w)) @ V.T


def case_slq(ck, rng, bad):
    jnp, L, jft, jax = ck.state["jnp"], ck.state["L"], ck.state["jft"], ck.state["jax"]
    n = int(rng.integers(2, 11))
    kind, ev = gen_spectrum(rng, n)
    A, _ = spd_with_spectrum(rng, ev)
    nsamp = int(rng.integers(1, 5))
    full = rng.integers(0, 3) != 0
    order = int(n + rng.integers(0, 3)) if full else int(rng.integers(1, n))
    key = int(rng.integers(0, 2 ** 31 - 1))
    form = pick(rng, ["dense", "callable"])
    cmap = pick(rng, ["vmap", "lmap"])
    cm = jax.vmap if cmap == "vmap" else jft.lmap
    Aj = jnp.asarray(A)
    store = ck.state["probes"]
    del store[:]
    api = pick(rng, ["public", "public", "internal"])
    if api == "public":
        if form == "dense":
            est = jft.lanczos.stochastic_lq_logdet(Aj, order, nsamp, key if rng.integers(0, 2) else
                                                   jax.random.PRNGKey(key), cmap=cm)
        else:
            est = jft.lanczos.stochastic_lq_logdet(lambda v: Aj @ v, order, nsamp, key, shape0=n, cmap=cm)
        est = float(est)
    else:
        out = L._slq_gauss_radau(Aj if form == "dense" else (lambda v: Aj @ v), jnp.log, order, nsamp,
                                 key=jax.random.PRNGKey(key), n=n, cmap=cm,
                                 probe_batch_size=int(rng.integers(1, nsamp + 1)), reorthogonalize="full")
        est = float(out["estimate"])
    jax.effects_barrier()
    Z = np.concatenate([z.reshape(-1, n) for z in store], axis=0) if store else np.zeros((0, n))
    desc = dict(fam="slq", n=n, spectrum=kind, order=order, nsamp=nsamp, form=form, cmap=cmap, api=api)
    ck.note(desc, nontrivial=(n >= 4 and kind != "uniform"), klass="slq")
    ck.hit("slq_probes_recorded", Z.shape[0])
    if Z.shape[0] != nsamp or not np.all(np.abs(Z) == 1):
        bad("slq:probes", "number / kind of drawn probes differs from n_samples Rademacher vectors",
            drawn=int(Z.shape[0]), n_samples=nsamp)
        return
    logA = dense_fun(A, np.log)
    exact = float(np.mean(np.einsum("ij,jk,ik->i", Z, logA, Z)))
    sc = float(np.sum(np.abs(np.log(ev))) + 1)
    if full:
        ck.hit("slq_full_order")
        if not abs(est - exact) <= 1e-8 * sc:
            bad("slq:full-order-not-exact", "SLQ with order >= n differs from (1/m) sum_z z^T log(A) z for the "
                "probes it drew", estimate=est, exact=exact, spectrum=kind, order=order, n=n)
    else:
        ck.hit("slq_partial_order")
        # Gauss rule for log (even derivatives negative) over-estimates each z^T log(A) z
        if est < exact - 1e-8 * sc:
            bad("slq:gauss-rule-bound", "Gauss quadrature of log under-estimates the quadratic form",
                estimate=est, exact=exact)
        if not np.isfinite(est):
            bad("slq:not-finite", "estimate not finite")


# ------------------------------------------------------------------------------------------
def gen_gauss_model(rng):
    n = int(rng.integers(2, 7))
    m = int(rng.integers(1, 6))
    for _ in range(50):
        R = rng.standard_normal((m, n)) * rfloat(rng, 0.7, 3)
        iv = np.exp(rng.uniform(-0.5, 2.0, m))
        d = rng.standard_normal(m) * 2
        Lm = np.sqrt(iv)[:, None] * R
        mu = np.sort(np.linalg.eigvalsh(Lm @ Lm.T))[::-1][:min(m, n)]
        gaps = mu[:-1] / mu[1:] if mu.size > 1 else np.array([2.0])
        if mu.min() > 0.05 and np.all(gaps > 1.05):
            return n, m, R, iv, d
    raise RuntimeError("no well separated model")


def closed_forms(R, iv, d):
    m, n = R.shape
    Lam = R.T @ (iv[:, None] * R) + np.eye(n)
    Sig = np.linalg.inv(Lam)
    mean = Sig @ (R.T @ (iv * d))
    C = R @ R.T + np.diag(1 / iv)
    logev = -0.5 * d @ np.linalg.solve(C, d) - 0.5 * np.linalg.slogdet(2 * np.pi * C)[1]
    const = 0.5 * np.sum(np.log(2 * np.pi / iv))          # 1/2 log|2 pi N|
    return Lam, Sig, mean, logev + const


def Hnp(R, iv, d, x):
    r = d - R @ x
    return 0.5 * np.sum(iv * r * r) + 0.5 * x @ x


def sigma_points(S):
    n = S.shape[0]
    Lc = np.linalg.cholesky(S)
    return np.concatenate([np.sqrt(n) * Lc.T, -np.sqrt(n) * Lc.T], axis=0)       # (2n, n) residuals


def gen_Q(rng, Lam, Sig, mean):
    qk = pick(rng, ["exact", "exact", "shifted", "shifted", "perturbed"])
    n = len(mean)
    delta = np.zeros(n)
    S = Sig
    if qk != "exact":
        delta = rng.standard_normal(n) * 0.5
    if qk == "perturbed":
        W = rng.standard_normal((n, n)) * 0.3
        S = Sig + W @ W.T * np.mean(np.diag(Sig))
    return qk, mean + delta, S, delta


def dense_cl_operator(ift, dom, tgt, M):
    """a user-defined nifty.cl LinearOperator applying the dense matrix M (tgt.size x dom.size)"""
    class Dense(ift.LinearOperator):
        def __init__(self):
            self._domain = ift.DomainTuple.make(dom)
            self._target = ift.DomainTuple.make(tgt)
            self._capability = self.TIMES | self.ADJOINT_TIMES

        def apply(self, x, mode):
            self._check_input(x, mode)
            v = x.asnumpy()
            r = M @ v if mode == self.TIMES else M.T @ v
            return ift.makeField(self._tgt(mode), r)
    return Dense()


def case_elbo_re(ck, rng, bad, with_cl=False):
    jnp, jft, jax, ift = (ck.state[k] for k in ("jnp", "jft", "jax", "ift"))
    n, m, R, iv, d = gen_gauss_model(rng)
    Lam, Sig, pmean, logev_c = closed_forms(R, iv, d)
    qk, qm, qS, delta = gen_Q(rng, Lam, Sig, pmean)
    res = sigma_points(qS)
    nrel = min(m, n)
    lam_all = np.sort(np.linalg.eigvalsh(Lam))[::-1]
    logdet = float(np.sum(np.log(lam_all)))
    dictlat = bool(rng.integers(0, 3) == 0)
    Rj, ivj, dj = jnp.asarray(R), jnp.asarray(iv), jnp.asarray(d)
    if dictlat:
        k1 = n // 2
        fwd = lambda x: Rj[:, :k1] @ x.tree["a"] + Rj[:, k1:] @ x.tree["b"]        # noqa
        wrap = lambda v: jft.Vector({"a": jnp.asarray(v[..., :k1]), "b": jnp.asarray(v[..., k1:])})   # noqa
        dom = jft.Vector({"a": jft.ShapeWithDtype((k1,)), "b": jft.ShapeWithDtype((n - k1,))})
    else:
        fwd = lambda x: Rj @ x                                           # noqa
        wrap = lambda v: jnp.asarray(v)                                  # noqa
        dom = jft.ShapeWithDtype((n,))
    lh = jft.Gaussian(dj, noise_cov_inv=lambda x: ivj * x, noise_std_inv=lambda x: jnp.sqrt(ivj) * x)
    lh = lh.amend(jft.Model(fwd, domain=dom))
    samples = jft.Samples(pos=wrap(qm), samples=wrap(res))

    # ---- options -------------------------------------------------------------------------------------
    method = pick(rng, ["eigsh", "eigsh", "slq"])
    space = pick(rng, ["signal", "data", "auto"])
    use_data = space == "data" or (space == "auto" and m <= n)
    kw = dict(trace_log_method=method, trace_log_space=space, metric_jit=bool(rng.integers(0, 2)),
              n_batches=int(rng.integers(1, 4)), verbose=False,
              output_directory=None)       # the default "" would write metric_*.npy into the cwd
    mode = pick(rng, ["all", "all", "compute_all", "partial", "resume"] + (["partial"] * 3 if method == "slq" else []))
    if nrel == 1 and mode in ("partial", "resume"):
        mode = "all"
    k = nrel
    opL = np.sqrt(iv)[:, None] * R
    Aop = (opL @ opL.T) if use_data else Lam
    w, V = np.linalg.eigh(Aop)
    w, V = w[::-1], V[:, ::-1]
    if mode == "partial":
        k = int(rng.integers(1, nrel))
    nev = k
    if mode == "compute_all":
        kw["compute_all"] = True
        nev = int(rng.integers(0, nrel + 1)) if method == "slq" else int(rng.integers(1, nrel + 1))
    if mode == "resume":
        kr = int(rng.integers(1, nrel + 1))
        sgn = rng.choice([-1.0, 1.0], kr)
        kw["resume_eigenvectors"] = V[:, :kr] * sgn
        if rng.integers(0, 2):
            kw["resume_eigenvalues"] = w[:kr].copy()
        else:
            kw["orthonormalize_eigenvectors"] = False
        ck.hit("elbo_re_resumed")
    if method == "slq":
        kw.update(slq_order=int(pick(rng, [64, Aop.shape[0], Aop.shape[0] + 3])),
                  slq_num_samples=int(rng.integers(2, 5)), slq_jit=bool(rng.integers(0, 2)),
                  slq_key=int(rng.integers(0, 10 ** 6)))
    store = ck.state["probes"]
    del store[:]
    es, stats = jft.estimate_evidence_lower_bound(lh, samples, nev, **kw)
    jax.effects_barrier()
    es = np.asarray(es)
    ck.hit("elbo_re_calls")
    desc = dict(fam="elbo_re", n=n, m=m, Q=qk, method=method, space=space, mode=mode, k=int(k), nev=int(nev),
                dictlat=dictlat, opts={a: (b if not isinstance(b, np.ndarray) else list(b.shape))
                                       for a, b in kw.items()})
    ck.note(desc, nontrivial=(qk != "exact" or mode == "resume" or method == "slq"),
            klass="elbo_cl+re" if with_cl else "elbo_re")

    # ---- expected trace-log -------------------------------------------------------------------------------
    shift = 0.0 if use_data else 0.0
    logw = np.log1p(w) if use_data else np.log(w)
    if mode == "partial":
        exact_log = float(np.sum(logw[:k]))
        if method == "eigsh":
            trlog = exact_log
            low = 0.5 * (nrel - k) * float(np.min(logw[:k]))
        else:
            Z = np.concatenate([z.reshape(-1, Aop.shape[0]) for z in store], axis=0) if store else None
            if Z is None or Z.shape[0] != kw["slq_num_samples"]:
                bad("elbo_re:slq-probes", "number of SLQ probes drawn != slq_num_samples",
                    drawn=None if Z is None else int(Z.shape[0]))
                return
            ck.hit("slq_probes_recorded", Z.shape[0])
            Zd = Z - (Z @ V[:, :k]) @ V[:, :k].T
            F = dense_fun(Aop, np.log1p if use_data else np.log)
            rem = float(np.mean(np.einsum("ij,jk,ik->i", Zd, F, Zd)))
            trlog = exact_log + rem
            low = None
            ck.hit("elbo_re_slq")
            for nm, val in (("trace_log_exact", exact_log), ("trace_log_slq", rem)):
                if not abs(float(stats[nm]) - val) <= 1e-8 * (abs(logdet) + 1):
                    bad(f"elbo_re:{nm}", f"stats['{nm}'] differs from the dense value for the recorded probes",
                        observed=float(stats[nm]), expected=val, space=space, jit=kw.get("slq_jit"))
    else:
        trlog = logdet
        low = 0.0 if method == "eigsh" else None
        if method == "slq":
            ck.hit("elbo_re_slq")
    Hs = np.array([Hnp(R, iv, d, qm + r) for r in res])
    exp_samples = -Hs + 0.5 * n - 0.5 * trlog
    sc = float(np.max(np.abs(exp_samples)) + abs(logdet) + 1)
    route = f"{method}/{'data' if use_data else 'signal'}/{mode}"
    if es.shape != exp_samples.shape or not np.all(np.abs(es - exp_samples) <= 1e-8 * sc):
        bad(f"elbo_re:samples:{route}", "ELBO samples differ from -H(s) + 1/2 (N - Tr log Lambda) assembled "
            "densely", observed=es[:3].tolist(), expected=exp_samples[:3].tolist(), opts=desc["opts"])
        return
    mean_exp = -(Hnp(R, iv, d, qm) + 0.5 * np.trace(Lam @ qS)) + 0.5 * n - 0.5 * trlog
    if not abs(float(stats["elbo_mean"]) - mean_exp) <= 1e-8 * sc:
        bad(f"elbo_re:mean:{route}", "elbo_mean differs from the exact expectation -<H>_Q + 1/2(N - log det)",
            observed=float(stats["elbo_mean"]), expected=float(mean_exp))
    if low is not None:
        ck.hit("elbo_re_lower_error")
        if not abs(float(stats["lower_error"]) - low) <= 1e-8 * sc:
            bad(f"elbo_re:lower_error:{method}", "lower_error differs from 1/2 (n_rel - k) min log(lambda)",
                observed=float(stats["lower_error"]), expected=low)
    sd = float(np.std(exp_samples, ddof=1))
    if not (abs(float(stats["elbo_up"]) - (mean_exp + sd)) <= 1e-7 * sc and
            abs(float(stats["elbo_lw"]) - (mean_exp - sd - float(stats["lower_error"]))) <= 1e-7 * sc):
        bad("elbo_re:up-lw", "elbo_up / elbo_lw are not mean +- std (- lower_error)")
    if mode != "partial":
        if qk == "exact":
            ck.hit("elbo_re_evidence")
            if not abs(float(stats["elbo_mean"]) - logev_c) <= 1e-8 * sc:
                bad(f"elbo_re:evidence:{route}", "ELBO of the exact posterior != log p(d) + 1/2 log|2 pi N|",
                    observed=float(stats["elbo_mean"]), expected=float(logev_c))
        elif qk == "shifted":
            ck.hit("elbo_re_kl")
            kl = 0.5 * delta @ Lam @ delta
            if not abs(float(stats["elbo_mean"]) - (logev_c - kl)) <= 1e-8 * sc or \
                    float(stats["elbo_mean"]) > logev_c + 1e-9 * sc:
                bad(f"elbo_re:kl:{route}", "ELBO of a mean-shifted posterior != log p(d) + c - KL(Q||P)",
                    observed=float(stats["elbo_mean"]), expected=float(logev_c - kl))

    # ---- analytic prior term (JAX): 1/2 <xi^T xi>_Q replaced by 1/2 (Tr Lambda^-1 + mean^T mean), all
    # eigenvalues via eigsh in signal and in data space; Tr Lambda^-1 includes one unit eigenvalue for every
    # latent direction the data do not constrain (n - min(m, n) of them, whatever the number of data points)
    lik = np.array([0.5 * np.sum(iv * (d - R @ (qm + r)) ** 2) for r in res])
    exp_a = -lik - 0.5 * (np.trace(Sig) + qm @ qm) + 0.5 * n - 0.5 * logdet
    for aspace in ("signal", "data"):
        akw = dict(trace_log_method="eigsh", trace_log_space=aspace, compute_all=True, analytic_prior_term=True,
                   n_batches=int(rng.integers(1, 3)), verbose=False, output_directory=None)
        esa, sta = jft.estimate_evidence_lower_bound(lh, samples, int(rng.integers(1, nrel + 1)), **akw)
        esa = np.asarray(esa)
        ck.hit("elbo_re_analytic")
        if esa.shape != exp_a.shape or not np.all(np.abs(esa - exp_a) <= 1e-8 * sc):
            bad(f"elbo_re:analytic:{aspace}", "JAX ELBO samples with analytic_prior_term differ from "
                "-lik(s) - 1/2 (Tr Lambda^-1 + m^T m) + 1/2 (N - log det Lambda)", observed=esa[:3].tolist(),
                expected=exp_a[:3].tolist(), n=n, m=m, trace_inv_total=float(sta.get("trace_inv_total", np.nan)),
                trace_inv_dense=float(np.trace(Sig)))

    # ---- classic implementation on the mirrored model -----------------------------------------------------------
    if not with_cl:
        return
    dd, ld = ift.UnstructuredDomain(m), ift.UnstructuredDomain(n)
    Rop = dense_cl_operator(ift, ld, dd, R)
    lhc = ift.GaussianEnergy(ift.makeField(dd, d), ift.makeOp(ift.makeField(dd, iv), sampling_dtype=float)) @ Rop
    ham = ift.StandardHamiltonian(lhc)
    half = res[:n]
    sl = ift.ResidualSampleList(ift.makeField(ld, qm), [ift.makeField(ld, r) for r in half] * 2,
                                [False] * n + [True] * n)
    # every classic mode on every model (all eigenvalues requested / compute_all / partial / resumed from
    # exact eigenpairs / analytic prior term), so that each option meets models with more data points than
    # parameters and vice versa
    cmodes = ["all", "compute_all", "analytic"] + (["partial", "resume"] if nrel > 1 else [])
    for cmode in cmodes:
        ckw = dict(verbose=False, n_batches=int(rng.integers(1, 4)))
        kc = nrel
        wl, Vl = np.linalg.eigh(Lam)
        wl, Vl = wl[::-1], Vl[:, ::-1]
        if cmode == "partial":
            kc = int(rng.integers(1, nrel))
        nevc = kc
        if cmode in ("compute_all", "analytic"):
            ckw["compute_all"] = True
            nevc = int(rng.integers(1, nrel + 1))
        if cmode == "analytic":
            ckw["analytic_prior_term"] = True
        if cmode == "resume":
            kr = int(rng.integers(1, nrel + 1))
            ckw["resume_eigenvectors"] = Vl[:, :kr] * rng.choice([-1.0, 1.0], kr)
            ckw["resume_eigenvalues"] = wl[:kr].copy()
        esc, stc = ift.estimate_evidence_lower_bound(ham, sl, nevc, **ckw)
        ck.hit("elbo_cl_calls")
        esc = np.array([float(s.asnumpy()) for s in esc.iterator()])
        trl = float(np.sum(np.log(wl[:kc])))
        if cmode == "analytic":
            # 1/2 <xi^T xi>_Q is replaced by 1/2 (Tr Lambda^-1 + mean^T mean)
            lik = np.array([0.5 * np.sum(iv * (d - R @ (qm + r)) ** 2) for r in np.concatenate([half, -half])])
            exp_c = -lik - 0.5 * (np.trace(Sig) + qm @ qm) + 0.5 * n - 0.5 * trl
        else:
            exp_c = np.array([-Hnp(R, iv, d, qm + r) for r in np.concatenate([half, -half])]) + 0.5 * n - 0.5 * trl
        if esc.shape != exp_c.shape or not np.all(np.abs(esc - exp_c) <= 1e-8 * sc):
            bad(f"elbo_cl:samples:{cmode}", "classic ELBO samples differ from the dense closed form",
                observed=esc[:3].tolist(), expected=exp_c[:3].tolist())
            continue
        mc = float(stc["elbo_mean"].asnumpy())
        if not abs(mc - float(np.mean(exp_c))) <= 1e-8 * sc:
            bad(f"elbo_cl:mean:{cmode}", "classic elbo_mean differs from the closed form", observed=mc,
                expected=float(np.mean(exp_c)))
        lowc = 0.5 * (nrel - kc) * float(np.min(np.log(wl[:kc])))
        if not abs(float(stc["lower_error"].asnumpy()) - lowc) <= 1e-8 * sc:
            bad("elbo_cl:lower_error", "classic lower_error differs from 1/2 (n_rel - k) min log(lambda)",
                observed=float(stc["lower_error"].asnumpy()), expected=lowc)
        if cmode != "analytic" and kc == nrel and mode != "partial":
            ck.hit("elbo_cl_vs_re")
            if not abs(mc - float(stats["elbo_mean"])) <= 1e-8 * sc:
                bad("elbo:cl-vs-re", "classic and JAX ELBO differ on the mirrored model and samples",
                    cl=mc, re=float(stats["elbo_mean"]), route=route)
        if cmode != "partial" and qk == "exact" and cmode != "analytic":
            if not abs(mc - logev_c) <= 1e-8 * sc:
                bad("elbo_cl:evidence", "classic ELBO of the exact posterior != log p(d) + 1/2 log|2 pi N|",
                    observed=mc, expected=float(logev_c))


def gen_gauss_model_big(rng):
    """larger linear Gaussian model for the resume sweep (up to 8 relevant eigenvalues)"""
    for _ in range(200):
        n = int(pick(rng, [3, 4, 5, 6, 6, 7, 7, 8, 8, 9]))
        m = int(pick(rng, [3, 4, 5, 6, 6, 7, 7, 8, 8, 9]))
        R = rng.standard_normal((m, n)) * rfloat(rng, 0.7, 3)
        iv = np.exp(rng.uniform(-0.5, 2.0, m))
        d = rng.standard_normal(m) * 2
        Lm = np.sqrt(iv)[:, None] * R
        mu = np.sort(np.linalg.eigvalsh(Lm @ Lm.T))[::-1][:min(m, n)]
        if mu.min() > 0.05 and np.all(mu[:-1] / mu[1:] > 1.05):
            return n, m, R, iv, d
    raise RuntimeError("no well separated model")


def case_elbo_resume(ck, rng, bad):
    """resumed eigenvalue computation: every split point 0..n_eigenvalues x n_batches in {1,2,3,4}, signal /
    data / auto, with and without resume_eigenvalues.  Every run must equal the one-go run and the dense
    closed form, and use exactly n_eigenvalues eigenvalues (lower_error as documented)."""
    jnp, jft, jax = (ck.state[k] for k in ("jnp", "jft", "jax"))
    n, m, R, iv, d = gen_gauss_model_big(rng)
    Lam, Sig, pmean, logev_c = closed_forms(R, iv, d)
    nrel = min(m, n)
    space = pick(rng, ["signal", "data", "data", "auto"])
    use_data = space == "data" or (space == "auto" and m <= n)
    opL = np.sqrt(iv)[:, None] * R
    Aop = (opL @ opL.T) if use_data else Lam
    w, V = np.linalg.eigh(Aop)
    w, V = w[::-1], V[:, ::-1]
    logw = np.log1p(w) if use_data else np.log(w)
    nev = nrel if rng.integers(0, 3) else int(rng.integers(2, nrel + 1))
    Rj, ivj, dj = jnp.asarray(R), jnp.asarray(iv), jnp.asarray(d)
    lh = jft.Gaussian(dj, noise_cov_inv=lambda x: ivj * x, noise_std_inv=lambda x: jnp.sqrt(ivj) * x)
    lh = lh.amend(jft.Model(lambda x: Rj @ x, domain=jft.ShapeWithDtype((n,))))
    res = sigma_points(Sig)
    samples = jft.Samples(pos=jnp.asarray(pmean), samples=jnp.asarray(res))
    Hs = np.array([Hnp(R, iv, d, pmean + r) for r in res])
    trlog = float(np.sum(logw[:nev]))
    exp_samples = -Hs + 0.5 * n - 0.5 * trlog
    low = 0.5 * (nrel - nev) * float(np.min(logw[:nev]))
    sc = float(np.max(np.abs(exp_samples)) + abs(np.sum(logw)) + 1)
    thorough = ck.thorough()
    desc = dict(fam="elbo_resume", n=n, m=m, space=space, nev=int(nev), nrel=int(nrel))
    ck.note(desc, nontrivial=True, klass="elbo_resume")
    route = "data" if use_data else "signal"
    base = {}
    for nb in (1, 2, 3, 4):
        # one-go reference run of the real code with the same batch schedule
        es0, st0 = jft.estimate_evidence_lower_bound(
            lh, samples, nev, trace_log_space=space, n_batches=nb, verbose=False, metric_jit=False,
            output_directory=None)
        base[nb] = (np.asarray(es0), float(st0["lower_error"]))
        ck.hit("elbo_re_calls")
        if not np.all(np.abs(base[nb][0] - exp_samples) <= 1e-8 * sc) or abs(base[nb][1] - low) > 1e-8 * sc:
            bad(f"elbo_re:one-go:{route}", "one-go ELBO (n_batches varied) differs from the dense closed form",
                n_batches=nb, nev=int(nev), observed=base[nb][0][:2].tolist(), expected=exp_samples[:2].tolist(),
                lower_error=[base[nb][1], low])
    splits = list(range(1, nev + 1))
    for split in splits:
        nbs = (1, 2, 3, 4) if (thorough or nev <= 6) else tuple(int(x) for x in rng.choice([1, 2, 3, 4], 2, False))
        for nb in nbs:
            with_ev = bool(rng.integers(0, 2))
            kw = dict(resume_eigenvectors=V[:, :split] * rng.choice([-1.0, 1.0], split))
            if with_ev:
                kw["resume_eigenvalues"] = w[:split].copy()
            else:
                kw["orthonormalize_eigenvectors"] = False
            es, st = jft.estimate_evidence_lower_bound(
                lh, samples, nev, trace_log_space=space, n_batches=nb, verbose=False,
                metric_jit=bool(rng.integers(0, 8) == 0), output_directory=None, **kw)
            es = np.asarray(es)
            ck.hit("elbo_re_calls")
            ck.hit("elbo_re_resumed")
            ck.hit("elbo_resume_split_batch_combos")
            # where the split falls relative to the documented batch schedule
            b0, r0 = divmod(nev, nb)
            sched = [b0 + 1] * r0 + [b0] * (nb - r0)
            bounds = set(np.cumsum([x for x in sched if x > 0]).tolist()) | {0}
            inside = split not in bounds
            if inside and split < nev:
                ck.hit("elbo_resume_split_inside_batch")
            wit = dict(split=int(split), n_batches=nb, nev=int(nev), nrel=int(nrel), space=space,
                       with_resume_eigenvalues=with_ev, split_inside_batch=bool(inside))
            # (b) number of eigenvalues actually used, seen through the trace-log: compare with every k
            d_tr = 2.0 * float(np.mean(es - (-Hs + 0.5 * n)))            # = -sum of the logs that were used
            used = [k for k in range(0, nrel + 1) if abs(-d_tr - float(np.sum(logw[:k]))) <= 1e-7 * sc]
            if used and used[0] != nev:
                bad(f"elbo_re:resume:{route}:eigenvalue-count", "a resumed run used a different number of "
                    "eigenvalues than requested (and than the one-go run)", used=int(used[0]), **wit)
                continue
            # (a) equals the one-go run and the dense closed form
            if es.shape != exp_samples.shape or not np.all(np.abs(es - base[nb][0]) <= 1e-8 * sc) or \
                    not np.all(np.abs(es - exp_samples) <= 1e-8 * sc):
                bad(f"elbo_re:resume:{route}:value", "resumed ELBO differs from the one-go run / the dense "
                    "closed form", observed=es[:2].tolist(), one_go=base[nb][0][:2].tolist(),
                    expected=exp_samples[:2].tolist(), **wit)
                continue
            if abs(float(st["lower_error"]) - low) > 1e-8 * sc or abs(float(st["lower_error"]) - base[nb][1]) > 1e-8 * sc:
                bad(f"elbo_re:resume:{route}:lower_error", "lower_error of a resumed run differs from the one-go "
                    "run / 1/2 (n_rel - k) min log(lambda)", observed=float(st["lower_error"]), expected=low, **wit)
    if nev == nrel:
        ck.hit("elbo_re_evidence")
        if not abs(float(np.mean(base[1][0])) - logev_c) <= 1e-8 * sc:
            bad(f"elbo_re:evidence:eigsh/{route}/all", "ELBO of the exact posterior != log p(d) + 1/2 log|2 pi N|")

    # ---- the classic implementation (signal space only): same sweep over split x n_batches ----------------
    ift = ck.state["ift"]
    dd, ld = ift.UnstructuredDomain(m), ift.UnstructuredDomain(n)
    lhc = ift.GaussianEnergy(ift.makeField(dd, d), ift.makeOp(ift.makeField(dd, iv), sampling_dtype=float)) \
        @ dense_cl_operator(ift, ld, dd, R)
    ham = ift.StandardHamiltonian(lhc)
    half = res[:n]
    sl = ift.ResidualSampleList(ift.makeField(ld, pmean), [ift.makeField(ld, r) for r in half] * 2,
                                [False] * n + [True] * n)
    wl, Vl = np.linalg.eigh(Lam)
    wl, Vl = wl[::-1], Vl[:, ::-1]
    exp_c = -Hs + 0.5 * n - 0.5 * float(np.sum(np.log(wl[:nev])))
    lowc = 0.5 * (nrel - nev) * float(np.min(np.log(wl[:nev])))
    for split in range(0, nev + 1):
        for nb in (1, 2, 3, 4):
            kw = {}
            if split > 0:
                kw = dict(resume_eigenvectors=Vl[:, :split] * rng.choice([-1.0, 1.0], split),
                          resume_eigenvalues=wl[:split].copy())
            esc, stc = ift.estimate_evidence_lower_bound(ham, sl, nev, n_batches=nb, verbose=False, **kw)
            esc = np.array([float(x.asnumpy()) for x in esc.iterator()])
            ck.hit("elbo_cl_calls")
            ck.hit("elbo_cl_resume_combos")
            if esc.shape != exp_c.shape or not np.all(np.abs(esc - exp_c) <= 1e-8 * sc) or \
                    abs(float(stc["lower_error"].asnumpy()) - lowc) > 1e-8 * sc:
                bad("elbo_cl:resume:value", "classic resumed / batched ELBO differs from the dense closed form "
                    "(value or lower_error)", split=int(split), n_batches=nb, nev=int(nev), nrel=int(nrel),
                    observed=esc[:2].tolist(), expected=exp_c[:2].tolist(),
                    lower_error=[float(stc["lower_error"].asnumpy()), lowc])


def case(ck, i):
    rng = ck.rng()
    fams = ["lanczos"] * 3 + ["slq"] * 3 + ["elbo_re"] * 3 + ["elbo_cl"] * 2 + ["elbo_resume"] * 2
    fam = fams[(i * 4 + int(ck.rng(777).integers(0, len(fams)))) % len(fams)]      # round-robin
    bad = Bad(ck)
    if fam == "lanczos":
        case_lanczos(ck, rng, bad)
    elif fam == "slq":
        case_slq(ck, rng, bad)
    elif fam == "elbo_re":
        case_elbo_re(ck, rng, bad)
    elif fam == "elbo_resume":
        case_elbo_resume(ck, rng, bad)
    else:
        case_elbo_re(ck, rng, bad, with_cl=True)
