"""C06 -- Field arithmetic and contractions follow array semantics with volumes.

Runs the public Field / MultiField arithmetic, comparison and contraction
methods on generated domain tuples and compares with plain NumPy on the raw
arrays, using pixel volumes that are computed from the domain *description*
(vf/domains_ref.py), not from NIFTy's dvol.  Operands on different domains
must be rejected.
"""
import numpy as np

from vf import domains_ref as R

META = dict(
    id="C06", level="exploration",
    title="Field arithmetic and contractions follow array semantics with volumes",
    technique="NumPy oracle with independently computed volume arrays on generated domain tuples",
    rule=("case = domain tuple of 1-3 sub-domains from {RG 1-2-D pos/harmonic random distances, HP(1), "
          "GL, LM, PowerSpace natural/custom, DOFSpace, Unstructured}, size<=60, dtype in "
          "{float64, complex128, int64}; on it: all binary operators (+ - * / // ** and reflected, "
          "6 comparisons) field-field and field-scalar, unary ops, vdot/s_vdot (full and partial), "
          "norm(ord), and for 3-6 random subsets of sub-domains (always incl. None, and the empty "
          "tuple / single int spellings) sum, prod, integrate, mean, var, std, weight(power), "
          "total_volume, scalar_weight and the s_* scalar variants; outer product; operands on an "
          "equal-but-differently-written domain (must work) and on 1-parameter-different domains "
          "(must raise); every 4th case is a MultiField case (1-3 keys: binary ops, s_vdot, norm, "
          "s_sum, unite/flexible_addsub on partially overlapping key sets, mismatches). "
          "non-trivial: >=2 sub-domains with a proper non-empty subset used, or a non-uniform-volume "
          "space, or complex dtype; distinct = distinct descriptor"),
    assumptions=["an UnstructuredDomain has no volume: volume-dependent methods are only called on "
                 "subsets without unstructured sub-domains",
                 "integer fields: exact array semantics for arithmetic/sum/prod/comparisons; volume "
                 "weighting of integer fields is expected to promote to float like NumPy does",
                 "pow/division operands are generated away from 0 / negative bases so that the NumPy "
                 "reference itself is finite",
                 "CPU only"],
    need=["binary_ops", "comparisons", "contractions", "partial_contractions", "weights", "vdots",
          "norms", "mismatch_rejections", "equal_description_operands", "multifield_ops",
          "multifield_unite", "scalar_variants"],
    quick=dict(cases=3000, workers=4, budget_s=60),
    thorough=dict(cases=40000, workers=16, budget_s=600),
    design_ref="DESIGN.md §5 C06",
    level_text=("generated (domain tuple, dtype, operation, subset) combinations against a NumPy oracle; "
                "exploration, not exhaustive"),
    level_note=("trusts NumPy reductions as the meaning of 'array semantics'; volumes come from "
                "closed forms of the description (checked against NIFTy's dvol in C08)"),
)

KINDS = ("RG", "RG", "RG", "U", "HP", "GL", "LM", "PS", "DOF")
TOL = 1e-9


def init(ck):
    import nifty.cl as ift
    ck.state["ift"] = ift


def gen_vals(rng, shape, dt, positive=False, nonzero=False):
    if dt == "i":
        a = rng.integers(-5, 6, shape).astype(np.int64)
        if positive:
            a = np.abs(a) + 1
        elif nonzero:
            a[a == 0] = 3
        return a
    a = rng.standard_normal(shape)
    if positive:
        a = np.abs(a) + 0.3
    elif nonzero:
        a = a + np.sign(a) * 0.2
    if dt == "c":
        b = rng.standard_normal(shape)
        a = a + 1j * (b if not positive else 0.25 * b)
    return np.asarray(a)


def viol(ck, key, what, **w):
    ck.violation(key, what, **w)


def cmp_field(ck, ift, res, exp, exp_dom, key, what, ref=0.0, exact=False, **w):
    """result Field vs expected ndarray (+ domain identity)"""
    if not isinstance(res, ift.Field):
        viol(ck, key + ":type", what + " (result is not a Field)", got=type(res).__name__, **w)
        return False
    if exp_dom is not None and res.domain is not exp_dom:
        viol(ck, key + ":domain", what + " (result lives on the wrong domain)",
             got=str(res.domain), exp=str(exp_dom), **w)
        return False
    got = res.asnumpy()
    exp = np.asarray(exp)
    if exact:
        ok = got.shape == exp.shape and got.dtype == exp.dtype and np.array_equal(got, exp, equal_nan=True)
    else:
        # (value comparison only: e.g. ducc's vdot returns a float when the imaginary part is 0)
        ok = got.shape == exp.shape and R.close(got, exp, ref=ref, rtol=TOL)
    if not ok:
        viol(ck, key, what, got=R.small(got), exp=R.small(exp), dev=R.dev(got, exp),
             dtypes=[str(got.dtype), str(exp.dtype)], **w)
    return ok


def cmp_scalar(ck, got, exp, key, what, ref=0.0, **w):
    ok = np.ndim(got) == 0 and R.close(got, exp, ref=ref, rtol=TOL)
    if ok and np.iscomplexobj(np.asarray(exp)) and not np.iscomplexobj(np.asarray(got)) \
            and abs(np.asarray(exp).imag) > 0:
        ok = False
    if not ok:
        viol(ck, key, what, got=R.small(got), exp=R.small(exp), **w)
    return ok


BIN = [("__add__", lambda a, b: a + b), ("__sub__", lambda a, b: a - b),
       ("__mul__", lambda a, b: a * b), ("__truediv__", lambda a, b: a / b),
       ("__floordiv__", lambda a, b: a // b), ("__pow__", lambda a, b: a ** b)]
CMP = [("__lt__", lambda a, b: a < b), ("__le__", lambda a, b: a <= b),
       ("__gt__", lambda a, b: a > b), ("__ge__", lambda a, b: a >= b),
       ("__eq__", lambda a, b: a == b), ("__ne__", lambda a, b: a != b)]


def subsets(rng, n):
    """list of (spelling passed to NIFTy, tuple of indices)"""
    out = [(None, tuple(range(n))), ((), ())]
    allsub = []
    for m in range(1, 2 ** n):
        allsub.append(tuple(j for j in range(n) if m >> j & 1))
    for s in allsub:
        if len(s) == 1 and rng.integers(0, 2):
            out.append((int(s[0]), s))
        else:
            s2 = tuple(int(x) for x in (rng.permutation(s) if rng.integers(0, 2) else s))
            out.append((s2 if rng.integers(0, 2) else list(s2), s))
    return out


def axes_of(ds, spaces):
    ax = R.tuple_axes(ds)
    return tuple(a for s in sorted(spaces) for a in ax[s])


def remaining_domain(ift, dom, spaces):
    return ift.DomainTuple.make(tuple(d for j, d in enumerate(dom) if j not in spaces))


def different_desc(rng, ds):
    """same shape where possible, different description in exactly one sub-domain"""
    import copy
    ds2 = copy.deepcopy(ds)
    j = int(rng.integers(0, len(ds)))
    d = ds2[j]
    t = d["t"]
    if t == "RG":
        if rng.integers(0, 2):
            dist = R.rg_distances(d)
            dist[0] *= 2.0
            d["dist"] = dist
            return ds2, "RG-distances"
        if d["dist"] is None:
            d["harmonic"] = not d["harmonic"]
        else:
            d["dist"] = [1.0 / (n * x) for n, x in zip(d["shape"], R.rg_distances(d))]
            d["harmonic"] = not d["harmonic"]
        return ds2, "RG-harmonic-flag"
    if t == "U":
        ds2[j] = dict(t="RG", shape=list(d["shape"]), dist=None, harmonic=False)
        return ds2, "U-vs-RG"
    # replace any other space by an unstructured one of the same shape
    ds2[j] = dict(t="U", shape=list(R.desc_shape(d)))
    return ds2, t + "-vs-U"


# ---------------------------------------------------------------- Field case ---
def field_case(ck, rng):
    ift = ck.state["ift"]
    ds = R.gen_tuple_desc(rng, nsp=(1, 2, 2, 3), maxsize=60, kinds=KINDS, maxn=5)
    route = int(rng.integers(0, 12))
    dom = R.build_tuple(ds, route)
    shape = R.tuple_shape(ds)
    dt = "fci"[int(rng.integers(0, 3))] if rng.integers(0, 4) else "f"
    dt2 = dt if rng.integers(0, 3) else "fci"[int(rng.integers(0, 3))]
    a = gen_vals(rng, shape, dt)
    b = gen_vals(rng, shape, dt2, nonzero=True)
    fa = ift.makeField(dom, a.copy())
    fb = ift.Field.from_raw(dom, b.copy())
    if dom.shape != shape:
        viol(ck, "domain-shape", "DomainTuple.shape differs from the concatenated sub-domain shapes",
             got=dom.shape, exp=shape)
        return ds, dt, False
    nonuniform = any(d["t"] in ("GL", "PS", "DOF") for d in ds)
    n = len(ds)

    # ---- binary operators ------------------------------------------------
    sc = [2, -3, 0.5, 1.5 - 0.5j, np.float64(-1.25), np.int64(4)][int(rng.integers(0, 6))]
    for name, fn in BIN:
        ck.hit("binary_ops", 3)
        x, y = a, b
        fx, fy = fa, fb
        s = sc
        if name == "__pow__":
            # finite reference: positive base, small exponents
            x = gen_vals(rng, shape, dt, positive=True)
            fx = ift.makeField(dom, x.copy())
            y = np.asarray(rng.integers(0, 4, shape), dtype=np.int64 if dt2 == "i" else np.float64)
            fy = ift.makeField(dom, y.copy())
            s = [2, 3, 0.5, 2.0][int(rng.integers(0, 4))]
            if dt == "i" and not isinstance(s, int):
                s = 2
        if name == "__floordiv__":
            if np.iscomplexobj(x) or np.iscomplexobj(y):
                # NumPy rejects floor division of complex numbers: so must the Field
                try:
                    getattr(fx, name)(fy)
                    viol(ck, "binary:floordiv-complex-accepted", "complex floor division returned a result")
                except TypeError:
                    pass
                continue
            if isinstance(s, complex):
                s = 2
        # bit-identical to NumPy except for ** (NumPy's scalar-exponent fast paths, e.g.
        # sqrt for 0.5, may differ from the power ufunc in the last bit)
        ex = name != "__pow__"
        with np.errstate(all="ignore"):
            exp = fn(x, y)
            cmp_field(ck, ift, getattr(fx, name)(fy), exp, dom, f"binary:{name}:field-field",
                      f"Field {name} Field differs from the array result", exact=ex, dtypes_in=[dt, dt2])
            if not (name == "__truediv__" and s == 0):
                exp = fn(x, s)
                cmp_field(ck, ift, getattr(fx, name)(s), exp, dom, f"binary:{name}:field-scalar",
                          f"Field {name} scalar differs from the array result", exact=ex, scalar=repr(s))
            rname = "__r" + name[2:]
            base = s
            if name == "__pow__":
                base = [2, 0.5, 3.0][int(rng.integers(0, 3))]
                xx = y
                fxx = fy
            elif name in ("__truediv__", "__floordiv__"):
                xx, fxx = y, fy       # nonzero divisor
            else:
                xx, fxx = x, fx
            if name == "__floordiv__" and (isinstance(base, complex) or np.iscomplexobj(xx)):
                continue
            exp = fn(base, xx)
            cmp_field(ck, ift, getattr(fxx, rname)(base), exp, dom, f"binary:{rname}:scalar-field",
                      f"scalar {name} Field (reflected) differs from the array result", exact=ex,
                      scalar=repr(base))
    if not (dt == "c" or dt2 == "c"):
        for name, fn in CMP:
            ck.hit("comparisons", 2)
            cmp_field(ck, ift, getattr(fa, name)(fb), fn(a, b), dom, f"compare:{name}:field-field",
                      "Field comparison differs from the array comparison", exact=True)
            s = float(a.reshape(-1)[0]) if a.size else 0.
            cmp_field(ck, ift, getattr(fa, name)(s), fn(a, s), dom, f"compare:{name}:field-scalar",
                      "Field-scalar comparison differs from the array comparison", exact=True)
    else:
        for name, fn in CMP[4:]:
            ck.hit("comparisons")
            cmp_field(ck, ift, getattr(fa, name)(fb), fn(a, b), dom, f"compare:{name}:field-field",
                      "Field comparison differs from the array comparison", exact=True)
    # unary
    ck.hit("binary_ops", 4)
    cmp_field(ck, ift, -fa, -a, dom, "unary:neg", "-Field differs", exact=True)
    cmp_field(ck, ift, abs(fa), np.abs(a), dom, "unary:abs", "abs(Field) differs", exact=True)
    cmp_field(ck, ift, fa.conjugate(), np.conjugate(a), dom, "unary:conjugate", "conjugate differs", exact=True)
    cmp_field(ck, ift, fa.real, a.real, dom, "unary:real", "real part differs", exact=True)
    if dt == "c":
        cmp_field(ck, ift, fa.imag, a.imag, dom, "unary:imag", "imaginary part differs", exact=True)
    for op in ("__iadd__", "__imul__"):
        try:
            getattr(fa, op)(fb)
            viol(ck, "inplace-accepted", "an in-place operator on a Field did not raise", op=op)
        except TypeError:
            pass

    # ---- vdot / norm --------------------------------------------------------
    ck.hit("vdots", 3)
    full = np.sum(np.conjugate(a) * b)
    ref = np.sum(np.abs(a) * np.abs(b))
    cmp_scalar(ck, fa.s_vdot(fb), full, "vdot:s_vdot", "s_vdot is not sum(conj(a)*b)", ref=ref,
               in_dtypes=[dt, dt2])
    cmp_field(ck, ift, fa.vdot(fb), full, ift.DomainTuple.scalar_domain(), "vdot:full",
              "vdot is not sum(conj(a)*b)", ref=ref, in_dtypes=[dt, dt2])
    cmp_scalar(ck, fb.s_vdot(fa), np.conjugate(full), "vdot:s_vdot-swapped",
               "s_vdot(b,a) is not conj(s_vdot(a,b))", ref=ref)
    for o in (1, 2, 3, np.inf):
        ck.hit("norms")
        av = np.abs(a.reshape(-1)).astype(np.float64)
        exp = (av.max() if av.size else 0.) if o == np.inf else (av ** o).sum() ** (1. / o)
        cmp_scalar(ck, fa.norm(o), exp, "norm:ord", "Field.norm(ord) is not the vector ord-norm", ord=repr(o))
    cmp_scalar(ck, fa.norm(), np.sqrt((np.abs(a.reshape(-1)).astype(np.float64) ** 2).sum()), "norm:default",
               "Field.norm() is not the 2-norm")

    # ---- contractions over subsets -------------------------------------------
    subs = subsets(rng, n)
    keep = [subs[0], subs[1]]
    rest = subs[2:]
    for j in rng.permutation(len(rest))[:int(rng.integers(2, 5))]:
        keep.append(rest[int(j)])
    proper_used = False
    for spelled, sp in keep:
        axes = axes_of(ds, sp)
        rdom = remaining_domain(ift, dom, sp)
        part = 0 < len(sp) < n
        proper_used |= part
        ck.hit("partial_contractions" if part else "contractions")
        tag = "partial" if part else ("none" if len(sp) == 0 else "full")
        w = dict(spaces=repr(spelled), ds=[d["t"] for d in ds], dtype=dt)
        # volume-free ones
        cmp_field(ck, ift, fa.sum(spelled), a.sum(axis=axes), rdom, f"sum:{tag}",
                  "Field.sum(spaces) differs from the array sum over the axes of these spaces",
                  ref=np.abs(a).sum(axis=axes), **w)
        cmp_field(ck, ift, fa.prod(spelled), a.prod(axis=axes), rdom, f"prod:{tag}",
                  "Field.prod(spaces) differs from the array product", **w)
        if len(sp) > 0:
            ck.hit("vdots")
            cmp_field(ck, ift, fa.vdot(fb, spaces=spelled), (np.conjugate(a) * b).sum(axis=axes), rdom,
                      f"vdot:{tag}", "partial vdot is not sum(conj(a)*b) over the chosen spaces",
                      ref=(np.abs(a) * np.abs(b)).sum(axis=axes), **w)
        vol = R.volume_array(ds, sp)
        if vol is None:
            continue
        ck.hit("weights")
        V = float(np.prod([np.sum(R.desc_dvol_array(ds[s])) for s in sp])) if len(sp) else 1.0
        cmp_scalar(ck, dom.total_volume(spelled), V, f"total_volume:{tag}",
                   "total_volume(spaces) is not the product of the sub-domain volumes", **w)
        sw = dom.scalar_weight(spelled)
        uni = all(np.isscalar(R.desc_dvol(ds[s])) for s in sp)
        if uni:
            exp_sw = float(np.prod([R.desc_dvol(ds[s]) for s in sp])) if len(sp) else 1.0
            if sw is None or not R.close(sw, exp_sw, rtol=TOL):
                viol(ck, f"scalar_weight:{tag}", "scalar_weight(spaces) is not the product of the uniform "
                     "pixel volumes", got=sw, exp=exp_sw, **w)
        elif sw is not None:
            viol(ck, f"scalar_weight:{tag}", "scalar_weight reports a uniform volume for a non-uniform space",
                 got=sw, **w)
        intkey = ":int-field-nonuniform-volume" if (dt == "i" and not uni) else ""
        try:
            power = [1, 2, -1, 3, 0.5, -2][int(rng.integers(0, 6))]
            if dt == "i" and power in (0.5, -1, -2):
                power = 2
            cmp_field(ck, ift, fa.weight(power, spelled), a * vol ** power, dom, f"weight:{tag}",
                      "weight(power, spaces) is not x * dvol**power", power=power, **w)
            cmp_field(ck, ift, fa.integrate(spelled), (a * vol).sum(axis=axes), rdom, f"integrate:{tag}",
                      "integrate(spaces) is not sum(x * dvol)", ref=(np.abs(a) * vol).sum(axis=axes), **w)
            mean = (a * vol).sum(axis=axes) / V
            cmp_field(ck, ift, fa.mean(spelled), mean, rdom, f"mean:{tag}",
                      "mean(spaces) is not integrate/total_volume", ref=(np.abs(a) * vol).sum(axis=axes) / V, **w)
            mb = np.expand_dims(mean, axes) if len(axes) else mean
            var = (np.abs(a - mb) ** 2 * vol).sum(axis=axes) / V
            vref = (np.abs(a) ** 2 * vol).sum(axis=axes) / V
            cmp_field(ck, ift, fa.var(spelled), var, rdom, f"var:{tag}",
                      "var(spaces) is not the volume-weighted mean of |x-mean|^2", ref=vref, **w)
            cmp_field(ck, ift, fa.std(spelled), np.sqrt(var), rdom, f"std:{tag}",
                      "std(spaces) is not sqrt(var)", ref=np.sqrt(np.max(vref, initial=0.)), **w)
        except TypeError as e:      # numpy's UFuncTypeError is a TypeError
            if not intkey:
                raise
            viol(ck, "volume-ops" + intkey, "volume weighting of an integer field on a space with "
                 "non-uniform pixel volumes raises instead of promoting to float", err=str(e)[:200], **w)
    # ---- scalar variants (whole domain) ---------------------------------------
    ck.hit("scalar_variants")
    cmp_scalar(ck, fa.s_sum(), a.sum(), "s_sum", "s_sum differs from the array sum", ref=np.abs(a).sum())
    cmp_scalar(ck, fa.s_prod(), a.prod(), "s_prod", "s_prod differs from the array product")
    vol = R.volume_array(ds, tuple(range(n)))
    if vol is not None:
        uni = all(np.isscalar(R.desc_dvol(d)) for d in ds)
        try:
            V = vol.sum()
            integ = (a * vol).sum()
            iref = (np.abs(a) * vol).sum()
            cmp_scalar(ck, fa.s_integrate(), integ, "s_integrate", "s_integrate is not sum(x*dvol)", ref=iref)
            cmp_scalar(ck, fa.s_mean(), integ / V, "s_mean", "s_mean is not integral/volume", ref=iref / V)
            var = (np.abs(a - integ / V) ** 2 * vol).sum() / V
            vref = (np.abs(a) ** 2 * vol).sum() / V
            cmp_scalar(ck, fa.s_var(), var, "s_var", "s_var is not the weighted variance", ref=vref)
            cmp_scalar(ck, fa.s_std(), np.sqrt(var), "s_std", "s_std is not sqrt(s_var)", ref=np.sqrt(vref))
            cmp_scalar(ck, fa.total_volume(), V, "total_volume:field", "Field.total_volume differs")
        except TypeError as e:
            if not (dt == "i" and not uni):
                raise
            viol(ck, "volume-ops:int-field-nonuniform-volume", "volume weighting of an integer field on a "
                 "space with non-uniform pixel volumes raises instead of promoting to float", err=str(e)[:200])
    if dt != "c":
        if bool(fa.s_all()) != bool(a.all()) or bool(fa.s_any()) != bool(a.any()):
            viol(ck, "s_all-s_any", "s_all / s_any differ from the array result")

    # ---- outer product ---------------------------------------------------------
    ds_o = R.gen_tuple_desc(rng, nsp=(1,), maxsize=6, kinds=("RG", "U", "LM"), maxn=3, maxdim=1)
    dom_o = R.build_tuple(ds_o, 0)
    c = gen_vals(rng, R.tuple_shape(ds_o), "f")
    fo = fa.outer(ift.makeField(dom_o, c))
    ck.hit("binary_ops")
    cmp_field(ck, ift, fo, np.multiply.outer(a, c), ift.DomainTuple.make(tuple(dom) + tuple(dom_o)),
              "outer", "outer product differs from numpy.multiply.outer on the product domain", exact=False)

    # ---- operands on equal-but-differently-written domains -----------------------
    dom2 = R.build_tuple(ds, route + 1 + int(rng.integers(0, 11)))
    fb2 = ift.makeField(dom2, b.copy())
    ck.hit("equal_description_operands")
    try:
        r = fa + fb2
        cmp_field(ck, ift, r, a + b, dom, "equal-description:add", "sum of fields on equal descriptions wrong",
                  exact=True)
        fa.s_vdot(fb2)
    except ValueError as e:
        viol(ck, "equal-description:rejected", "operands whose domains have equal descriptions are rejected",
             err=str(e)[:200], ds=ds)
    # ---- mismatching domains must be rejected -------------------------------------
    ds3, how = different_desc(rng, ds)
    try:
        dom3 = R.build_tuple(ds3, int(rng.integers(0, 12)))
    except Exception:
        dom3 = None
    if dom3 is not None and dom3.shape == shape:
        fb3 = ift.makeField(dom3, b.copy())
        calls = [("__add__", lambda: fa + fb3), ("__mul__", lambda: fa * fb3), ("__sub__", lambda: fb3 - fa),
                 ("__lt__", lambda: fa < fb3) if dt != "c" and dt2 != "c" else ("__eq__", lambda: fa == fb3),
                 ("vdot", lambda: fa.vdot(fb3)), ("s_vdot", lambda: fb3.s_vdot(fa)),
                 ("vdot-partial", lambda: fa.vdot(fb3, spaces=0)), ("__truediv__", lambda: fa / fb3),
                 ("__pow__", lambda: fa ** fb3), ("unite", lambda: fa.unite(fb3)),
                 ("flexible_addsub", lambda: fa.flexible_addsub(fb3, True))]
        for nm, fn in calls:
            ck.hit("mismatch_rejections")
            try:
                with np.errstate(all="ignore"):
                    r = fn()
            except (ValueError, TypeError):
                continue
            viol(ck, f"mismatch-accepted:{nm}", "an operation on fields with different domains returned "
                 "a result instead of raising", how=how, ds=[d["t"] for d in ds])
    # shape-incompatible partner
    ds4 = R.gen_tuple_desc(rng, nsp=(1,), maxsize=7, kinds=("RG", "U"), maxn=7, maxdim=1)
    if R.tuple_shape(ds4) != shape:
        f4 = ift.full(R.build_tuple(ds4, 0), 1.)
        for nm, fn in [("__add__", lambda: fa + f4), ("s_vdot", lambda: fa.s_vdot(f4))]:
            ck.hit("mismatch_rejections")
            try:
                fn()
            except (ValueError, TypeError):
                continue
            viol(ck, f"mismatch-accepted:{nm}", "an operation on fields with different domains returned "
                 "a result instead of raising", how="other-shape")
    nt = (n >= 2 and proper_used) or nonuniform or dt == "c"
    ck.note(dict(kind="field", ds=ds, route=route, dtype=[dt, dt2],
                 spaces=[repr(s) for s, _ in keep]), nontrivial=nt,
            klass="F:" + "x".join(d["t"] for d in ds))


# ----------------------------------------------------------- MultiField case ---
def mf_case(ck, rng):
    ift = ck.state["ift"]
    nk = int(rng.integers(1, 4))
    allkeys = ["a", "b", "c", "d", "e"]
    keys = [allkeys[int(j)] for j in rng.permutation(5)[:nk]]
    dss = {k: R.gen_tuple_desc(rng, nsp=(1, 1, 2), maxsize=16, kinds=KINDS, maxn=4) for k in keys}
    doms = {k: R.build_tuple(dss[k], int(rng.integers(0, 12))) for k in keys}
    dt = "fc"[int(rng.integers(0, 2))] if rng.integers(0, 3) == 0 else "f"
    A = {k: gen_vals(rng, R.tuple_shape(dss[k]), dt) for k in keys}
    B = {k: gen_vals(rng, R.tuple_shape(dss[k]), "f", nonzero=True) for k in keys}
    mdom = ift.MultiDomain.make(doms)
    mA = ift.MultiField.from_dict({k: ift.makeField(doms[k], A[k].copy()) for k in keys})
    mB = ift.MultiField.from_raw(mdom, {k: B[k].copy() for k in keys})
    if mA.domain is not mdom:
        viol(ck, "mf:from_dict-domain", "MultiField.from_dict lives on a different MultiDomain object")
    skeys = sorted(keys)

    def cmp_mf(res, exp, key, what, exact=True, edom=mdom, **w):
        if not isinstance(res, ift.MultiField):
            viol(ck, key + ":type", what + " (not a MultiField)", got=type(res).__name__)
            return
        if res.domain is not edom:
            viol(ck, key + ":domain", what + " (wrong MultiDomain)", got=str(res.domain))
            return
        for k in edom.keys():
            cmp_field(ck, ift, res[k], exp[k], edom[k], key, what, exact=exact, mfkey=k, **w)

    for name, fn in BIN[:4] + CMP[4:]:
        ck.hit("multifield_ops", 2)
        with np.errstate(all="ignore"):
            cmp_mf(getattr(mA, name)(mB), {k: fn(A[k], B[k]) for k in keys}, f"mf:binary:{name}",
                   f"MultiField {name} MultiField differs from the per-key array result")
            cmp_mf(getattr(mA, name)(2.5), {k: fn(A[k], 2.5) for k in keys}, f"mf:binary:{name}:scalar",
                   f"MultiField {name} scalar differs")
    cmp_mf(2.0 - mA, {k: 2.0 - A[k] for k in keys}, "mf:binary:__rsub__", "scalar - MultiField differs")
    cmp_mf(-mA, {k: -A[k] for k in keys}, "mf:neg", "-MultiField differs")
    cmp_mf(mA.conjugate(), {k: np.conjugate(A[k]) for k in keys}, "mf:conjugate", "conjugate differs")
    cmp_mf(abs(mA), {k: np.abs(A[k]) for k in keys}, "mf:abs", "abs differs")
    flatA = np.concatenate([A[k].reshape(-1) for k in skeys])
    flatB = np.concatenate([B[k].reshape(-1) for k in skeys])
    ck.hit("vdots", 2)
    full = np.sum(np.conjugate(flatA) * flatB)
    ref = np.sum(np.abs(flatA) * np.abs(flatB))
    cmp_scalar(ck, mA.s_vdot(mB), full, "mf:s_vdot", "MultiField.s_vdot is not sum over keys of "
               "sum(conj(a)*b)", ref=ref)
    cmp_field(ck, ift, mA.vdot(mB), full, ift.DomainTuple.scalar_domain(), "mf:vdot",
              "MultiField.vdot differs", ref=ref)
    cmp_scalar(ck, mB.s_vdot(mA), np.conjugate(full), "mf:s_vdot-swapped", "s_vdot(b,a) != conj(s_vdot(a,b))",
               ref=ref)
    for o in (1, 2, 3, np.inf):
        ck.hit("norms")
        av = np.abs(flatA)
        exp = av.max() if o == np.inf else (av ** o).sum() ** (1. / o)
        cmp_scalar(ck, mA.norm(o), exp, "mf:norm", "MultiField.norm(ord) is not the ord-norm of all entries",
                   ord=repr(o), nkeys=nk)
    cmp_scalar(ck, mA.s_sum(), flatA.sum(), "mf:s_sum", "MultiField.s_sum differs", ref=np.abs(flatA).sum())
    if mA.size != flatA.size:
        viol(ck, "mf:size", "MultiField.size differs", got=mA.size, exp=flatA.size)
    # ---- unite / flexible_addsub on partially overlapping key sets ---------------
    nk2 = int(rng.integers(1, 4))
    keys2 = [allkeys[int(j)] for j in rng.permutation(5)[:nk2]]
    dss2 = {k: (dss[k] if k in dss else R.gen_tuple_desc(rng, nsp=(1,), maxsize=8, kinds=("RG", "U", "LM"),
                                                          maxn=4)) for k in keys2}
    doms2 = {k: R.build_tuple(dss2[k], int(rng.integers(0, 12))) for k in keys2}
    C = {k: gen_vals(rng, R.tuple_shape(dss2[k]), "f") for k in keys2}
    mC = ift.MultiField.from_dict({k: ift.makeField(doms2[k], C[k].copy()) for k in keys2})
    ukeys = sorted(set(keys) | set(keys2))
    udom = ift.MultiDomain.make({k: (doms[k] if k in doms else doms2[k]) for k in ukeys})
    for neg in (False, True):
        ck.hit("multifield_unite")
        sgn = -1. if neg else 1.
        exp = {}
        for k in ukeys:
            if k in A and k in C:
                exp[k] = A[k] + sgn * C[k]
            elif k in A:
                exp[k] = A[k]
            else:
                exp[k] = sgn * C[k]
        res = mA.flexible_addsub(mC, neg)
        cmp_mf(res, exp, "mf:flexible_addsub", "flexible_addsub is not the union with zero fill "
               "(sum / difference on common keys)", exact=False, edom=udom, neg=neg,
               keys=[skeys, sorted(keys2)])
    cmp_mf(mA.unite(mC), {k: (A[k] if k in A else 0) + (C[k] if k in C else 0) for k in ukeys},
           "mf:unite", "unite is not the key-wise sum with zero fill", exact=False, edom=udom)
    if set(keys2) != set(keys):
        for nm, fn in [("__add__", lambda: mA + mC), ("s_vdot", lambda: mA.s_vdot(mC)),
                       ("__mul__", lambda: mC * mA)]:
            ck.hit("mismatch_rejections")
            try:
                fn()
            except (ValueError, TypeError):
                continue
            viol(ck, f"mf:mismatch-accepted:{nm}", "MultiFields with different key sets were combined "
                 "without an error", keys=[skeys, sorted(keys2)])
    # same keys, one sub-domain different
    k0 = keys[0]
    ds3, how = different_desc(rng, dss[k0])
    try:
        d3 = R.build_tuple(ds3, 0)
    except Exception:
        d3 = None
    if d3 is not None and d3.shape == doms[k0].shape:
        dd = dict(doms)
        dd[k0] = d3
        mD = ift.MultiField.from_dict({k: ift.makeField(dd[k], B[k].copy()) for k in keys})
        for nm, fn in [("__add__", lambda: mA + mD), ("s_vdot", lambda: mA.s_vdot(mD)),
                       ("unite", lambda: mA.unite(mD)), ("flexible_addsub", lambda: mD.flexible_addsub(mA, True))]:
            ck.hit("mismatch_rejections")
            try:
                fn()
            except (ValueError, TypeError):
                continue
            viol(ck, f"mf:mismatch-accepted:{nm}", "MultiFields whose sub-domains differ were combined "
                 "without an error", how=how)
    nonuni = any(d["t"] in ("GL", "PS", "DOF") for k in keys for d in dss[k])
    ck.note(dict(kind="multifield", dss=dss, keys2=sorted(keys2), dtype=dt),
            nontrivial=(nk >= 2 or dt == "c" or nonuni), klass="MF%d" % nk)


def case(ck, i):
    rng = ck.rng()
    import warnings
    with warnings.catch_warnings():
        warnings.simplefilter("ignore")
        if i % 4 == 3:
            mf_case(ck, rng)
        else:
            field_case(ck, rng)
