"""C07 — Fields are immutable once constructed.

Monitor: a *shadow digest* of every field constructed in a generated history
(sha1 of dtype/shape/bytes) which is re-computed after every write attempt
through any handle (source array, .val, .raw, .asnumpy(), views …).  The
digest of a field must never change; a write attempt may raise or may hit a
copy.  Derived operators (makeOp, Adder, GaussianEnergy) are evaluated before
and after the history and must give bit-identical results.
"""
import hashlib
import numpy as np

from vf.clgen import gen_domain_tuple, gen_array, fbytes

META = dict(
    id="C07", level="exploration",
    title="Fields are immutable once constructed",
    technique="shadow-digest monitor over generated construct/write histories",
    rule=("history = 2-6 field constructions through all public constructors, each followed by "
          "3-10 write attempts through randomly chosen handles (source ndarray incl. 0-d arrays and ndarray "
          "subclasses / source AnyArray, val, raw, "
          "asnumpy, val.val, views, reshapes, slices, real/imag, T, conjugate) with random "
          "in-place operations; after every attempt all live fields are re-hashed. "
          "non-trivial: >=2 constructions, >=1 write through a source array and >=1 through a "
          "derived handle; distinct = distinct history descriptor"),
    assumptions=["writes through a *base* array of a view that was passed in, and re-enabling "
                 "flags.writeable on a handle, are deliberate circumvention and not generated",
                 "CPU only (no cupy)"],
    need=["digest_audits", "write_attempts", "writes_via_source", "writes_via_derived",
          "derived_operator_checks"],
    quick=dict(cases=600, workers=4, budget_s=60),
    thorough=dict(cases=20000, workers=16, budget_s=600),
    design_ref="DESIGN.md §5 C07",
    level_text=("generated construct/write histories with a digest monitor on every live field; "
                "exploration of handles x in-place operations x constructors, not exhaustive"),
    level_note=("trusts numpy's writeable flag semantics and sha1; handles reachable only through "
                "private attributes other than those the class documents (raw, val) are not tried"),
)


def init(ck):
    import nifty.cl as ift
    ck.state["ift"] = ift


def digest(f):
    return hashlib.sha1(fbytes(f)).hexdigest()


# ------------------------------------------------------------ constructors ---
CTORS = ["Field_nd", "Field_any", "from_raw", "makeField", "full", "from_random", "cast_domain",
         "astype", "arith", "real", "imag", "conjugate", "mf_from_dict", "mf_from_raw", "scalar",
         "ptw", "makeField_dict", "Field_nd_F", "neg", "weight",
         "from_raw_0d", "makeField_0d", "Field_nd_0d", "Field_any_0d", "mf_from_raw_0d"]


class _SubArr(np.ndarray):
    """user-defined ndarray subclass (valid input: isinstance(x, np.ndarray))"""


def as_source_variant(rng, a):
    """the array a user passes in may be an ndarray subclass"""
    r = int(rng.integers(0, 6))
    if r == 0:
        return a.view(_SubArr), "subclass"
    if r == 1:
        return np.ma.masked_array(a), "masked"
    if r == 2 and a.ndim == 2:
        return np.asmatrix(a), "matrix"
    return a, "plain"


def construct(ift, rng, kind, fields):
    """returns (list of new Field objects, list of (name, source handle))"""
    dom, ddesc = gen_domain_tuple(rng, nsp=(1, 1, 2), maxsize=24,
                                  kinds=("RG", "RG", "U", "HP", "LM"))
    dt = "c" if rng.integers(0, 3) == 0 else "f"
    a = gen_array(rng, dom.shape, dt)
    src = []
    if kind.endswith("_0d"):
        sdom = ift.DomainTuple.scalar_domain()
        a0 = np.array(float(rng.standard_normal()))          # 0-d source array
        if kind == "from_raw_0d":
            f = ift.Field.from_raw(sdom, a0)
            src = [("src_nd", a0)]
        elif kind == "makeField_0d":
            f = ift.makeField(sdom, a0)
            src = [("src_nd", a0)]
        elif kind == "Field_nd_0d":
            f = ift.Field(sdom, a0)
            src = [("src_nd", a0)]
        elif kind == "Field_any_0d":
            aa = ift.AnyArray(a0)
            f = ift.Field.from_raw(sdom, aa)
            src = [("src_any", aa), ("src_nd", a0)]
        else:
            md = ift.MultiDomain.make({"a": sdom, "b": dom})
            f = ift.MultiField.from_raw(md, {"a": a0, "b": a})
            src = [("src_nd", a0), ("src_nd", a)]
        new = [f] + (list(f.values()) if isinstance(f, ift.MultiField) else [])
        return new, src
    if kind in ("Field_nd", "from_raw", "makeField", "Field_any"):
        a, variant = as_source_variant(rng, a)
    if kind == "Field_nd":
        f = ift.Field(dom, a)
        src = [("src_nd", a)]
    elif kind == "Field_nd_F":
        a = np.asfortranarray(a)
        f = ift.Field(dom, a)
        src = [("src_nd", a)]
    elif kind == "Field_any":
        aa = ift.AnyArray(a)
        f = ift.Field(dom, aa)
        src = [("src_any", aa), ("src_nd", a)]
    elif kind == "from_raw":
        f = ift.Field.from_raw(dom, a)
        src = [("src_nd", a)]
    elif kind == "makeField":
        f = ift.makeField(dom, a)
        src = [("src_nd", a)]
    elif kind == "full":
        f = ift.full(dom, float(rng.standard_normal()))
    elif kind == "from_random":
        f = ift.from_random(dom, "normal", dtype=np.complex128 if dt == "c" else np.float64)
    elif kind == "scalar":
        f = ift.Field.scalar(float(rng.standard_normal()))
    elif kind in ("cast_domain", "astype", "arith", "real", "imag", "conjugate", "ptw", "neg",
                  "weight"):
        cand = [g for g in fields if isinstance(g, ift.Field)]
        if not cand:
            f = ift.makeField(dom, a)
            src = [("src_nd", a)]
        else:
            g = cand[int(rng.integers(0, len(cand)))]
            if kind == "cast_domain":
                f = g.cast_domain(ift.UnstructuredDomain(g.shape))
            elif kind == "astype":
                f = g.astype(np.complex128)
            elif kind == "arith":
                f = g + g if rng.integers(0, 2) else g * 2.0
            elif kind == "real":
                f = g.real
            elif kind == "imag":
                f = g.imag if np.iscomplexobj(g.raw) else g.real
            elif kind == "conjugate":
                f = g.conjugate()
            elif kind == "ptw":
                f = g.ptw("exp")
            elif kind == "neg":
                f = -g
            else:
                try:
                    f = g.weight(1)
                except AttributeError:   # unstructured sub-domain: no volume
                    f = g.scale(2.0)
    elif kind in ("mf_from_dict", "mf_from_raw", "makeField_dict"):
        dom2, _ = gen_domain_tuple(rng, nsp=(1,), maxsize=12, kinds=("RG", "U"))
        b = gen_array(rng, dom2.shape, "f")
        if kind == "mf_from_dict":
            f = ift.MultiField.from_dict({"a": ift.makeField(dom, a), "b": ift.makeField(dom2, b)})
        elif kind == "mf_from_raw":
            md = ift.MultiDomain.make({"a": dom, "b": dom2})
            f = ift.MultiField.from_raw(md, {"a": a, "b": b})
        else:
            f = ift.makeField(ift.MultiDomain.make({"a": dom, "b": dom2}), {"a": a, "b": b})
        src = [("src_nd", a), ("src_nd", b)]
    else:
        raise ValueError(kind)
    if isinstance(f, ift.MultiField):
        new = [f] + list(f.values())
    else:
        new = [f]
    return new, src


# ---------------------------------------------------------------- handles ---
HANDLES = ["val", "raw", "asnumpy", "val.val", "val.view", "val.reshape", "val.slice", "val.real",
           "val.imag", "val.T", "val.conjugate", "val.flatten_reshape", "np.asarray(val.val)",
           "val_rw", "asnumpy_rw", "val.astype_nocopy", "val.at"]


def get_handle(ift, f, name):
    v = f.val
    if name == "val":
        return v
    if name == "raw":
        return f.raw
    if name == "asnumpy":
        return f.asnumpy()
    if name == "val.val":
        return v.val
    if name == "val.view":
        return v.view()
    if name == "val.reshape":
        return v.reshape(f.shape)
    if name == "val.slice":
        return v[...]
    if name == "val.real":
        return v.real
    if name == "val.imag":
        return v.imag
    if name == "val.T":
        return v.T
    if name == "val.conjugate":
        return v.conjugate()
    if name == "val.flatten_reshape":
        return v.reshape(-1)
    if name == "np.asarray(val.val)":
        return np.asarray(v.val)
    if name == "val_rw":
        return f.val_rw()
    if name == "asnumpy_rw":
        return f.asnumpy_rw()
    if name == "val.astype_nocopy":
        return v.astype(v.dtype, copy=False)
    if name == "val.at":
        return v.at(-1)
    raise ValueError(name)


ND_OPS = ["setitem", "iadd", "ufunc_out", "sort", "fill", "copyto", "flat", "put", "imul",
          "view_setitem", "reshape_setitem", "T_setitem", "real_setitem", "place", "isub",
          "partition", "clip_out", "byteswap"]
ANY_OPS = ["setitem", "setitem_scalar", "iadd", "imul", "ufunc_out", "val_setitem", "view_setitem",
           "reshape_setitem", "slice_setitem", "real_setitem", "T_setitem", "conj_setitem",
           "copyto", "val_fill", "isub"]


def write_nd(h, op, rng):
    v = float(rng.integers(2, 9)) + 0.5
    if op == "setitem":
        h[...] = v
    elif op == "iadd":
        h += 1.0
    elif op == "isub":
        h -= 1.0
    elif op == "imul":
        h *= 3.0
    elif op == "ufunc_out":
        np.add(h, 1.0, out=h)
    elif op == "sort":
        if h.ndim == 0 or np.iscomplexobj(h) and h.size == 0:
            h[...] = v
        else:
            h.sort(axis=0)
            h[...] = h[::-1].copy() + v
    elif op == "fill":
        h.fill(v)
    elif op == "copyto":
        np.copyto(h, v)
    elif op == "flat":
        h.flat[0] = v
    elif op == "put":
        h.put(0, v)
    elif op == "view_setitem":
        h.view()[...] = v
    elif op == "reshape_setitem":
        h.reshape(-1)[...] = v
    elif op == "T_setitem":
        h.T[...] = v
    elif op == "real_setitem":
        h.real[...] = v
    elif op == "place":
        np.place(h, np.ones(h.shape, dtype=bool), [v])
    elif op == "partition":
        if h.ndim == 0 or h.shape[0] < 1:
            h[...] = v
        else:
            h[...] = v
            h.partition(0, axis=0)
    elif op == "clip_out":
        np.clip(h.real if np.iscomplexobj(h) else h, v, v + 1,
                out=h.real if np.iscomplexobj(h) else h)
    elif op == "byteswap":
        h.byteswap(inplace=True)
    else:
        raise ValueError(op)


def write_any(ift, h, op, rng):
    v = float(rng.integers(2, 9)) + 0.5
    one = ift.AnyArray(np.full(h.shape, 1.0))
    if op == "setitem":
        h[...] = ift.AnyArray(np.full(h.shape, v, dtype=h.dtype))
    elif op == "setitem_scalar":
        h[...] = v
    elif op == "iadd":
        h += one
    elif op == "isub":
        h -= one
    elif op == "imul":
        h *= ift.AnyArray(np.full(h.shape, 3.0))
    elif op == "ufunc_out":
        np.add(h, one, out=h)
    elif op == "val_setitem":
        h.val[...] = v
    elif op == "view_setitem":
        h.view()[...] = v
    elif op == "reshape_setitem":
        h.reshape(h.shape)[...] = v
    elif op == "slice_setitem":
        h[...][...] = v
    elif op == "real_setitem":
        h.real[...] = v
    elif op == "T_setitem":
        h.T[...] = v
    elif op == "conj_setitem":
        h.conjugate()[...] = v
    elif op == "copyto":
        np.copyto(h.val, v)
    elif op == "val_fill":
        h.val.fill(v)
    else:
        raise ValueError(op)


def case(ck, i):
    ift = ck.state["ift"]
    rng = ck.rng()
    nctor = int(rng.integers(2, 7))
    fields, shadows, hist = [], [], []
    via_source = via_derived = 0
    derived = []  # (name, callable, expected bytes)

    def audit(step):
        ck.hit("digest_audits", len(fields))
        bad = []
        for (f, meta), d in zip(fields, shadows):
            if digest(f) != d:
                bad.append(meta)
        return bad

    reported = set()
    for c in range(nctor):
        kind = CTORS[int(rng.integers(0, len(CTORS)))]
        new, src = construct(ift, rng, kind, [f for f, _ in fields])
        for f in new:
            fields.append((f, kind))
            shadows.append(digest(f))
        hist.append(["ctor", kind])
        # derived operators built from the first new plain Field
        f0 = [f for f in new if isinstance(f, ift.Field)]
        if f0 and rng.integers(0, 2) == 0 and f0[0].size > 0:
            f0 = f0[0]
            try:
                if np.issubdtype(f0.dtype, np.floating):
                    ones = ift.full(f0.domain, 1.0)
                    op = ift.makeOp(f0)
                    ad = ift.Adder(f0)
                    en = ift.GaussianEnergy(data=f0)
                    fns = [("makeOp", lambda op=op, ones=ones: op(ones)),
                           ("Adder", lambda ad=ad, ones=ones: ad(ones)),
                           ("GaussianEnergy", lambda en=en, ones=ones: en(ones))]
                    for nm, fn in fns:
                        derived.append((nm, fn, fbytes(fn())))
            except Exception:
                pass
        nwr = int(rng.integers(3, 11))
        for _ in range(nwr):
            # pick a handle: source of this construction, or a derived handle of any live field
            use_src = bool(src) and rng.integers(0, 3) == 0
            try:
                if use_src:
                    hname, h = src[int(rng.integers(0, len(src)))]
                    tgt_kind = kind
                else:
                    cand = [(f, k) for f, k in fields if isinstance(f, ift.Field)]
                    f, tgt_kind = cand[int(rng.integers(0, len(cand)))]
                    hname = HANDLES[int(rng.integers(0, len(HANDLES)))]
                    h = get_handle(ift, f, hname)
            except Exception as e:
                hist.append(["handle_err", hname, type(e).__name__])
                continue
            if isinstance(h, np.ndarray):
                op = ND_OPS[int(rng.integers(0, len(ND_OPS)))]
                fn = lambda: write_nd(h, op, rng)
                hk = "ndarray"
            elif isinstance(h, ift.AnyArray):
                op = ANY_OPS[int(rng.integers(0, len(ANY_OPS)))]
                fn = lambda: write_any(ift, h, op, rng)
                hk = "AnyArray"
            else:   # scalar handle (0-d results)
                continue
            try:
                fn()
                outcome = "ok"
            except (ValueError, TypeError, RuntimeError, AttributeError, IndexError) as e:
                outcome = type(e).__name__
            ck.hit("write_attempts")
            if outcome != "ok":
                ck.hit("write_attempts_rejected")
            if use_src:
                via_source += 1
                ck.hit("writes_via_source")
            else:
                via_derived += 1
                ck.hit("writes_via_derived")
            hist.append(["write", hname, hk, op, outcome])
            bad = audit(len(hist))
            if bad:
                key = f"field-mutated:via={hname}"
                if key not in reported:
                    reported.add(key)
                    ck.violation(key, f"a field (constructed by {bad[0]}) changed its values after "
                                 f"{hk}.{op} through handle '{hname}' (outcome {outcome})",
                                 history=hist[-6:], target_ctor=tgt_kind)
                # re-baseline so that later steps are judged on their own
                shadows[:] = [digest(f) for f, _ in fields]
    for nm, fn, exp in derived:
        ck.hit("derived_operator_checks")
        try:
            now = fbytes(fn())
        except Exception as e:
            now = repr(e).encode()
        if now != exp:
            ck.violation(f"derived-operator-changed:{nm}",
                         f"{nm} built from a field changed its action after later writes",
                         history=hist[-6:])
    ck.note(dict(history=hist), nontrivial=(nctor >= 2 and via_source >= 1 and via_derived >= 1))
