"""C31 — Multi-grid index maps are consistent at every level.

Runs the real ``nifty.re.multi_grid`` grid classes on generated small grids and sweeps
**every** index of **every** level (whole-level batched calls plus a few unbatched calls).
Two independent oracles:

* a closed-form NumPy reference model of each grid family written from the documented
  semantics (regular nested refinement, padding, HEALPix NEST numbering via ducc0,
  logarithmic / broken-logarithmic radial maps, C-order / nested flat numbering, sparse
  array<->flat mappings), compared entry by entry;
* structural invariants that use NIFTy outputs only: parent(children(i)) == i, the children of
  the refined indices partition the next level, coord2index(index2coord(i)) == i, the centre
  of a child lies in its parent's cell (coarse coord2index of the fine coordinate == parent),
  flat<->multi index maps are inverse bijections onto range(size), neighbourhoods contain
  their centre, children volumes sum to the parent volume and never exceed it, level volumes
  never grow.
"""
import numpy as np

from vf.libhelp import nclose, pick, rfloat

META = dict(
    id="C31", level="exploration",
    title="Multi-grid index maps are consistent at every level",
    technique=("exhaustive per-level sweep of the live index maps against a closed-form NumPy/ducc0 "
               "reference model and structural invariants"),
    rule=("one case = one generated grid of a family in {Grid, OpenGrid, HEALPixGrid, SimpleOpenGrid, "
          "LogGrid, BrokenLogGrid, MGrid, HPLogRGrid, HPBrokenLogRGrid, FlatGrid(serial|nest), "
          "SparseGrid}; 1-3 axes per Cartesian part, shape0 1..4(+2*padding), splits 1..3 per axis and "
          "level (anisotropic), padding 0..2, depth 0..3, HEALPix nside0 1-2 with splits 4 (or 1/16); "
          "all indices of all levels are swept. non-trivial: depth >= 2 and (anisotropic splits or "
          "padding > 0 or product/flat/sparse grid); distinct = distinct grid descriptor"),
    assumptions=[
        "only in-range indices are queried (NIFTy's jax-style out-of-bounds clipping is not part of "
        "the property)",
        "open axes: neighbourhood entries that fall outside the grid are only required to be valid "
        "indices (the code wraps although it calls clip; reported as an observation, see level_note)",
        "HEALPix 3x3 neighbourhoods: the slot of a non-existent neighbour (8 pixels per level have "
        "only 7) is only required to hold a valid pixel index",
        "SparseGrid neighbourhood entries whose neighbour is not part of the mapping are unspecified",
        "SparseGrid over an OpenGrid cannot be constructed in the pinned tree (FlatGrid refuses nest "
        "ordering for open grids) and is therefore not generated",
    ],
    need=["levels_swept", "indices_swept", "ref_children", "ref_parent", "ref_coord", "ref_volume",
          "ref_neighborhood", "ref_refined", "inv_parent_of_children", "inv_partition",
          "inv_coord_roundtrip", "inv_child_in_parent_cell", "inv_volume", "flat_bijection",
          "unbatched_calls"],
    quick=dict(cases=120, workers=6, budget_s=60),
    thorough=dict(cases=1200, workers=16, budget_s=780),
    design_ref="DESIGN.md §5 C31",
    level_text=("every index of every level of ~150 (quick) generated grids from all grid families is "
                "swept; exhaustive per generated grid, exploration over grid configurations"),
    level_note=("trusts numpy and ducc0.healpix (independent HEALPix implementation) as reference; "
                "grid sizes <= ~6e3 (quick) / 5e4 (thorough) indices per level; window sizes 1-3 (HEALPix "
                "1, 9, all); OpenGrid neighbourhoods of padding pixels wrap periodically instead of "
                "clipping — counted in monitor 'open_nbh_outside_wrapped', not a violation because such "
                "neighbourhoods are never used by the refinement"),
)

STRICT_OPEN_CLIP = False   # True: treat wrapped out-of-range neighbours on open axes as violation


def init(ck):
    import jax
    jax.config.update("jax_enable_x64", True)
    from vf.libhelp import enable_jax_cache
    enable_jax_cache()
    import nifty.re  # noqa
    from nifty.re.multi_grid import grid as G, grid_impl as GI
    import ducc0
    ck.state.update(G=G, GI=GI, ducc0=ducc0)


# =========================================================================================
# reference model (NumPy only; HEALPix geometry from ducc0)
# =========================================================================================
def _bc(a, ndim_after):
    return a.reshape(a.shape + (1,) * ndim_after)


class Cart:
    """k Cartesian axes.  periodic: pad = 0 and neighbourhoods wrap; open: padding pixels are not
    refined.  Coordinates: x = (i + o_l + 1/2) * d_l with o_{l+1} = s_l (o_l + p_l), d_{l+1} = d_l/s_l
    (a child cell is the s-fold subdivision of its parent cell), anchored either at level 0
    (o_0 = 0, d_0 = 1/N_0: level 0 spans the unit cube) or at the final level (o_L = 0, d_L given:
    final level starts at 0 with the requested pixel distance)."""

    def __init__(self, periodic, N0, splits, pads, anchor="level0", dist=None, transform=None):
        self.periodic = periodic
        self.k = len(N0)
        self.cdim = self.k
        self.s = [np.array(s, dtype=np.int64) for s in splits]
        self.p = [np.array(p, dtype=np.int64) for p in pads]
        self.depth = len(self.s)
        self.N = [np.array(N0, dtype=np.int64)]
        for s, p in zip(self.s, self.p):
            self.N.append(s * (self.N[-1] - 2 * p))
        L = self.depth
        if anchor == "level0":
            o = [np.zeros(self.k)]
            d = [1.0 / self.N[0]]
            for s, p in zip(self.s, self.p):
                o.append(s * (o[-1] + p))
                d.append(d[-1] / s)
        else:
            dL = (1.0 / self.N[L]) if dist is None else np.broadcast_to(
                np.array(dist, dtype=float), (self.k,))
            o = [None] * (L + 1)
            d = [None] * (L + 1)
            o[L] = np.zeros(self.k)
            d[L] = np.array(dL, dtype=float)
            for l in range(L - 1, -1, -1):
                o[l] = o[l + 1] / self.s[l] - self.p[l]
                d[l] = d[l + 1] * self.s[l]
        self.o, self.d = o, d
        self.transform = transform

    def splits_shape(self, l):
        return tuple(int(x) for x in self.s[l])

    def refined(self, l, idx):
        p, N = self.p[l][:, None], self.N[l][:, None]
        return np.all((idx >= p) & (idx < N - p), axis=0)

    def children(self, l, idx):
        s, p = self.s[l], self.p[l]
        base = (idx - p[:, None]) * s[:, None]
        off = np.indices(tuple(s)).astype(np.int64)          # (k, *s)
        return _bc(base, self.k) + off[:, None]

    def parent(self, l, idx):
        return idx // self.s[l - 1][:, None] + self.p[l - 1][:, None]

    def coords(self, l, idx, shift=0.0):
        c = (idx + self.o[l][:, None] + 0.5 + shift) * self.d[l][:, None]
        return c if self.transform is None else self.transform(c)

    def volume(self, l, idx):
        if self.transform is None:
            return np.full(idx.shape[1], float(np.prod(self.d[l])))
        return np.prod(self.coords(l, idx, +0.5) - self.coords(l, idx, -0.5), axis=0)

    def nbh(self, l, idx, w):
        w = np.array(w, dtype=np.int64)
        off = np.indices(tuple(w)).astype(np.int64) - _bc(w // 2, self.k)
        raw = _bc(idx, self.k) + off[:, None]
        N = _bc(self.N[l][:, None], self.k)
        inside = (raw >= 0) & (raw < N)
        one = np.ones(raw.shape, bool)
        if self.periodic:
            return raw % N, one, ~one, one
        return np.clip(raw, 0, N - 1), inside, ~inside, one

    def window_shape(self, w):
        return tuple(int(x) for x in w)


class HP:
    """HEALPix sphere in NEST numbering; one index axis, 3 coordinate components."""
    k = 1
    cdim = 3
    periodic = True

    def __init__(self, ducc0, nside0, splits):
        self.ducc0 = ducc0
        self.s = [np.array([int(s)], dtype=np.int64) for s in splits]
        self.p = [np.zeros(1, dtype=np.int64) for _ in splits]
        self.depth = len(self.s)
        self.N = [np.array([12 * nside0 ** 2], dtype=np.int64)]
        for s in self.s:
            self.N.append(self.N[-1] * s)
        self._base = {}

    def base(self, l):
        if l not in self._base:
            nside = int(round((int(self.N[l][0]) / 12) ** 0.5))
            assert 12 * nside * nside == int(self.N[l][0])
            self._base[l] = self.ducc0.healpix.Healpix_Base(nside, "NEST")
        return self._base[l]

    def splits_shape(self, l):
        return (int(self.s[l][0]),)

    def refined(self, l, idx):
        return np.ones(idx.shape[1], bool)

    def children(self, l, idx):
        s = int(self.s[l][0])
        return (idx * s)[..., None] + np.arange(s, dtype=np.int64)

    def parent(self, l, idx):
        return idx // self.s[l - 1][:, None]

    def coords(self, l, idx, shift=0.0):
        return np.asarray(self.base(l).pix2vec(np.ascontiguousarray(idx[0]))).T

    def volume(self, l, idx):
        return np.full(idx.shape[1], 4 * np.pi / int(self.N[l][0]))

    def nbh(self, l, idx, w):
        w = int(w[0]) if not isinstance(w, (int, np.integer)) else int(w)
        N = int(self.N[l][0])
        if w == 1:
            r = idx[..., None]
            one = np.ones(r.shape, bool)
            return r, one, ~one, one
        if w == N:
            r = (idx[..., None] + np.arange(N, dtype=np.int64)) % N
            one = np.ones(r.shape, bool)
            return r, one, ~one, one
        assert w == 9
        nb = np.asarray(self.base(l).neighbors(np.ascontiguousarray(idx[0]))).astype(np.int64)
        r = np.concatenate([idx[0][:, None], nb], axis=1)[None]
        ok = r >= 0
        return np.where(ok, r, 0), ok, np.zeros(r.shape, bool), np.ones(r.shape, bool)

    def window_shape(self, w):
        return (int(w[0]),)


class Prod:
    """meshgrid product of parts; radial=True: (HEALPix, radial axis) with x = n * r."""

    def __init__(self, parts, radial=False):
        self.parts = parts
        self.radial = radial
        self.depth = parts[0].depth
        self.nd = sum(p.k for p in parts)
        off = np.cumsum([0] + [p.k for p in parts])
        self.sl = [slice(int(a), int(b)) for a, b in zip(off[:-1], off[1:])]
        self.flatlike = False

    def index_ndim(self):
        return self.nd

    def shape(self, l):
        return np.concatenate([p.N[l] for p in self.parts])

    def splits(self, l):
        return np.concatenate([p.s[l] for p in self.parts])

    def pads(self, l):
        return np.concatenate([p.p[l] for p in self.parts])

    def all_indices(self, l):
        shp = self.shape(l)
        return np.indices(tuple(int(x) for x in shp)).reshape(self.nd, -1).astype(np.int64)

    def refined(self, l, idx):
        m = np.ones(idx.shape[1], bool)
        for p, s in zip(self.parts, self.sl):
            m &= p.refined(l, idx[s])
        return m

    def _combine(self, pieces, trail):
        """pieces[j]: (k_j, n, *trail_j) -> (nd, n, *trail_0, *trail_1, ...)"""
        full = tuple(x for t in trail for x in t)
        out = []
        before = 0
        for pc, t in zip(pieces, trail):
            after = len(full) - before - len(t)
            a = pc.reshape(pc.shape[:2] + (1,) * before + tuple(t) + (1,) * after)
            out.append(np.broadcast_to(a, pc.shape[:2] + full))
            before += len(t)
        return np.concatenate(out, axis=0)

    def children(self, l, idx):
        return self._combine([p.children(l, idx[s]) for p, s in zip(self.parts, self.sl)],
                             [p.splits_shape(l) for p in self.parts])

    def parent(self, l, idx):
        return np.concatenate([p.parent(l, idx[s]) for p, s in zip(self.parts, self.sl)], axis=0)

    def coords(self, l, idx):
        cs = [p.coords(l, idx[s]) for p, s in zip(self.parts, self.sl)]
        if self.radial:
            return cs[0] * cs[1]
        return np.concatenate(cs, axis=0)

    def volume(self, l, idx):
        if self.radial:
            hp, r = self.parts
            ru = r.coords(l, idx[self.sl[1]], +0.5)[0]
            rl = r.coords(l, idx[self.sl[1]], -0.5)[0]
            return hp.volume(l, idx[self.sl[0]]) * (ru ** 3 - rl ** 3) / 3
        v = np.ones(idx.shape[1])
        for p, s in zip(self.parts, self.sl):
            v = v * p.volume(l, idx[s])
        return v

    def split_window(self, w):
        return [tuple(w[s]) for s in self.sl]

    def nbh(self, l, idx, w):
        ws = self.split_window(w)
        res = [p.nbh(l, idx[s], wj) for p, s, wj in zip(self.parts, self.sl, ws)]
        trail = [p.window_shape(wj) for p, wj in zip(self.parts, ws)]
        return tuple(self._combine([r[j] for r in res], trail) for j in range(4))

    def gen_window(self, rng, l):
        w = []
        for p in self.parts:
            if isinstance(p, HP):
                opts = [1, 9, 9]
                if int(p.N[l][0]) <= 48:
                    opts.append(int(p.N[l][0]))
                w.append(int(pick(rng, opts)))
            else:
                w.extend(int(x) for x in rng.integers(1, 4, p.k))
        return tuple(w)

    def any_open(self):
        return any(not p.periodic for p in self.parts)


class Flat:
    """single global integer index.  serial: C-order ravel of the level's shape.  nest: the
    children of one parent are contiguous: f_{l}(i) = f_{l-1}(parent(i)) * prod(s) + ravel(i - parent*s, s)"""

    def __init__(self, prod, ordering):
        self.prod = prod
        self.ordering = ordering
        self.depth = prod.depth
        self.flatlike = True

    def index_ndim(self):
        return 1

    def shape(self, l):
        return np.array([int(np.prod(self.prod.shape(l)))], dtype=np.int64)

    def splits(self, l):
        return np.array([int(np.prod(self.prod.splits(l)))], dtype=np.int64)

    def flat(self, l, idx):
        if self.ordering == "serial":
            return np.ravel_multi_index(tuple(idx), tuple(int(x) for x in self.prod.shape(l)))
        if l == 0:
            return np.ravel_multi_index(tuple(idx), tuple(int(x) for x in self.prod.shape(0)))
        s = self.prod.splits(l - 1)
        s_bc = s.reshape((-1,) + (1,) * (idx.ndim - 1))
        par = idx // s_bc
        rem = idx - par * s_bc
        return self.flat(l - 1, par) * int(np.prod(s)) + np.ravel_multi_index(
            tuple(rem), tuple(int(x) for x in s))

    def unflat(self, l, f):
        if self.ordering == "serial" or l == 0:
            return np.stack(np.unravel_index(f, tuple(int(x) for x in self.prod.shape(l))), 0
                            ).astype(np.int64)
        s = self.prod.splits(l - 1)
        q, r = np.divmod(f, int(np.prod(s)))
        rem = np.stack(np.unravel_index(r, tuple(int(x) for x in s)), 0).astype(np.int64)
        s_bc = s.reshape((-1,) + (1,) * (f.ndim))
        return self.unflat(l - 1, q) * s_bc + rem

    def all_indices(self, l):
        return np.arange(int(self.shape(l)[0]), dtype=np.int64)[None]

    def refined(self, l, idx):
        return self.prod.refined(l, self.unflat(l, idx[0]))

    def children(self, l, idx):
        ch = self.prod.children(l, self.unflat(l, idx[0]))
        ch = ch.reshape(ch.shape[:2] + (-1,))
        return self.flat(l + 1, ch)[None]

    def parent(self, l, idx):
        return self.flat(l - 1, self.prod.parent(l, self.unflat(l, idx[0])))[None]

    def coords(self, l, idx):
        return self.prod.coords(l, self.unflat(l, idx[0]))

    def volume(self, l, idx):
        return self.prod.volume(l, self.unflat(l, idx[0]))

    def nbh(self, l, idx, w):
        r, must, soft, inr = self.prod.nbh(l, self.unflat(l, idx[0]), w)
        n = r.shape[1]
        # a flat neighbour is mandatory if all its components are; "soft" (clip intended) if
        # no component is unspecified and at least one is soft
        spec = np.all(must | soft, axis=0)
        must_f = np.all(must, axis=0)
        return (self.flat(l, r.reshape(r.shape[0], n, -1))[None],
                must_f.reshape(n, -1)[None], (spec & ~must_f).reshape(n, -1)[None],
                np.all(inr, axis=0).reshape(n, -1)[None])

    def gen_window(self, rng, l):
        return self.prod.gen_window(rng, l)

    def any_open(self):
        return self.prod.any_open()


class Sparse(Flat):
    """array index a <-> nested flat index maps[l][a] (sorted, unique)"""

    def __init__(self, prod, maps):
        super().__init__(prod, "nest")
        self.maps = [np.asarray(m, dtype=np.int64) for m in maps]

    def shape(self, l):
        return np.array([self.maps[l].size], dtype=np.int64)

    def a2f(self, l, a):
        return self.maps[l][a]

    def f2a(self, l, f):
        pos = np.searchsorted(self.maps[l], f)
        posc = np.clip(pos, 0, self.maps[l].size - 1)
        valid = self.maps[l][posc] == f
        return posc, valid

    def all_indices(self, l):
        return np.arange(self.maps[l].size, dtype=np.int64)[None]

    def refined(self, l, idx):
        if l >= self.depth:
            return np.zeros(idx.shape[1], bool)
        ch = super().children(l, self.a2f(l, idx[0])[None])
        return np.all(np.isin(ch[0], self.maps[l + 1]), axis=-1)

    def children(self, l, idx):
        ch = super().children(l, self.a2f(l, idx[0])[None])
        a, valid = self.f2a(l + 1, ch)
        assert valid.all()
        return a

    def parent(self, l, idx):
        a, valid = self.f2a(l - 1, super().parent(l, self.a2f(l, idx[0])[None]))
        assert valid.all()
        return a

    def coords(self, l, idx):
        return super().coords(l, self.a2f(l, idx[0])[None])

    def volume(self, l, idx):
        return super().volume(l, self.a2f(l, idx[0])[None])

    def nbh(self, l, idx, w):
        r, must, soft, inr = super().nbh(l, self.a2f(l, idx[0])[None], w)
        a, valid = self.f2a(l, r)
        # entries whose identity is unspecified (HEALPix pixel with only 7 neighbours) may fall outside
        # the mapping -> no range requirement there
        return a, must & valid, soft & valid, inr & valid & (must | soft)


# =========================================================================================
# generators: (nifty grid, reference, descriptor)
# =========================================================================================
def gen_splits(rng, k, depth, smax=3):
    mode = int(rng.integers(0, 3))
    out = []
    for _ in range(depth):
        if mode == 0:
            s = [int(rng.integers(1, smax + 1))] * k       # isotropic
        elif mode == 1:
            s = [int(x) for x in rng.integers(1, smax + 1, k)]
        else:
            s = [int(x) for x in rng.integers(2, smax + 1, k)]
        out.append(tuple(s))
    return tuple(out)


def gen_periodic(ck, rng, depth, cap, maxnd=3):
    G = ck.state["G"]
    for _ in range(100):
        k = int(rng.integers(1, maxnd + 1))
        shape0 = tuple(int(x) for x in rng.integers(1, 5, k))
        splits = gen_splits(rng, k, depth)
        size = np.prod(shape0) * np.prod([np.prod(s) for s in splits]) if depth else np.prod(shape0)
        if size <= cap:
            break
    else:
        k, shape0, splits = 1, (2,), ((2,),) * depth
    g = G.Grid(shape0=shape0, splits=splits)
    ref = Cart(True, shape0, splits, [(0,) * k] * depth)
    return g, ref, dict(t="Grid", shape0=shape0, splits=splits)


def gen_open(ck, rng, depth, cap, maxnd=3):
    G = ck.state["G"]
    for _ in range(200):
        k = int(rng.integers(1, maxnd + 1))
        splits = gen_splits(rng, k, depth)
        pmode = int(rng.integers(0, 3))
        pads = []
        for _l in range(depth):
            if pmode == 0:
                pads.append((int(rng.integers(0, 3)),) * k)
            else:
                pads.append(tuple(int(x) for x in rng.integers(0, 3, k)))
        shape0 = tuple(int(x) + (2 * int(pads[0][a]) if depth else 0)
                       for a, x in enumerate(rng.integers(1, 5, k)))
        N = np.array(shape0)
        ok = True
        tot = int(np.prod(N))
        for s, p in zip(splits, pads):
            N = np.array(s) * (N - 2 * np.array(p))
            if np.any(N <= 0):
                ok = False
                break
            tot = max(tot, int(np.prod(N)))
        if ok and tot <= cap:
            break
    else:
        k, shape0, splits, pads = 1, (4,), ((2,),) * depth, ((1,),) * depth
    g = G.OpenGrid(shape0=shape0, splits=splits, padding=pads)
    ref = Cart(False, shape0, splits, pads)
    return g, ref, dict(t="OpenGrid", shape0=shape0, splits=splits, padding=pads)


def gen_healpix(ck, rng, depth, cap):
    GI = ck.state["GI"]
    cap = min(cap, ck.pick(768, 3072))
    depth = min(depth, 2)
    nside0 = int(pick(rng, [1, 1, 2]))
    if 12 * nside0 ** 2 > cap:
        nside0 = 1
    while depth > 0 and 12 * nside0 ** 2 * 4 ** depth > cap:
        depth -= 1
    mode = int(rng.integers(0, 4))
    if mode == 0 and depth >= 1:
        splits = tuple(int(pick(rng, [1, 4, 4, 16])) for _ in range(depth))
        if 12 * nside0 ** 2 * int(np.prod(splits)) > cap:
            splits = (4,) * depth
        g = GI.HEALPixGrid(nside0=nside0, depth=depth, splits=splits)
        d = dict(t="HEALPixGrid", nside0=nside0, splits=splits)
    elif mode == 1:
        splits = (4,) * depth
        g = GI.HEALPixGrid(nside=nside0 * 2 ** depth, depth=depth)
        d = dict(t="HEALPixGrid", nside=nside0 * 2 ** depth, depth=depth)
    elif mode == 2:
        # NB: HEALPixGrid(shape0=...) always fails in the pinned tree (isinstance(np.int64, int)
        # assertion); nside0 + nside is the remaining documented way without depth
        splits = (4,) * depth
        g = GI.HEALPixGrid(nside0=nside0, nside=nside0 * 2 ** depth)
        d = dict(t="HEALPixGrid", nside0=nside0, nside=nside0 * 2 ** depth)
    else:
        splits = (4,) * depth
        g = GI.HEALPixGrid(nside0=nside0, depth=depth)
        d = dict(t="HEALPixGrid", nside0=nside0, depth=depth)
    ref = HP(ck.state["ducc0"], nside0, splits)
    return g, ref, d


def gen_product(ck, rng, depth, cap, kinds):
    """MGrid of two base grids of equal depth (a HEALPix part keeps the product within one or
    a few batch chunks because its maps are expensive, see FAMILIES)"""
    G = ck.state["G"]
    depth = min(depth, 2)
    for _ in range(50):
        k1, k2 = pick(rng, kinds), pick(rng, kinds)
        if "healpix" in (k1, k2):
            tot = min(cap, ck.pick(512, 2048))
            d_hp = min(depth, ck.pick(1, 2))
            gh, ph, dh = gen_healpix(ck, rng, d_hp, 48 if ck.pick(True, False) else 192)
            oth = k2 if k1 == "healpix" else k1
            if oth == "healpix":
                oth = "grid"
            go, po, do = gen_base(ck, rng, ph.depth, max(2, tot // int(ph.N[-1][0])), [oth])
            if po.depth != ph.depth:
                continue
            if k1 == "healpix":
                g1, p1, d1, g2, p2, d2 = gh, ph, dh, go, po, do
            else:
                g1, p1, d1, g2, p2, d2 = go, po, do, gh, ph, dh
        else:
            sub = int(cap ** 0.5)
            g1, p1, d1 = gen_base(ck, rng, depth, sub, [k1])
            g2, p2, d2 = gen_base(ck, rng, depth, sub, [k2])
            if p1.depth != p2.depth:
                continue
        return G.MGrid(g1, g2), Prod([p1, p2]), dict(t="MGrid", grids=[d1, d2])
    raise RuntimeError("could not generate a product grid")


def _simple_open_args(rng, depth, cap, k=None, maxnd=2):
    for _ in range(200):
        kk = int(rng.integers(1, maxnd + 1)) if k is None else k
        min_shape = tuple(int(x) for x in rng.integers(2, 9, kk))
        window = int(pick(rng, [1, 3, 3, 5]))
        smode = int(rng.integers(0, 3))
        if smode == 0:
            splits = int(pick(rng, [2, 2, 3]))
            sarr = np.full((depth, kk), splits)
        elif smode == 1:
            splits = tuple(int(x) for x in rng.integers(1, 4, kk)) if kk > 1 else int(pick(rng, [2, 3]))
            sarr = np.broadcast_to(np.array(splits), (depth, kk))
        else:
            splits = tuple(tuple(int(x) for x in rng.integers(1, 4, kk)) for _ in range(depth))
            sarr = np.array(splits).reshape(depth, kk)
            if depth == 0:
                splits = int(2)
        # estimate of the final size: NIFTy picks shape0; we bound roughly
        pad = (window - 1) // 2
        est = np.prod(np.array(min_shape) + (4 * pad + 3) * np.prod(sarr, axis=0, initial=1))
        if est <= cap:
            return kk, min_shape, window, splits, sarr
    return 1, (4,), 3, 2, np.full((depth, 1), 2)


def _construct(ctor, sarr, window):
    """SimpleOpenGrid chooses shape0 itself from min_shape/splits/window.  For an axis with a level that
    does not refine (split 1) but still loses 2*padding pixels, NIFTy's estimate can be too small and the
    OpenGrid constructor then refuses the (genuinely non-constructible) non-positive level shape.  Such a
    refusal is a skipped case; a refusal of any other parameter set is not swallowed."""
    try:
        return ctor()
    except AssertionError:
        degenerate = window > 1 and np.size(sarr) > 0 and bool(np.any(np.asarray(sarr) == 1))
        if degenerate:
            from vf.runner import Skip
            raise Skip("SimpleOpenGrid: non-refining level (split 1) with padding -> level shape <= 0")
        raise


def gen_simpleopen(ck, rng, depth, cap, kind="simple", k=None):
    """SimpleOpenGrid / LogGrid / BrokenLogGrid.  shape0 is NIFTy's own (heuristic) choice and is
    read from the grid; the final shape must be >= min_shape; padding = (window-1)//2."""
    GI = ck.state["GI"]
    kk, min_shape, window, splits, sarr = _simple_open_args(
        rng, depth, cap, k=(1 if kind != "simple" else k))
    kw = dict(min_shape=min_shape, window_size=window, splits=splits, depth=depth)
    desc = dict(min_shape=min_shape, window_size=window, splits=splits, depth=depth)
    transform = None
    dist = None
    if kind == "simple":
        dm = int(rng.integers(0, 3))
        if dm == 1:
            dist = rfloat(rng, 0.05, 20, log=True)
        elif dm == 2:
            dist = tuple(rfloat(rng, 0.05, 20, log=True) for _ in range(kk))
        if dist is not None:
            kw["distances"] = dist
            desc["distances"] = dist
        g = _construct(lambda: GI.SimpleOpenGrid(**kw), sarr, window)
        desc["t"] = "SimpleOpenGrid"
    elif kind == "log":
        r_min = rfloat(rng, 0.01, 10, log=True)
        r_max = float(f"{r_min * rfloat(rng, 1.5, 1e3, log=True):.5g}")
        g = _construct(lambda: GI.LogGrid(r_min=r_min, r_max=r_max, **kw), sarr, window)
        desc.update(t="LogGrid", r_min=r_min, r_max=r_max)
        transform = log_transform(r_min, r_max)
    else:
        r_min = rfloat(rng, 0.01, 10, log=True)
        r_lt = float(f"{r_min * rfloat(rng, 1.0, 20, log=True):.5g}")
        r_max = float(f"{r_lt * rfloat(rng, 1.5, 100, log=True):.5g}")
        g = _construct(lambda: GI.BrokenLogGrid(r_min=r_min, r_linthresh=r_lt, r_max=r_max, **kw), sarr, window)
        desc.update(t="BrokenLogGrid", r_min=r_min, r_linthresh=r_lt, r_max=r_max)
        transform = brokenlog_transform(r_min, r_lt, r_max)
    pad = (window - 1) // 2
    shape0 = tuple(int(x) for x in np.asarray(g.shape0))
    ref = Cart(False, shape0, [tuple(int(x) for x in s) for s in sarr], [(pad,) * kk] * depth,
               anchor="final", dist=dist, transform=transform)
    ref.brokenlog = (kind == "brokenlog")
    ref.min_shape = np.array(min_shape)
    return g, ref, desc


def log_transform(r_min, r_max):
    a, b = np.log(r_min), np.log(r_max)
    return lambda u: np.exp(a + (b - a) * u)


def brokenlog_transform(r_min, r_t, r_max):
    """documented piece types, joined continuously differentiable:
       u<0: c/(u-δ) (1/r spacing) | 0<=u<u_t: linear | u_t<=u<1: exponential | u>=1: linear"""
    L = np.log(r_max / r_t)
    m = (1.0 - r_min / r_t) / L
    u_t = m / (1.0 + m)
    beta = L / (1.0 - u_t)
    alpha = r_t * beta
    delta = r_min / alpha
    gamma = -r_min * delta
    eps = beta * r_max

    def f(u):
        u = np.asarray(u, dtype=float)
        out = np.empty_like(u)
        m0 = u < 0
        m1 = (u >= 0) & (u < u_t)
        m2 = (u >= u_t) & (u < 1)
        m3 = u >= 1
        out[m0] = gamma / (u[m0] - delta)
        out[m1] = r_min + alpha * u[m1]
        out[m2] = r_t * np.exp(beta * (u[m2] - u_t))
        out[m3] = r_max + eps * (u[m3] - 1)
        return out
    return f


def gen_base(ck, rng, depth, cap, kinds):
    k = pick(rng, kinds)
    if k == "grid":
        return gen_periodic(ck, rng, depth, cap)
    if k == "open":
        return gen_open(ck, rng, depth, cap)
    if k == "healpix":
        return gen_healpix(ck, rng, depth, cap)
    if k == "simpleopen":
        return gen_simpleopen(ck, rng, depth, cap, "simple")
    if k == "log":
        return gen_simpleopen(ck, rng, depth, cap, "log")
    if k == "brokenlog":
        return gen_simpleopen(ck, rng, depth, cap, "brokenlog")
    raise ValueError(k)


FAMILIES = (["grid"] * 6 + ["open"] * 7 + ["healpix"] * 2 + ["simpleopen"] * 3 + ["log"] * 3
            + ["brokenlog"] * 1 + ["mgrid"] * 5 + ["hplogr", "hpbrokenlogr"] + ["flat"] * 6
            + ["sparse"] * 3)
# NIFTy's HEALPix maps (lax.cond under an eager vmap) and the broken-log map (jnp.piecewise with
# fresh lambdas) are re-compiled by JAX on *every call* (~0.5 s each): grids containing them are
# generated less often, kept within one batch chunk, and get fewer unbatched calls.


def gen_grid(ck, rng, i=0):
    G, GI = ck.state["G"], ck.state["GI"]
    cap = ck.pick(6000, 50000)
    # round-robin over the case index (seed-dependent offset): every family early in the run
    fam = FAMILIES[(i * 11 + int(ck.rng(777).integers(0, len(FAMILIES)))) % len(FAMILIES)]
    depth = int(pick(rng, [0, 1, 2, 2, 2, 3, 3]))
    if fam in ("grid", "open", "healpix", "simpleopen", "log", "brokenlog"):
        g, part, d = gen_base(ck, rng, depth, cap, [fam])
        ref = Prod([part])
        return fam, g, ref, d
    if fam == "mgrid":
        g, prod, d = gen_product(ck, rng, depth, cap,
                                 ["grid", "grid", "open", "open", "healpix", "log", "simpleopen"])
        return fam, g, prod, d
    if fam in ("hplogr", "hpbrokenlogr"):
        depth = int(pick(rng, ck.pick([0, 1, 1], [0, 1, 1, 2])))
        nside0 = 1
        nside = nside0 * 2 ** depth
        r_min_shape = int(rng.integers(2, 7))
        window = int(pick(rng, [1, 3, 3, 5]))
        r_min = rfloat(rng, 0.05, 5, log=True)
        pad = (window - 1) // 2
        mode = int(rng.integers(0, 2))
        if fam == "hplogr":
            r_max = float(f"{r_min * rfloat(rng, 1.5, 100, log=True):.5g}")
            kw = dict(r_min=r_min, r_max=r_max, r_window_size=window, nside0=nside0)
            transform = log_transform(r_min, r_max)
            ctor = GI.HPLogRGrid
        else:
            r_lt = float(f"{r_min * rfloat(rng, 1.0, 10, log=True):.5g}")
            r_max = float(f"{r_lt * rfloat(rng, 1.5, 50, log=True):.5g}")
            kw = dict(r_min=r_min, r_linthresh=r_lt, r_max=r_max, r_window_size=window,
                      nside0=nside0)
            transform = brokenlog_transform(r_min, r_lt, r_max)
            ctor = GI.HPBrokenLogRGrid
        if mode == 0:
            g = ctor(nside=nside, r_min_shape=r_min_shape, **kw)
            d = dict(t=ctor.__name__, nside=nside, r_min_shape=r_min_shape, **kw)
        else:
            g = ctor((12 * nside ** 2, r_min_shape), **kw)
            d = dict(t=ctor.__name__, min_shape=(12 * nside ** 2, r_min_shape), **kw)
        hp = HP(ck.state["ducc0"], nside0, (4,) * depth)
        gr = g.grids[1]
        shape0 = tuple(int(x) for x in np.asarray(gr.shape0))
        rr = Cart(False, shape0, [(2,)] * depth, [(pad,)] * depth, anchor="final",
                  transform=transform)
        rr.min_shape = np.array([r_min_shape])
        rr.brokenlog = (fam == "hpbrokenlogr")
        return fam, g, Prod([hp, rr], radial=True), d
    if fam == "flat":
        ordering = pick(rng, ["serial", "nest", "nest"])
        if ordering == "nest":
            depth = int(pick(rng, [1, 2, 2, 3]))     # nested numbering needs >= 2 levels to matter
        kinds = ["grid", "grid", "healpix", "mgrid"] + (["open", "simpleopen"] if ordering == "serial"
                                                        else [])
        sub = pick(rng, kinds)
        if sub == "mgrid":
            base, prod, bd = gen_product(ck, rng, depth, cap, ["grid", "grid", "healpix"] + (
                ["open"] if ordering == "serial" else []))
        else:
            base, part, bd = gen_base(ck, rng, depth, cap, [sub])
            prod = Prod([part])
        g = G.FlatGrid(base, ordering=ordering)
        return fam, g, Flat(prod, ordering), dict(t="FlatGrid", ordering=ordering, grid=bd)
    if fam == "sparse":
        sub = pick(rng, ["grid", "grid", "grid", "healpix", "mgrid"])
        cap2 = min(cap, ck.pick(600, 3000))
        depth = min(depth, 2)
        if sub == "mgrid":
            base, prod, bd = gen_product(ck, rng, depth, cap2, ["grid", "grid", "healpix"])
        else:
            base, part, bd = gen_base(ck, rng, depth, cap2, [sub])
            prod = Prod([part])
        fl = Flat(prod, "nest")
        # mappings: level 0 random subset; level l+1 = all children of a random subset of level l
        size0 = int(fl.shape(0)[0])
        n0 = int(rng.integers(1, size0 + 1))
        maps = [np.sort(rng.choice(size0, n0, replace=False)).astype(np.int64)]
        frac = []
        for l in range(prod.depth):
            cur = maps[-1]
            nr = int(rng.integers(1, cur.size + 1))
            if rng.integers(0, 4) == 0:
                nr = cur.size
            R = np.sort(rng.choice(cur, nr, replace=False))
            ch = fl.children(l, R[None])
            maps.append(np.sort(ch.reshape(-1)))
            frac.append([int(nr), int(cur.size)])
        via_flat = bool(rng.integers(0, 2))
        g = G.SparseGrid(G.FlatGrid(base, ordering="nest") if via_flat else base,
                         tuple(np.array(m) for m in maps))
        import hashlib
        mh = hashlib.sha1(b"".join(m.tobytes() for m in maps)).hexdigest()[:10]
        return fam, g, Sparse(prod, maps), dict(t="SparseGrid", grid=bd, n0=n0, refined=frac,
                                                 maps_sha=mh, via_flat=via_flat)
    raise ValueError(fam)


# =========================================================================================
# the sweep
# =========================================================================================
def A(x):
    return np.asarray(x)


CHUNK = 512


def P(fn, arr, *a, axis=1, **kw):
    """call ``fn`` on the whole-level batch ``arr`` (k, n) in chunks of exactly CHUNK columns
    (the last chunk is padded by repeating its first column; the padding is cut off again).
    Purpose: JAX compiles every eager operation once per array shape — a single batch length
    lets the compiled kernels be reused across levels and cases.  Results without a batch axis
    (e.g. a constant volume of shape (1, 1)) are returned as they are."""
    n = arr.shape[1]
    outs = []
    for lo in range(0, max(n, 1), CHUNK):
        part = arr[:, lo:lo + CHUNK]
        m = part.shape[1]
        if m < CHUNK and m > 0:
            part = np.concatenate([part, np.repeat(part[:, :1], CHUNK - m, axis=1)], axis=1)
        out = A(fn(part, *a, **kw))
        if out.ndim > axis and out.shape[axis] == CHUNK:
            out = out[(slice(None),) * axis + (slice(0, m),)]
        else:
            return out
        outs.append(out)
    return outs[0] if len(outs) == 1 else np.concatenate(outs, axis=axis)


def case(ck, i):
    rng = ck.rng()
    fam, g, ref, desc = gen_grid(ck, rng, i)
    depth = ref.depth
    prod = ref.prod if ref.flatlike else ref
    aniso = any(len(set(int(x) for x in prod.splits(l))) > 1 for l in range(depth))
    padded = any(np.any(prod.pads(l) > 0) for l in range(depth))
    composite = fam in ("mgrid", "hplogr", "hpbrokenlogr", "flat", "sparse")
    ck.note(desc, nontrivial=(depth >= 2 and (aniso or padded or composite)), klass=fam)

    slow = fam == "sparse" or any(isinstance(p, HP) or getattr(p, "brokenlog", False)
                                  for p in prod.parts)
    unb_level = int(rng.integers(0, depth + 1))
    seen = set()

    def bad(key, what, **w):
        if key not in seen:
            seen.add(key)
            ck.violation(f"{key}:{fam}", what, **w)

    def eq_int(name, hitname, obs, exp, l, mask=None):
        ck.hit(hitname)
        obs = A(obs)
        if obs.shape != exp.shape:
            bad(name, f"{name}: result shape {obs.shape} != expected {exp.shape} at level {l}",
                level=l)
            return False
        o = obs.astype(np.int64)
        ne = (o != exp) if mask is None else ((o != exp) & mask)
        if ne.any():
            w = np.argwhere(ne)[0].tolist()
            bad(name, f"{name} differs from the reference at level {l}", level=l, where=w,
                observed=int(o[tuple(w)]), expected=int(exp[tuple(w)]))
            return False
        return True

    def eq_flt(name, hitname, obs, exp, l, rtol=1e-9):
        ck.hit(hitname)
        obs = A(obs)
        if not nclose(obs, exp, rtol):
            w = {}
            if obs.shape == exp.shape and obs.size:
                j = int(np.argmax(np.abs(obs - exp)))
                w = dict(observed=float(obs.reshape(-1)[j]), expected=float(exp.reshape(-1)[j]),
                         flatpos=j)
            bad(name, f"{name} differs from the reference at level {l} "
                f"(shapes {obs.shape} vs {exp.shape})", level=l, **w)
            return False
        return True

    if int(g.depth) != depth:
        bad("depth", f"grid depth {g.depth} != {depth}")
        return
    if hasattr(prod.parts[-1], "min_shape") or hasattr(prod.parts[0], "min_shape"):
        for p in prod.parts:
            if hasattr(p, "min_shape"):
                ck.hit("min_shape_checks")
                short = p.N[depth] < p.min_shape
                if np.any(short):
                    # degenerate: a level that does not refine (split 1) but still loses its padding;
                    # NIFTy's "conservative" shape0 estimate is then too small.  Outside the index-map
                    # property -> observation only; with all splits >= 2 it is a violation.
                    n1 = np.sum(np.array(p.s) == 1, axis=0) if depth else np.zeros(p.k)
                    if np.all(n1[short] >= 1):
                        ck.hit("min_shape_shortfall_with_split1_levels")
                    else:
                        bad("min_shape", "final shape smaller than the requested min_shape",
                            final=p.N[depth].tolist(), min_shape=p.min_shape.tolist())

    levels = [g.at(l) for l in range(depth + 1)]
    vol_prev = None
    obs_children_prev = None          # children of level l-1 (observed), for the partition test
    for l, ga in enumerate(levels):
        ck.hit("levels_swept")
        shp = ref.shape(l)
        # ---- meta --------------------------------------------------------------------------
        ck.hit("meta_checks")
        if not np.array_equal(A(ga.shape).astype(np.int64), shp) or int(ga.size) != int(np.prod(shp)) \
                or int(ga.ndim) != ref.index_ndim():
            bad("shape", f"level {l}: shape/size/ndim {A(ga.shape).tolist()}/{ga.size}/{ga.ndim} != "
                f"reference {shp.tolist()}", level=l)
            return
        exp_s = ref.splits(l) if l < depth else None
        exp_ps = ref.splits(l - 1) if l > 0 else None
        for nm, o, e in (("splits", ga.splits, exp_s), ("parent_splits", ga.parent_splits, exp_ps)):
            if (o is None) != (e is None) or (e is not None and not np.array_equal(A(o), e)):
                bad(nm, f"level {l}: {nm} {o} != reference {e}", level=l)
        idx = ref.all_indices(l)
        n = idx.shape[1]
        ck.hit("indices_swept", n)

        # ---- refined set ---------------------------------------------------------------------
        rmask = ref.refined(l, idx) if l < depth else np.zeros(n, bool)
        try:
            o_ref = P(ga._is_index_refined, idx, axis=0)
        except IndexError:
            if l < depth:
                raise
            ck.hit("leaf_is_index_refined_raises")     # SparseGridAtLevel: no children mapping
            o_ref = np.zeros(n, bool)
        ck.hit("ref_refined")
        if o_ref.shape != (n,) or not np.array_equal(o_ref.astype(bool), rmask):
            bad("is_index_refined", f"_is_index_refined differs from the reference at level {l}",
                level=l)
        if l < depth:
            ri = A(ga.refined_indices())
            ri = ri.reshape(ri.shape[0], -1).astype(np.int64)
            exp_ri = idx[:, rmask]
            ck.hit("ref_refined")
            if ri.shape != exp_ri.shape or not np.array_equal(ri, exp_ri):
                bad("refined_indices", f"refined_indices() differs from the reference at level {l}",
                    level=l, observed_shape=list(ri.shape), expected_shape=list(exp_ri.shape))
        else:
            ck.hit("leaf_level_refusals")
            for nm, fn in (("children", lambda: ga.children(idx)),
                           ("refined_indices", lambda: ga.refined_indices())):
                try:
                    fn()
                    bad("leaf-" + nm, f"{nm} at the finest level did not raise IndexError")
                except IndexError:
                    pass

        # ---- coordinates, volumes --------------------------------------------------------------
        coord = P(ga.index2coord, idx)
        eq_flt("index2coord", "ref_coord", coord, ref.coords(l, idx), l)
        back = P(ga.coord2index, coord)
        ck.hit("inv_coord_roundtrip", n)
        if back.shape != idx.shape or not np.array_equal(back.astype(np.int64), idx):
            bad("coord-roundtrip", f"coord2index(index2coord(i)) != i at level {l}", level=l)
        vol = P(ga.index2volume, idx)
        exp_vol = ref.volume(l, idx)
        try:
            vol_b = np.broadcast_to(vol.reshape(vol.shape[-1]) if vol.ndim else vol, (n,))
        except ValueError:
            vol_b = None
        ck.hit("ref_volume")
        if vol_b is None or vol.ndim != 2 or vol.shape[0] != 1:
            bad("index2volume-shape", f"index2volume shape {vol.shape} not broadcastable to "
                f"(1, {n}) at level {l}", level=l)
            vol_b = np.full(n, np.nan)
        elif not nclose(vol_b, exp_vol, 1e-9):
            bad("index2volume", f"index2volume differs from the reference at level {l}", level=l,
                observed=float(vol_b[0]), expected=float(exp_vol[0]))
        ck.hit("inv_volume")
        if not np.all(vol_b > 0):
            bad("volume-nonpositive", f"non-positive volume at level {l}", level=l)
        tot = float(np.sum(vol_b))
        if vol_prev is not None and not (tot <= vol_prev * (1 + 1e-9)):
            bad("volume-grows", f"total volume grows from level {l - 1} to {l}", level=l,
                previous=vol_prev, now=tot)
        vol_prev = tot

        # ---- parent ------------------------------------------------------------------------------
        if l > 0:
            par = P(ga.parent, idx)
            okp = eq_int("parent", "ref_parent", par, ref.parent(l, idx), l)
            # centre of a child lies in its parent's cell
            ck.hit("inv_child_in_parent_cell", n)
            cidx = P(levels[l - 1].coord2index, coord).astype(np.int64)
            if okp and (cidx.shape != par.shape or not np.array_equal(cidx, par.astype(np.int64))):
                bad("child-outside-parent-cell", f"coarse coord2index of a level-{l} pixel centre is "
                    "not its parent", level=l)
            # partition: children of the refined indices of level l-1 == all indices of level l
            ck.hit("inv_partition")
            ch = obs_children_prev
            if ch is not None:
                flat = ch.reshape(ch.shape[0], -1).astype(np.int64)
                key_all = np.ravel_multi_index(tuple(idx), tuple(int(x) for x in shp))
                inr = np.all((flat >= 0) & (flat < shp[:, None]), axis=0)
                if not inr.all():
                    bad("children-out-of-range", f"children of level {l - 1} outside level {l}",
                        level=l)
                else:
                    key_ch = np.sort(np.ravel_multi_index(tuple(flat), tuple(int(x) for x in shp)))
                    if key_ch.size != key_all.size or not np.array_equal(key_ch, np.sort(key_all)):
                        bad("children-not-partition", f"children of the refined indices of level "
                            f"{l - 1} do not partition level {l} (gaps or duplicates)", level=l,
                            n_children=int(key_ch.size), n_level=int(key_all.size),
                            n_unique=int(np.unique(key_ch).size))
        else:
            ck.hit("root_level_refusals")
            try:
                ga.parent(idx)
                bad("root-parent", "parent at level 0 did not raise IndexError")
            except IndexError:
                pass

        # ---- children ----------------------------------------------------------------------------
        obs_children_prev = None
        if l < depth:
            ridx = idx[:, rmask]
            ch = P(ga.children, ridx)
            exp_ch = ref.children(l, ridx)
            eq_int("children", "ref_children", ch, exp_ch, l)
            obs_children_prev = ch
            if ch.shape == exp_ch.shape:
                nxt = levels[l + 1]
                nr = ridx.shape[1]
                flat = ch.reshape(ch.shape[0], -1).astype(np.int64)
                nshp = ref.shape(l + 1)
                if np.all((flat >= 0) & (flat < nshp[:, None])):
                    ck.hit("inv_parent_of_children", flat.shape[1])
                    pc = P(nxt.parent, flat).astype(np.int64).reshape(ch.shape)
                    exp_pc = ridx.reshape(ridx.shape + (1,) * (ch.ndim - 2))
                    if not np.array_equal(pc, np.broadcast_to(exp_pc, ch.shape)):
                        bad("parent-of-children", f"parent(children(i)) != i at level {l}", level=l)
                    cv = P(nxt.index2volume, flat)
                    cv = np.broadcast_to(cv.reshape(-1) if cv.size > 1 else cv.reshape(1),
                                         (flat.shape[1],)).reshape(nr, -1).sum(axis=1)
                    pv = vol_b[rmask]
                    ck.hit("inv_volume")
                    if not np.all(cv <= pv * (1 + 1e-9)):
                        bad("refinement-creates-volume", f"sum of the children volumes exceeds the "
                            f"parent volume at level {l}", level=l)
                    elif not nclose(cv, pv, 1e-9):
                        bad("children-volume-deficit", f"children volumes do not sum to the parent "
                            f"volume at level {l} although the children tile the parent", level=l,
                            children=float(cv[0]), parent=float(pv[0]))

        # ---- neighbourhoods ------------------------------------------------------------------------
        for _w in range(1 if slow else 2):
            w = ref.gen_window(rng, l)
            nb = P(ga.neighborhood, idx, w)
            exp_nb, must, soft, inr = ref.nbh(l, idx, w)
            ck.hit("ref_neighborhood")
            if nb.shape != exp_nb.shape:
                bad("neighborhood-shape", f"neighborhood shape {nb.shape} != {exp_nb.shape} for "
                    f"window {w} at level {l}", level=l, window=list(w))
                continue
            nbi = nb.astype(np.int64)
            if not np.all(((nbi >= 0) & (nbi < shp.reshape((-1,) + (1,) * (nb.ndim - 1)))) | ~inr):
                bad("neighborhood-out-of-range", f"neighborhood returns invalid indices at level {l}",
                    level=l, window=list(w))
                continue
            # entries inside the grid (and specified) must agree exactly
            ne = (nbi != exp_nb) & must
            if ne.any():
                wh = np.argwhere(ne)[0].tolist()
                bad("neighborhood", f"neighborhood differs from the reference for window {w} at "
                    f"level {l}", level=l, window=list(w), where=wh,
                    observed=int(nbi[tuple(wh)]), expected=int(exp_nb[tuple(wh)]))
            # entries outside an open axis: documented intent is clipping
            m2 = soft
            if m2.any():
                if np.array_equal(nbi[m2], exp_nb[m2]):
                    ck.hit("open_nbh_outside_clipped", int(m2.sum()))
                else:
                    ck.hit("open_nbh_outside_wrapped", int(m2.sum()))
                    if STRICT_OPEN_CLIP:
                        bad("open-neighborhood-wraps", "neighbourhood of a boundary pixel of an open "
                            "axis wraps to the opposite edge instead of clipping", level=l,
                            window=list(w))

        # ---- flat <-> multi maps -----------------------------------------------------------------------
        if ref.flatlike:
            for shiftl in (-1, 0, 1):
                ll = l + shiftl
                if ll < 0 or ll > depth:
                    continue
                midx = prod.all_indices(ll)
                fo = P(ga.index2flatindex, midx, shiftl).astype(np.int64)
                exp_f = Flat.flat(ref, ll, midx)[None]
                eq_int(f"index2flatindex", "flat_bijection", fo, exp_f, l)
                size = int(np.prod(prod.shape(ll)))
                if fo.shape == exp_f.shape:
                    if not np.array_equal(np.sort(fo[0]), np.arange(size)):
                        bad("flatindex-not-bijective", f"index2flatindex(levelshift={shiftl}) is not "
                            f"a bijection onto range(size) at level {l}", level=l)
                fi = np.arange(size, dtype=np.int64)[None]
                mo = P(ga.flatindex2index, fi, shiftl).astype(np.int64)
                eq_int("flatindex2index", "flat_bijection", mo, Flat.unflat(ref, ll, fi[0]), l)
                if mo.shape == (prod.nd, size):
                    bk = P(ga.index2flatindex, mo, shiftl).astype(np.int64)
                    if not np.array_equal(bk, fi):
                        bad("flatindex-roundtrip", f"index2flatindex(flatindex2index(f)) != f "
                            f"(levelshift={shiftl}) at level {l}", level=l)
            if isinstance(ref, Sparse):
                ck.hit("sparse_array_maps")
                ai = ref.all_indices(l)
                fo = A(ga.arrayindex2flatindex(ai)).astype(np.int64)
                if not np.array_equal(fo, ref.maps[l][None]):
                    bad("arrayindex2flatindex", f"arrayindex2flatindex != mapping at level {l}", level=l)
                bo, valid = ga.flatindex2arrayindex(ref.maps[l][None], return_valid=True)
                if not np.array_equal(A(bo).astype(np.int64), ai) or not np.all(A(valid)):
                    bad("flatindex2arrayindex", f"flatindex2arrayindex is not the inverse of the "
                        f"mapping at level {l}", level=l)

        # ---- unbatched calls agree with the batched sweep --------------------------------------------------
        for j in rng.integers(0, n, 2):
            j = int(j)
            if slow and (l != unb_level or ck._hits.get("unbatched_calls", 0) > 0):
                continue
            one = idx[:, j]
            ck.hit("unbatched_calls")
            c1 = A(ga.index2coord(one))
            if not nclose(c1, coord[:, j], 1e-12):
                bad("unbatched-index2coord", f"index2coord of a single index differs from the batched "
                    f"call at level {l}", level=l)
            if l > 0:
                p1 = A(ga.parent(one)).astype(np.int64)
                if not np.array_equal(p1, A(par)[:, j].astype(np.int64)):
                    bad("unbatched-parent", f"parent of a single index differs from the batched call "
                        f"at level {l}", level=l)
            if l < depth and rmask[j]:
                k = int(np.flatnonzero(np.flatnonzero(rmask) == j)[0])
                c1 = A(ga.children(one)).astype(np.int64)
                if obs_children_prev is not None and not np.array_equal(
                        c1, obs_children_prev[:, k].astype(np.int64)):
                    bad("unbatched-children", f"children of a single index differ from the batched "
                        f"call at level {l}", level=l)
            w = ref.gen_window(rng, l)
            n1 = A(ga.neighborhood(one, w)).astype(np.int64)
            nb = P(ga.neighborhood, idx, w).astype(np.int64)
            if not np.array_equal(n1, nb[:, j]):
                bad("unbatched-neighborhood", f"neighborhood of a single index differs from the "
                    f"batched call at level {l}", level=l)

