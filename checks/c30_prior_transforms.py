"""C30 — Prior transforms map a standard normal to the documented distribution.

Observed: ``transform(x)`` of every nifty.re prior transform (``normal_prior``,
``lognormal_prior``, ``uniform_prior``, ``laplace_prior``, ``invgamma_prior``, their
``*_invprior`` inverses, the ``*Prior`` model classes, ``lognormal_moments``) and of the classic
operators (``NormalTransform``, ``LognormalTransform``, ``InverseGammaOperator`` in both
parametrisations, ``GammaOperator``, ``LogInverseGammaOperator``, ``BetaOperator``,
``UniformOperator``, ``LaplaceOperator``, classic ``lognormal_moments``) on a sorted grid of 32
standard-normal quantiles x = Phi^-1(p), p from 1e-12 to 1-1e-12 plus random points; the provided
inverses applied to the outputs; the classic Jacobians (operators applied to a Linearization).

Oracle (scipy.stats / scipy.special only): the true quantile map
``q(x) = dist.ppf(Phi(x))`` (x <= 0) / ``dist.isf(Phi(-x))`` (x > 0) of the documented target
distribution.  Tolerances: 1e-9 relative for closed-form transforms; implementations that go
through the double-precision value of Phi(x) get the exact conditioning allowance
``4 eps p / pdf(q)``; table-interpolated transforms get the interpolation error bound of their
documented step (h^2/8 max|g''| for the linear table, 4*5/384 h^4 max|g''''| for the cubic
spline; derivatives estimated from the oracle itself).  Monotone on the sorted grid,
``inverse(transform(x)) = x``, classic Jacobian = phi(x)/pdf(q(x)), log-normal moments.
Location/scale families (normal, log-normal, uniform) are additionally judged on the standardised
scale ((y - location)/width against the standardised quantile, tolerance = float resolution of the
output), which also sets the resolution of the strict-monotonicity test for very narrow targets.
"""
import numpy as np

META = dict(
    id="C30", level="exploration",
    title="Prior transforms map a standard normal to the documented distribution",
    technique="quantile-map comparison against scipy.stats ppf/isf on standard-normal quantile grids "
              "with conditioning- and interpolation-aware tolerances",
    rule=("case = one (transform, parameter set) pair: transform from the list of 9 nifty.re and 10 "
          "nifty.cl entries (function, model class, scalar / per-element array parameters, Vector input), "
          "parameters log-uniform over shape 0.5..50, scale 1e-3..1e3 (a third of the cases from the "
          "corners shape 0.2..200, scale 1e-8..1e8), log-normal sigma/mean swept down to 1e-10, uniform "
          "priors with special bound pairs (width exactly 1 with/without offset, negative ranges; python "
          "float / int / numpy scalar / 0-d / (G,) array bounds), step/delta in {1e-2,2e-2,5e-2}; "
          "evaluated on 23 fixed quantiles (p = 1e-12..1-1e-12) + 9 random points. "
          "non-trivial: non-default parameters (all grids contain |x| > 3); distinct = distinct "
          "descriptor (transform, variant, rounded parameters)"),
    assumptions=[
        "|x| <= 7.04 (p in [1e-12, 1-1e-12]); the tables end at |x| = 8.2",
        "transforms evaluated through Phi(x) in double precision are allowed the unavoidable "
        "4 ulp conditioning error of that route in the upper tail",
        "inverse(transform(x)) = x is only compared where its floating-point conditioning bound is "
        "below 1e-9 (|x| <= 5, moderate |loc|/scale)",
        "invgamma_prior with loc < 0 is generated rarely (its log-table cannot represent negative values)",
    ],
    need=["quantile_points", "width_points", "monotone_checks", "inverse_points", "jacobian_points", "moment_checks",
          "property_checks", "re_pairs", "cl_pairs", "interp_pairs"],
    quick=dict(cases=1900, workers=6, budget_s=60),
    thorough=dict(cases=30000, workers=16, budget_s=700),
    design_ref="DESIGN.md §5 C30",
    level_text=("every generated (transform, parameter) pair is compared point-wise with the scipy "
                "quantile function on a tail-to-tail grid; exploration of the parameter ranges"),
    level_note="trusts scipy.stats ppf/isf/pdf and scipy.special.ndtr as the reference distributions",
)

EPS = 2.0 ** -52
G = 32
PL = [1e-12, 1e-10, 1e-8, 1e-6, 1e-4, 1e-3, 1e-2, 0.05, 0.1, 0.25, 0.4]


def init(ck):
    import jax
    import jax.numpy as jnp
    import nifty.re as jft
    import nifty.cl as ift
    from nifty.re.num import stats_distributions as sd
    from vf import rehelp as H
    H.silence_nifty_logger()
    H.enable_compile_cache()
    ck.state.update(jax=jax, jnp=jnp, jft=jft, ift=ift, sd=sd)


# -------------------------------------------------------------------------- oracle
def ndtr(x):
    from scipy.special import ndtr as f
    return f(x)


def phi(x):
    return np.exp(-0.5 * x * x) / np.sqrt(2 * np.pi)


def true_map(dist, x):
    """quantile of the target at probability Phi(x), evaluated from the nearer tail"""
    x = np.asarray(x, float)
    lo = dist.ppf(ndtr(np.minimum(x, 0.0)))
    hi = dist.isf(ndtr(-np.maximum(x, 0.0)))
    return np.where(x <= 0, lo, hi)


def grid(rng):
    from scipy.special import ndtri
    xn = ndtri(np.array(PL))
    x = np.concatenate([xn, [0.0], -xn, rng.uniform(-7.0, 7.0, 5), rng.standard_normal(4)])
    x = np.sort(np.clip(x, -7.04, 7.04))
    assert x.size == G
    return x


def lu(rng, lo, hi, size=None):
    v = np.exp(rng.uniform(np.log(lo), np.log(hi), size))
    return float(f"{v:.4g}") if size is None else np.array([float(f"{t:.4g}") for t in v])


def deriv_bound(gfun, x, h, order):
    """max |g^(order)| near x (order 2: linear table, 4: cubic spline), from the oracle"""
    if order == 2:
        d = h / 2.0
        cs = [x + k * d for k in (-2, -1, 0, 1, 2)]
        vals = [np.abs(gfun(c - d) - 2 * gfun(c) + gfun(c + d)) / d ** 2 for c in cs]
    else:
        d = h
        cs = [x + k * d for k in (-2, -1, 0, 1, 2)]
        vals = [np.abs(gfun(c - 2 * d) - 4 * gfun(c - d) + 6 * gfun(c) - 4 * gfun(c + d) + gfun(c + 2 * d))
                / d ** 4 for c in cs]
    return np.max(np.stack(vals), axis=0)


# ----------------------------------------------------------------------- the judge
def judge(ck, sp, x):
    """sp: spec dict (see builders).  Compares transform, monotonicity, inverse, Jacobian."""
    key = sp["key"]
    desc = sp["desc"]
    y = np.asarray(sp["fn"](x), float).reshape(-1)
    dist = sp["dist"]
    q = true_map(dist, x)                         # target quantiles (lin space)
    p = ndtr(x)
    with np.errstate(divide="ignore", invalid="ignore", over="ignore"):
        pdf = dist.pdf(q)
        cond = np.where(pdf > 0, 4 * EPS * np.minimum(p, 1.0) / pdf, 0.0) if sp["mode"] == "viacdf" else 0.0 * q
    e_T = 0.0 * q
    e_Tp = 0.0 * q
    noise_T = 0.0 * q
    if sp.get("interp"):
        it = sp["interp"]
        h, order, gfun = it["h"], it["order"], it["g"]
        Mk = deriv_bound(gfun, x, h, order)
        for galt in it.get("g_alt", ()):          # other admissible tabulations of the same map
            Mk = np.maximum(Mk, deriv_bound(galt, x, h, order))
        if order == 2:
            e_T = 1.1 * h * h / 8.0 * Mk
            e_Tp = 0.0 * q
            namp = 1.5
        else:
            e_T = 4.0 * 5.0 / 384.0 * h ** 4 * Mk
            e_Tp = 4.0 / 24.0 * h ** 3 * Mk
            namp = 3.0
        # interpolation passes the rounding noise of the tabulated nodes through
        if it["space"] == "log" or sp.get("out") == "log":      # table holds log-quantiles
            cond_T = cond / np.maximum(np.abs(q - sp.get("loc", 0.0)), 1e-300)
        else:
            cond_T = cond / it["post_scale"]
        # ... and the tabulated values themselves are rounded to double precision (matters where the
        # quantile saturates, e.g. Beta with b < 1 near 1: slope of the table ~ 1e-11, values ~ 1)
        cond_T = cond_T + 2 * EPS * np.abs(gfun(x))
        e_T = e_T + namp * cond_T
        noise_T = namp * cond_T
        e_Tp = e_Tp + 6.0 * namp * cond_T / h
        ck.hit("interp_pairs")
    out = sp.get("out", "lin")
    rt = sp.get("rtol", 1e-9)
    if out == "lin":
        yt = q
        if sp.get("interp"):
            it = sp["interp"]
            if it["space"] == "log":
                tol_i = (np.abs(q) + abs(sp.get("loc", 0.0))) * np.expm1(np.minimum(e_T, 50.0))
            else:
                tol_i = e_T * it["post_scale"]
        else:
            tol_i = 0.0
        tol = rt * (np.abs(q) + sp.get("abs_scale", 0.0)) + cond + tol_i
    else:           # the operator returns log(quantile)
        yt = np.log(q)
        tol = rt * (1.0 + np.abs(yt)) + cond / q + e_T
    ck.hit("quantile_points", x.size)
    ck.hit("re_pairs" if key.startswith("re:") else "cl_pairs")
    bad = ~(np.abs(y - yt) <= tol)
    if np.any(bad):
        j = int(np.argmax(np.where(bad, np.abs(y - yt) / np.maximum(tol, 1e-300), 0)))
        ck.violation(f"{key}:quantile" + sp.get("keysuffix", ""),
                     f"{key}: transform(Phi^-1(p)) differs from the quantile of the documented "
                     "distribution", x=float(x[j]), p=float(p[j]), observed=float(y[j]),
                     expected=float(yt[j]), tol=float(tol[j]), n_bad=int(bad.sum()), desc=desc)
        return
    # location/scale families: compare on the standardised scale, i.e. relative to the *width* of the
    # target (a relative tolerance on the raw output is blind to width errors of narrow targets)
    tol_mono = tol
    if sp.get("stdz") is not None:
        z = sp["stdz"]
        with np.errstate(all="ignore"):
            u, ref, tz = z["obs"](y), z["ref"](x), z["tol"](x)
        ck.hit("width_points", x.size)
        badz = ~(np.abs(u - ref) <= tz)
        if np.any(badz):
            j = int(np.argmax(np.where(badz, np.abs(u - ref) / np.maximum(tz, 1e-300), 0)))
            ck.violation(f"{key}:width", f"{key}: standardised output (y - location)/width differs from the "
                         "standardised quantile of the documented distribution", x=float(x[j]),
                         observed=float(np.ravel(u)[j]), expected=float(np.ravel(ref)[j]),
                         tol=float(np.ravel(tz + 0 * u)[j]), n_bad=int(badz.sum()), desc=desc)
            return
        tol_mono = np.minimum(tol, z["back"](tz) + 0 * tol)
    # per-element parameters: every grid point has its own target distribution
    perelem = any(np.ndim(v) > 0 for v in list(dist.args) + list(dist.kwds.values()))
    ck.hit("perelement_pairs" if perelem else "monotone_checks")
    # non-decreasing up to the float resolution of the output (a few ulps; for tables the rounding
    # noise of the tabulated values that the interpolation passes through)
    if out == "log":
        slack = 8 * EPS * (1 + np.abs(yt)) + noise_T
    elif sp.get("interp") and sp["interp"]["space"] == "log":
        slack = 8 * EPS * (np.abs(yt) + sp.get("abs_scale", 0.0)) + (np.abs(q) + abs(sp.get("loc", 0.0))) * noise_T
    elif sp.get("interp"):
        slack = 8 * EPS * (np.abs(yt) + sp.get("abs_scale", 0.0)) + noise_T * sp["interp"]["post_scale"]
    else:
        slack = 8 * EPS * (np.abs(yt) + sp.get("abs_scale", 0.0))
    slack = np.minimum(slack + 0 * tol, tol)
    if not perelem and np.any(np.diff(y) < -(slack[1:] + slack[:-1])):
        j = int(np.argmin(np.diff(y) + (slack[1:] + slack[:-1])))
        ck.violation(f"{key}:monotone", f"{key} is not monotone non-decreasing",
                     x=[float(x[j]), float(x[j + 1])], y=[float(y[j]), float(y[j + 1])], desc=desc)
    # strict monotonicity where the oracle separates neighbours by more than the tolerances
    sep = np.diff(yt) > 4 * (tol_mono[1:] + tol_mono[:-1])
    if not perelem and np.any(sep & ~(np.diff(y) > 0)):
        ck.violation(f"{key}:monotone", f"{key} is not strictly increasing where it must be", desc=desc)
    # inverse
    if sp.get("inv") is not None:
        xb = np.asarray(sp["inv"](y), float).reshape(-1)
        cb = sp["inv_cond"](x, y)                 # conditioning bound of the round trip
        okp = (np.abs(x) <= 5.0) & (cb <= 1e-9)
        ck.hit("inverse_points", int(okp.sum()))
        tolx = 1e-8 * (1 + np.abs(x))
        if sp.get("inv_slope") is not None:       # interpolated both ways: 2 interpolation errors / slope
            tolx = tolx + 2.5 * e_T / np.maximum(sp["inv_slope"](x), 1e-300)
        badi = okp & ~(np.abs(xb - x) <= tolx)
        if np.any(badi):
            j = int(np.argmax(np.where(badi, np.abs(xb - x), 0)))
            ck.violation(f"{key}:inverse", f"{key}: inverse(transform(x)) != x", x=float(x[j]),
                         back=float(xb[j]), desc=desc)
    # Jacobian (classic operators)
    if sp.get("jac") is not None:
        dj = np.asarray(sp["jac"](x), float).reshape(-1)
        with np.errstate(divide="ignore", invalid="ignore", over="ignore"):
            dtrue = phi(x) / pdf
            if out == "log":
                dtrue = dtrue / q
                tolj = 1e-7 * np.abs(dtrue) + e_Tp + np.abs(dtrue) * 0 + 1e-300
            elif sp.get("interp") and sp["interp"]["space"] == "log":
                qq = np.abs(q) + abs(sp.get("loc", 0.0))
                tolj = np.abs(dtrue) * (1e-7 + np.expm1(np.minimum(e_T, 50.0))) + qq * e_Tp
            elif sp.get("interp"):
                tolj = 1e-7 * np.abs(dtrue) + e_Tp * sp["interp"]["post_scale"]
            else:
                # closed-form Jacobians through Phi(x): conditioning of 1/(1-p) like terms
                # (+ rounding of q - loc inside the oracle's pdf for |loc| >> scale)
                tolj = np.abs(dtrue) * (1e-8 + 8 * EPS / np.maximum(np.minimum(p, 1 - p), 1e-300)
                                        + 16 * EPS * sp.get("loc_over_scale", 0.0))
        sel = (np.abs(x) <= 5.0) & np.isfinite(dtrue) & np.isfinite(tolj)
        ck.hit("jacobian_points", int(sel.sum()))
        badj = sel & ~(np.abs(dj - dtrue) <= tolj)
        if np.any(badj):
            j = int(np.argmax(np.where(badj, np.abs(dj - dtrue) / np.maximum(tolj, 1e-300), 0)))
            ck.violation(f"{key}:jacobian", f"{key}: Jacobian differs from the derivative of the "
                         "quantile map phi(x)/pdf(q)", x=float(x[j]), observed=float(dj[j]),
                         expected=float(dtrue[j]), tol=float(tolj[j]), desc=desc)


# ------------------------------------------------------------------------ builders
def stdz_normal(mean, std):
    return dict(obs=lambda y: (y - mean) / std, ref=lambda x: x,
                tol=lambda x: 1e-9 * np.abs(x) + 16 * EPS * (np.abs(mean) / std + np.abs(x) + 1),
                back=lambda tz: tz * std)


def stdz_lognormal(lm, ls):
    med = np.exp(lm)
    return dict(obs=lambda y: y / med - 1.0, ref=lambda x: np.expm1(ls * x),
                tol=lambda x: (1e-9 * np.abs(np.expm1(ls * x))
                               + 16 * EPS * (1 + np.abs(lm) + np.abs(ls * x)) * (1 + np.abs(np.expm1(ls * x)))),
                back=lambda tz: tz * med)


def stdz_uniform(a, b):
    a, b = np.asarray(a, float), np.asarray(b, float)
    w = b - a
    return dict(obs=lambda y: (y - a) / w, ref=lambda x: ndtr(x),
                tol=lambda x: 1e-9 + 16 * EPS * ((np.abs(a) + np.abs(b)) / w + 1) + 0 * x,
                back=lambda tz: tz * w)


def corner(rng):
    """extreme-but-valid parameter corner (about a third of the cases)"""
    return rng.random() < 0.33


def lu_ratio(rng, size=None):
    """sigma/mean of a log-normal: half of the draws sweep down to 1e-10"""
    if rng.random() < 0.5:
        v = 10.0 ** rng.uniform(-10.0, -2.0, size)
        return float(f"{v:.4g}") if size is None else np.array([float(f"{t:.4g}") for t in v])
    return lu(rng, 1e-2, 3.0, size)


def parshape(rng):
    """scalar or per-element (G,) parameters"""
    return None if rng.random() < 0.6 else G


def re_eval(S, call, x, via):
    """evaluate a nifty.re transform on the grid through different public routes"""
    jnp, jft = S["jnp"], S["jft"]
    if via == "vector":
        v = jft.Vector({"a": jnp.asarray(x[:G // 2]), "b": jnp.asarray(x[G // 2:])})
        r = call(v)
        return np.concatenate([np.asarray(r.tree["a"]), np.asarray(r.tree["b"])])
    return np.asarray(call(jnp.asarray(x)))


def b_re_normal(S, rng):
    from scipy import stats
    sd, jft, jnp = S["sd"], S["jft"], S["jnp"]
    n = parshape(rng)
    mean = np.round(rng.standard_normal(n) * lu(rng, 1e-2, 1e2), 4) if n else float(np.round(rng.standard_normal() * lu(rng, 1e-2, 1e2), 4))
    cor = corner(rng)
    std = lu(rng, 1e-8, 1e8, n) if cor else lu(rng, 1e-3, 1e3, n)
    via = ["fn", "model", "model_named"][int(rng.integers(0, 3))]
    m_, s_ = (jnp.asarray(mean), jnp.asarray(std)) if n else (mean, std)
    if via == "fn":
        call = sd.normal_prior(m_, s_)
        fn = lambda x: np.asarray(call(jnp.asarray(x)))
    elif via == "model":
        mdl = jft.NormalPrior(m_, s_, shape=(G,))
        fn = lambda x: np.asarray(mdl(jnp.asarray(x)))
    else:
        mdl = jft.NormalPrior(m_, s_, name="k", shape=(G,))
        fn = lambda x: np.asarray(mdl({"k": jnp.asarray(x)}))
    inv = sd.normal_invprior(m_, s_)
    return dict(key="re:normal_prior", fn=fn, dist=stats.norm(mean, std), mode="exact",
                abs_scale=np.abs(mean), inv=lambda y: np.asarray(inv(jnp.asarray(y))),
                inv_cond=lambda x, y: 8 * EPS * (np.abs(mean) / std + 1 + np.abs(x)),
                stdz=stdz_normal(mean, std),
                desc=dict(t="re:normal", via=via, corner=bool(cor), mean=np.ravel(mean)[:2].tolist(), std=np.ravel(std)[:2].tolist(), arr=bool(n)),
                default=False)


def b_re_lognormal(S, rng):
    from scipy import stats
    sd, jft, jnp = S["sd"], S["jft"], S["jnp"]
    n = parshape(rng)
    mean = lu(rng, 1e-6, 1e6, n) if corner(rng) else lu(rng, 1e-3, 1e3, n)
    std = mean * lu_ratio(rng, n)
    std = np.array([float(f"{t:.4g}") for t in std]) if n else float(f"{std:.4g}")
    ls = np.sqrt(np.log1p((std / mean) ** 2))
    lm = np.log(mean) - 0.5 * ls ** 2
    via = ["fn", "model_named", "vector"][int(rng.integers(0, 3))]
    if n and via == "vector":
        via = "fn"
    m_, s_ = (jnp.asarray(mean), jnp.asarray(std)) if n else (mean, std)
    if via == "model_named":
        mdl = jft.LogNormalPrior(m_, s_, name="k", shape=(G,))
        fn = lambda x: np.asarray(mdl({"k": jnp.asarray(x)}))
    else:
        call = sd.lognormal_prior(m_, s_)
        fn = lambda x: re_eval(S, call, x, via)
    inv = sd.lognormal_invprior(m_, s_)
    return dict(key="re:lognormal_prior", fn=fn, dist=stats.lognorm(s=ls, scale=np.exp(lm)), mode="exact",
                inv=lambda y: np.asarray(inv(jnp.asarray(y))),
                inv_cond=lambda x, y: 8 * EPS * (1 + np.abs(lm) + np.abs(np.log(np.maximum(y, 1e-300)))) / ls,
                moments=("re", mean, std), stdz=stdz_lognormal(lm, ls),
                desc=dict(t="re:lognormal", via=via, ratio=float(np.min(std / mean)), mean=np.ravel(mean)[:2].tolist(), std=np.ravel(std)[:2].tolist(), arr=bool(n)),
                default=False)


def b_re_uniform(S, rng):
    from scipy import stats
    sd, jft, jnp = S["sd"], S["jft"], S["jnp"]
    default = rng.random() < 0.12
    n = None if default else parshape(rng)
    if default:
        a, b = 0.0, 1.0
    else:
        a = np.round(rng.standard_normal(n) * lu(rng, 1e-2, 1e2), 4) if n else float(np.round(rng.standard_normal() * lu(rng, 1e-2, 1e2), 4))
        w = lu(rng, 1e-6, 1e6, n) if corner(rng) else lu(rng, 1e-3, 1e3, n)
        b = np.round(a + w, 6) if n else float(np.round(a + w, 6))      # documented: python floats
        if np.any(np.asarray(b) <= np.asarray(a)):
            b = a + w
    via = ["fn", "model_named", "vector"][int(rng.integers(0, 3))]
    if n and via == "vector":
        via = "fn"
    a_, b_ = (jnp.asarray(a), jnp.asarray(b)) if n else (a, b)
    if via == "model_named":
        mdl = jft.UniformPrior(a_, b_, name="k", shape=(G,))
        fn = lambda x: np.asarray(mdl({"k": jnp.asarray(x)}))
    else:
        call = sd.uniform_prior(a_, b_)
        fn = lambda x: re_eval(S, call, x, via)
    return dict(key="re:uniform_prior", fn=fn, dist=stats.uniform(a, np.asarray(b) - np.asarray(a)),
                mode="exact", abs_scale=np.abs(a) + np.abs(b), stdz=stdz_uniform(a, b),
                desc=dict(t="re:uniform", via=via, a=np.ravel(a)[:2].tolist(), b=np.ravel(b)[:2].tolist(), arr=bool(n)),
                default=default)


UNI_SPECIAL = [(-0.5, 0.5), (2.0, 3.0), (-1.0, 0.0), (0.1, 1.1), (0.0, 1.0), (-3.0, -2.0), (-5.0, -2.0),
               (-7.5, -7.25), (1.0, 2.0), (0.0, 2.0), (0.0, 0.5), (-1.0, 1.0), (1e6, 1e6 + 1.0), (-0.25, 0.75)]


def b_re_uniform_special(S, rng):
    """"special" bound pairs: width exactly 1 with / without offset, negative ranges, and every
    accepted type of the bounds (python float / int, numpy scalar, 0-d and (G,) arrays)"""
    from scipy import stats
    sd, jft, jnp = S["sd"], S["jft"], S["jnp"]
    if rng.random() < 0.6:
        a, b = UNI_SPECIAL[int(rng.integers(0, len(UNI_SPECIAL)))]
    else:
        a = 0.25 * float(rng.integers(-40, 41))
        b = a + [1.0, 1.0, 2.0, 0.5][int(rng.integers(0, 4))]
    typ = ["float", "float", "int", "npfloat", "array", "jnp0", "mixed"][int(rng.integers(0, 7))]
    if typ in ("int", "mixed") and not (float(a).is_integer() and float(b).is_integer()):
        typ = "float"
    if typ == "float":
        a_, b_ = float(a), float(b)
    elif typ == "int":
        a_, b_ = int(a), int(b)
    elif typ == "mixed":
        a_, b_ = float(a), int(b)
    elif typ == "npfloat":
        a_, b_ = np.float64(a), np.float64(b)
    elif typ == "jnp0":
        a_, b_ = jnp.asarray(float(a)), jnp.asarray(float(b))
    else:
        a_, b_ = jnp.full((G,), float(a)), jnp.full((G,), float(b))
    vias = ["fn", "model_named", "model"] + (["vector"] if typ in ("float", "int", "mixed", "jnp0") else [])
    via = vias[int(rng.integers(0, len(vias)))]
    if via == "model_named":
        mdl = jft.UniformPrior(a_, b_, name="k", shape=(G,))
        fn = lambda x: np.asarray(mdl({"k": jnp.asarray(x)}))
    elif via == "model":
        mdl = jft.UniformPrior(a_, b_, shape=(G,))
        fn = lambda x: np.asarray(mdl(jnp.asarray(x)))
    else:
        call = sd.uniform_prior(a_, b_)
        fn = lambda x: re_eval(S, call, x, via)
    return dict(key="re:uniform_prior", fn=fn, dist=stats.uniform(a, b - a), mode="exact",
                abs_scale=abs(a) + abs(b), stdz=stdz_uniform(a, b), default=(a == 0.0 and b == 1.0 and typ == "float"),
                desc=dict(t="re:uniform", special=True, via=via, a=a, b=b, typ=typ))


def b_re_laplace(S, rng):
    from scipy import stats
    sd, jft, jnp = S["sd"], S["jft"], S["jnp"]
    n = parshape(rng)
    al = lu(rng, 1e-8, 1e8, n) if corner(rng) else lu(rng, 1e-3, 1e3, n)
    via = ["fn", "model_named", "vector"][int(rng.integers(0, 3))]
    if n and via == "vector":
        via = "fn"
    a_ = jnp.asarray(al) if n else al
    if via == "model_named":
        mdl = jft.LaplacePrior(a_, name="k", shape=(G,))
        fn = lambda x: np.asarray(mdl({"k": jnp.asarray(x)}))
    else:
        call = sd.laplace_prior(a_)
        fn = lambda x: re_eval(S, call, x, via)
    return dict(key="re:laplace_prior", fn=fn, dist=stats.laplace(0.0, al), mode="exact",
                desc=dict(t="re:laplace", via=via, alpha=np.ravel(al)[:2].tolist(), arr=bool(n)), default=False)


def ig_g(a):
    from scipy import stats
    d = stats.invgamma(a)
    return lambda x: np.log(true_map(d, x))


def b_re_invgamma(S, rng):
    from scipy import stats
    sd, jft, jnp = S["sd"], S["jft"], S["jnp"]
    cor = corner(rng)
    a = lu(rng, 0.2, 200.0) if cor else lu(rng, 0.5, 50.0)
    step = [1e-2, 1e-2, 2e-2, 5e-2][int(rng.integers(0, 4))]
    r = rng.random()
    loc = 0.0 if r < 0.6 else (lu(rng, 1e-2, 1e2) if r < 0.93 else -lu(rng, 1e-2, 1.0))
    n = parshape(rng) if loc == 0.0 else None
    scale = lu(rng, 1e-6, 1e6, n) if cor else lu(rng, 1e-3, 1e3, n)
    via = ["fn", "model_named"][int(rng.integers(0, 2))]
    s_ = jnp.asarray(scale) if n else scale
    if via == "fn":
        call = sd.invgamma_prior(a, s_, loc, step)
        fn = lambda x: np.asarray(call(jnp.asarray(x)))
    else:
        mdl = jft.InvGammaPrior(a, s_, loc, step, name="k", shape=(G,))
        fn = lambda x: np.asarray(mdl({"k": jnp.asarray(x)}))
    sp = dict(key="re:invgamma_prior", fn=fn, dist=stats.invgamma(a, loc=loc, scale=scale), mode="viacdf",
              abs_scale=abs(loc), default=False,
              desc=dict(t="re:invgamma", via=via, a=a, scale=np.ravel(scale)[:2].tolist(), loc=loc, step=step, arr=bool(n)))
    # the table may hold log(quantile - loc) (then loc is added afterwards) or, for loc > 0,
    # log(quantile): the interpolation bound is the larger of the two, relative to |q| + |loc|
    g0 = ig_g(a)
    sp["interp"] = dict(h=step, order=2, space="log", g=g0)
    sp["loc"] = loc
    galts = [g0]
    if loc > 0:
        d = stats.invgamma(a, loc=loc, scale=scale)
        g1 = lambda x: np.log(true_map(d, x))
        sp["interp"]["g_alt"] = (g1,)
        galts.append(g1)
    if loc < 0:
        sp["keysuffix"] = ":loc<0"
    if n is None and loc >= 0:
        inv = sd.invgamma_invprior(a, scale, loc, step)
        sp["inv"] = lambda y: np.asarray(inv(jnp.asarray(y)))
        slope = lambda x: np.min(np.stack([np.abs(g(x + 1e-4) - g(x - 1e-4)) / 2e-4 for g in galts]), axis=0)
        sp["inv_slope"] = slope
        sp["inv_cond"] = lambda x, y: 64 * EPS * (1 + np.abs(np.log(np.maximum(y, 1e-300)))) / np.maximum(slope(x), 1e-300)
    return sp


def cl_field(S, x):
    ift = S["ift"]
    dom = ift.UnstructuredDomain(G)
    return dom, ift.makeField(dom, np.asarray(x, float))


def cl_apply(S, op, x):
    dom, f = cl_field(S, x)
    return op(f).asnumpy()


def cl_jac(S, op, x):
    ift = S["ift"]
    dom, f = cl_field(S, x)
    r = op(ift.Linearization.make_var(f))
    return r.jac(ift.full(dom, 1.0)).asnumpy()


def b_cl_normal(S, rng, lognormal=False):
    from scipy import stats
    ift = S["ift"]
    ncop = G if rng.random() < 0.8 else 0
    arr = ncop and rng.random() < 0.4
    if lognormal:
        mean = lu(rng, 1e-6, 1e6, G if arr else None) if corner(rng) else lu(rng, 1e-3, 1e3, G if arr else None)
        sig = mean * lu_ratio(rng, G if arr else None)
        ls = np.sqrt(np.log1p((sig / mean) ** 2))
        lm = np.log(mean) - 0.5 * ls ** 2
        op = ift.LognormalTransform(mean, sig, "k", ncop)
        dist = stats.lognorm(s=ls, scale=np.exp(lm))
        abs_scale = 0.0
        stdz = stdz_lognormal(lm, ls)
    else:
        mean = np.round(rng.standard_normal(G if arr else None) * lu(rng, 1e-2, 1e2), 4)
        mean = mean if arr else float(mean)
        sig = lu(rng, 1e-8, 1e8, G if arr else None) if corner(rng) else lu(rng, 1e-3, 1e3, G if arr else None)
        op = ift.NormalTransform(mean, sig, "k", ncop)
        dist = stats.norm(mean, sig)
        abs_scale = np.abs(mean)
        stdz = stdz_normal(mean, sig)

    def fn(x):
        if ncop == 0:
            return np.array([float(op(ift.MultiField.from_dict({"k": ift.Field.scalar(float(t))})).asnumpy())
                             for t in x])
        dom, f = cl_field(S, x)
        return op(ift.MultiField.from_dict({"k": f})).asnumpy()
    name = "LognormalTransform" if lognormal else "NormalTransform"
    sp = dict(key="cl:" + name, fn=fn, dist=dist, mode="exact", abs_scale=abs_scale, default=False, stdz=stdz,
              desc=dict(t="cl:" + name, ncop=ncop, arr=bool(arr), mean=np.ravel(mean)[:2].tolist(),
                        sig=np.ravel(sig)[:2].tolist(), ratio=float(np.min(np.asarray(sig) / np.maximum(np.abs(mean), 1e-300)))))
    if lognormal:
        sp["moments"] = ("cl", mean, sig, ncop)
    return sp


def b_cl_lognormal(S, rng):
    return b_cl_normal(S, rng, lognormal=True)


def b_cl_invgamma(S, rng, log=False):
    from scipy import stats
    ift = S["ift"]
    dom = ift.UnstructuredDomain(G)
    delta = [1e-2, 1e-2, 2e-2, 5e-2][int(rng.integers(0, 4))]
    par = "alpha_q" if (log or rng.random() < 0.6) else "mode_mean"
    qfield = False
    props = None
    if par == "alpha_q":
        cor = corner(rng)
        alpha = lu(rng, 0.2, 200.0) if cor else lu(rng, 0.5, 50.0)
        q = lu(rng, 1e-6, 1e6) if cor else lu(rng, 1e-3, 1e3)
        qfield = rng.random() < 0.3
        qv = (lu(rng, 1e-6, 1e6, G) if cor else lu(rng, 1e-3, 1e3, G)) if qfield else q
        if log:
            op = ift.LogInverseGammaOperator(dom, alpha, ift.makeField(dom, qv) if qfield else q, delta)
        else:
            op = ift.InverseGammaOperator(dom, alpha=alpha, q=ift.makeField(dom, qv) if qfield else q, delta=delta)
    else:
        mode = lu(rng, 1e-3, 1e2)
        mean = float(f"{mode * (1 + lu(rng, 0.05, 20.0)):.5g}")
        op = ift.InverseGammaOperator(dom, delta=delta, mode=mode, mean=mean)
        # documented: mode = q/(alpha+1), mean = q/(alpha-1)
        alpha = (mean + mode) / (mean - mode)
        qv = q = mode * (alpha + 1)
        props = dict(alpha=alpha, q=q, mode=mode, mean=mean)
    dist = stats.invgamma(alpha, scale=qv)
    name = "LogInverseGammaOperator" if log else "InverseGammaOperator"
    sp = dict(key="cl:" + name, fn=lambda x: cl_apply(S, op, x), dist=dist, mode="viacdf", default=False,
              out="log" if log else "lin", jac=lambda x: cl_jac(S, op, x),
              interp=dict(h=delta, order=4, space="log" if not log else "id", post_scale=1.0, g=ig_g(alpha)),
              desc=dict(t="cl:" + name, par=par, alpha=float(f"{alpha:.6g}"), q=np.ravel(qv)[:2].tolist(),
                        delta=delta, qfield=qfield))
    if not log:
        if props is None and not qfield:
            props = dict(alpha=alpha, q=q, mode=q / (alpha + 1))
            if alpha > 1:
                props["mean"] = q / (alpha - 1)
            if alpha > 2:
                props["var"] = float(stats.invgamma(alpha, scale=q).var())
        sp["props"] = (op, props)
    return sp


def b_cl_loginvgamma(S, rng):
    return b_cl_invgamma(S, rng, log=True)


def b_cl_gamma(S, rng):
    from scipy import stats
    ift = S["ift"]
    dom = ift.UnstructuredDomain(G)
    delta = [1e-2, 1e-2, 2e-2, 5e-2][int(rng.integers(0, 4))]
    par = ["alpha_beta", "alpha_theta", "mean_var", "alpha_thetafield"][int(rng.integers(0, 4))]
    cor = corner(rng)
    alpha = lu(rng, 0.2, 200.0) if cor else lu(rng, 0.5, 50.0)
    theta = lu(rng, 1e-6, 1e6) if cor else lu(rng, 1e-3, 1e3)
    thv = theta
    if par == "alpha_beta":
        beta = float(f"{1.0 / theta:.5g}")
        theta = thv = 1.0 / beta
        op = ift.GammaOperator(dom, alpha=alpha, beta=beta, delta=delta)
    elif par == "alpha_theta":
        op = ift.GammaOperator(dom, alpha=alpha, theta=theta, delta=delta)
    elif par == "alpha_thetafield":
        thv = lu(rng, 1e-3, 1e3, G)
        op = ift.GammaOperator(dom, alpha=alpha, theta=ift.makeField(dom, thv), delta=delta)
    else:
        mean, var = alpha * theta, alpha * theta ** 2
        mean, var = float(f"{mean:.6g}"), float(f"{var:.6g}")
        theta = thv = var / mean
        alpha = mean / theta
        op = ift.GammaOperator(dom, mean=mean, var=var, delta=delta)
    d0 = stats.gamma(alpha)
    sp = dict(key="cl:GammaOperator", fn=lambda x: cl_apply(S, op, x), dist=stats.gamma(alpha, scale=thv),
              mode="viacdf", default=False, jac=lambda x: cl_jac(S, op, x),
              interp=dict(h=delta, order=4, space="id", post_scale=thv, g=lambda x: true_map(d0, x)),
              desc=dict(t="cl:GammaOperator", par=par, alpha=float(f"{alpha:.6g}"), theta=np.ravel(thv)[:2].tolist(),
                        delta=delta))
    if par != "alpha_thetafield":
        props = dict(alpha=alpha, theta=theta, beta=1.0 / theta, mean=alpha * theta, var=alpha * theta ** 2)
        if alpha >= 1:
            props["mode"] = (alpha - 1) * theta
        sp["props"] = (op, props)
    return sp


def b_cl_beta(S, rng):
    from scipy import stats
    ift = S["ift"]
    dom = ift.UnstructuredDomain(G)
    delta = [1e-2, 1e-2, 2e-2, 5e-2][int(rng.integers(0, 4))]
    a, b = (lu(rng, 0.2, 200.0), lu(rng, 0.2, 200.0)) if corner(rng) else (lu(rng, 0.5, 50.0), lu(rng, 0.5, 50.0))
    op = ift.BetaOperator(dom, a, b, delta)
    d0 = stats.beta(a, b)
    return dict(key="cl:BetaOperator", fn=lambda x: cl_apply(S, op, x), dist=d0, mode="viacdf", default=False,
                jac=lambda x: cl_jac(S, op, x), abs_scale=1.0 * 0,
                interp=dict(h=delta, order=4, space="id", post_scale=1.0, g=lambda x: true_map(d0, x)),
                desc=dict(t="cl:BetaOperator", a=a, b=b, delta=delta))


def b_cl_uniform(S, rng):
    from scipy import stats
    ift = S["ift"]
    dom = ift.UnstructuredDomain(G)
    default = rng.random() < 0.12
    special = (not default) and rng.random() < 0.3
    if default:
        loc, scale = 0.0, 1.0
    elif special:          # width exactly 1 with offset, explicit (0, 1), negative ranges, int arguments
        a, b = UNI_SPECIAL[int(rng.integers(0, len(UNI_SPECIAL)))]
        loc, scale = a, b - a
        if float(loc).is_integer() and float(scale).is_integer() and rng.random() < 0.4:
            loc, scale = int(loc), int(scale)
    else:
        loc = float(np.round(rng.standard_normal() * lu(rng, 1e-2, 1e2), 4))
        scale = lu(rng, 1e-6, 1e6) if corner(rng) else lu(rng, 1e-3, 1e3)
    op = ift.UniformOperator(dom) if default else ift.UniformOperator(dom, loc, scale)
    return dict(key="cl:UniformOperator", fn=lambda x: cl_apply(S, op, x), dist=stats.uniform(loc, scale),
                mode="viacdf", abs_scale=abs(loc) + abs(scale), default=default, stdz=stdz_uniform(loc, loc + scale),
                jac=lambda x: cl_jac(S, op, x),
                inv=lambda y: op.inverse(cl_field(S, y)[1]).asnumpy(),
                inv_cond=lambda x, y: 8 * EPS * (abs(loc) / scale + 1) / np.maximum(phi(x), 1e-300),
                desc=dict(t="cl:UniformOperator", loc=loc, scale=scale, special=bool(special)))


def b_cl_laplace(S, rng):
    from scipy import stats
    ift = S["ift"]
    dom = ift.UnstructuredDomain(G)
    default = rng.random() < 0.12
    loc, scale = (0.0, 1.0) if default else (float(np.round(rng.standard_normal() * lu(rng, 1e-2, 1e2), 4)),
                                              lu(rng, 1e-8, 1e8) if corner(rng) else lu(rng, 1e-3, 1e3))
    op = ift.LaplaceOperator(dom) if default else ift.LaplaceOperator(dom, loc, scale)
    return dict(key="cl:LaplaceOperator", fn=lambda x: cl_apply(S, op, x), dist=stats.laplace(loc, scale),
                mode="viacdf", abs_scale=abs(loc), default=default, jac=lambda x: cl_jac(S, op, x),
                loc_over_scale=abs(loc) / scale,
                inv=lambda y: op.inverse(cl_field(S, y)[1]).asnumpy(),
                inv_cond=lambda x, y: (8 * EPS * (abs(loc) / scale + 1 + np.abs(y - loc) / scale)
                                       * np.minimum(ndtr(x), ndtr(-x)) + 8 * EPS * (x > 0)) / np.maximum(phi(x), 1e-300),
                desc=dict(t="cl:LaplaceOperator", loc=loc, scale=scale))


BUILDERS = [b_re_normal, b_re_lognormal, b_re_uniform, b_re_laplace, b_re_invgamma, b_re_invgamma,
            b_cl_normal, b_cl_lognormal, b_cl_invgamma, b_cl_invgamma, b_cl_gamma, b_cl_loginvgamma,
            b_cl_beta, b_cl_uniform, b_cl_laplace, b_re_uniform_special, b_cl_lognormal, b_re_lognormal]


# ----------------------------------------------------------------- moments / props
def check_moments(ck, S, sp):
    m = sp["moments"]
    if m[0] == "re":
        _, mean, std = m
        jnp = S["jnp"]
        lm, ls = S["sd"].lognormal_moments(jnp.asarray(mean), jnp.asarray(std))
    else:
        _, mean, std, ncop = m
        from nifty.cl.utilities import lognormal_moments
        lm, ls = lognormal_moments(mean, std, ncop)
    lm, ls = np.asarray(lm, float), np.asarray(ls, float)
    # closed form: E = exp(mu + s^2/2), Var = (exp(s^2)-1) exp(2mu+s^2)
    em = np.exp(lm + 0.5 * ls ** 2)
    es = np.sqrt(np.expm1(ls ** 2)) * em
    ck.hit("moment_checks")
    if not (np.all(np.abs(em - mean) <= 1e-9 * np.abs(mean)) and np.all(np.abs(es - std) <= 1e-9 * np.abs(std))):
        ck.violation(f"{sp['key']}:moments", "lognormal_moments: mean/std of the log-normal differ from "
                     "the requested ones", requested=[np.ravel(mean)[:2].tolist(), np.ravel(std)[:2].tolist()],
                     got=[np.ravel(em)[:2].tolist(), np.ravel(es)[:2].tolist()], desc=sp["desc"])


def check_props(ck, sp):
    op, props = sp["props"]
    if not props:
        return
    for k, v in props.items():
        ck.hit("property_checks")
        got = getattr(op, k)
        if not abs(float(got) - v) <= 1e-9 * abs(v):
            ck.violation(f"{sp['key']}:property:{k}", f"{sp['key']}.{k} differs from the documented "
                         "relation between the parameters", got=float(got), expected=float(v), desc=sp["desc"])


def case(ck, i):
    S = ck.state
    rng = ck.rng()
    b = BUILDERS[i % len(BUILDERS)]
    sp = b(S, rng)
    x = grid(rng)
    judge(ck, sp, x)
    if sp.get("moments") is not None:
        check_moments(ck, S, sp)
    if sp.get("props") is not None:
        check_props(ck, sp)
    ck.note(sp["desc"], nontrivial=not sp.get("default", False), klass=sp["key"])
