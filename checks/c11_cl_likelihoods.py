"""C11 — Classic likelihood energies are negative log-pdfs with Fisher metrics.

Observed (real code): value, gradient and densely probed metric of
``E(Linearization.make_var(theta, want_metric=True))``; ``get_transformation()`` -> dtype and f,
dense Jacobian of f at theta; ``get_metric_at(theta)``.

Oracle (no NIFTy code): scipy.stats log-pdfs (value up to theta-independent constants),
hand-written closed-form scores (self-tested against finite differences of the scipy log-pdf at
worker start) and closed-form Fisher matrices (self-tested by scipy quadrature / exact sums of
score^2 at worker start), pulled through generated models with analytic Jacobians; exact
expectations over data of the *library's own* gradient outer product (exact sums for Poisson /
Bernoulli / categorical, linearity in the residual for Gaussians) and Gauss-Hermite expectations of
the library's J_f^T J_f for the documented local transformation of
VariableCovarianceGaussianEnergy.
"""
import numpy as np

from vf import clsolve as cs

META = dict(
    id="C11", level="exploration",
    title="Classic likelihood energies are negative log-pdfs with Fisher metrics",
    technique=("dense probing of metric / transformation Jacobian of the real energy operators vs "
               "scipy.stats log-pdfs, closed-form scores and Fisher matrices, exact data expectations"),
    rule=("case = likelihood family (Gaussian with none / Scaling / Diagonal / Sandwich inverse covariance, "
          "real and complex, with and without data; Poisson; Bernoulli; Student-t with scalar / field theta; "
          "inverse gamma with scalar / field alpha incl. the documented alpha = -1/2; categorical on every "
          "axis; variable-covariance Gaussian real / complex, both use_full_fisher) on 1-6 data pixels x "
          "composition (natural parameters, scaled c.E, E @ model with generated linear + pointwise models "
          "into the support, sums of 2 energies named / unnamed, StandardHamiltonian with and without "
          "ic_samp, AveragedEnergy, and the energies obtained by simplify_for_constant_input of a "
          "VariableCovarianceGaussianEnergy / a StandardHamiltonian around it with the residual key or the "
          "inverse-covariance key held constant) x 8 parameter points in the interior of the support. "
          "non-trivial: non-scalar data space and (composed / summed / scaled energy or non-identity "
          "covariance); distinct = descriptor"),
    assumptions=["InverseGammaEnergy: value is the negative log-pdf *of x* (scipy invgamma, alpha > 0) and, at the "
                 "documented alpha = -1/2 data model (beta = s^2/2, s ~ N(0, x)), of the data; the Fisher identity "
                 "is only demanded at alpha = -1/2, the pull-back identity always",
                 "categorical: Fisher information in the (unconstrained) probabilities = expected Hessian = "
                 "diag(1/p); the outer-product route is evaluated per row of the category axis",
                 "continuous families: the data expectation of score x score^T is computed in closed form; the "
                 "closed forms are verified by scipy quadrature of the independent score at worker start; "
                 "the library's own gradient enters the expectation for Poisson / Bernoulli / categorical "
                 "(exact sums) and Gaussian (linearity in the residual)",
                 "AveragedEnergy is judged by the composition rules (mean of values / gradients / metrics); its "
                 "get_transformation is judged by the pull-back identity as for every energy that provides one",
                 "specialised energies (simplify_for_constant_input): the result is a sum with a constant summand "
                 "that offers no transformation; the summands are reached through the sum's _ops list and each "
                 "summand's pull-back is compared with its own metric and with the Fisher information",
                 "tolerance 1e-9 norm-wise; Poisson sums are truncated where the tail mass is < 1e-15"],
    need=["value_constancy_checks", "gradient_checks", "metric_vs_fisher", "pullback_checks",
          "specialised_energy_cases", "specialised_pullback_checks",
          "metric_at_checks", "library_score_expectations", "vcge_transformation_expectations",
          "composition_checks"],
    quick=dict(cases=360, workers=6, budget_s=80),
    thorough=dict(cases=16000, workers=16, budget_s=700),
    design_ref="DESIGN.md §5 C11",
    level_text=("generated likelihood configurations and parameter points; every value / gradient / metric / "
                "transformation of the real operators compared with independent closed forms; exploration"),
    level_note=("trusts scipy.stats / scipy.integrate and the hand-derived closed forms (self-tested at worker "
                "start); data spaces <= 6 pixels, parameter spaces <= 8; JAX is not used (import cost) — "
                "model Jacobians are analytic"),
)


# =============================================================== utilities ===
def close(a, b, tol=1e-9):
    a, b = np.asarray(a, dtype=np.float64), np.asarray(b, dtype=np.float64)
    if a.shape != b.shape:
        return False, float("inf")
    if a.size == 0:
        return True, 0.0
    if not (np.all(np.isfinite(a)) and np.all(np.isfinite(b))):
        return False, float("nan")
    sc = max(np.max(np.abs(a)), np.max(np.abs(b)), 1e-300)
    dev = float(np.max(np.abs(a - b)) / sc)
    return dev <= tol, dev


def cmat_to_real(M):
    M = np.asarray(M, dtype=np.complex128)
    return np.block([[M.real, -M.imag], [M.imag, M.real]])


def gen_data_dom(ift, rng, maxsize=6, twod=False):
    for _ in range(30):
        t = int(rng.integers(0, 4))
        if twod:
            t = 2 + int(rng.integers(0, 2))
        if t == 0:
            n = int(rng.integers(1, maxsize + 1))
            dom, d = ift.UnstructuredDomain(n), ["U", n]
        elif t == 1:
            n = int(rng.integers(1, maxsize + 1))
            dom, d = ift.RGSpace(n, distances=0.4), ["RG", n]
        elif t == 2:
            a, b = int(rng.integers(1, 4)), int(rng.integers(1, 4))
            dom, d = ift.RGSpace((a, b)), ["RG2", a, b]
        else:
            a, b = int(rng.integers(1, 4)), int(rng.integers(1, 4))
            dom, d = (ift.UnstructuredDomain(a), ift.RGSpace(b)), ["UxRG", a, b]
        dom = ift.DomainTuple.make(dom)
        if dom.size <= maxsize:
            return dom, d
    return ift.DomainTuple.make(ift.UnstructuredDomain(2)), ["U", 2]


# ================================================================= families ===
# Each family object provides (natural parameters f, real representation v):
#   op        NIFTy energy operator              lay      Layout of its domain
#   gen(rng)  a parameter point                  logp(v)  scipy log-pdf of the data (or of x, see IG)
#   score(v)  closed-form gradient of -log p     fisher(v) closed-form Fisher matrix
#   claim_fisher   metric must equal fisher      pull     "exact" | "expect"
#   support   "real" | "pos" | "unit" | None     (what a composed model must map into)

class Fam:
    claim_fisher = True
    pull = "exact"
    support = "real"
    cplx = False
    trivial_cov = True


class Gauss(Fam):
    def __init__(self, ck, rng, dom=None, dd=None, cplx=None, kinds=None):
        ift = ck.state["ift"]
        DenseOp, DenseLin = ck.state["DenseOp"], ck.state["DenseLin"]
        if dom is None:
            dom, dd = gen_data_dom(ift, rng)
        n = dom.size
        self.cplx = cplx = bool(rng.integers(0, 3) == 0) if cplx is None else cplx
        dt = np.complex128 if cplx else np.float64
        kind = str(rng.choice(kinds or ["none", "scaling", "diag", "diag_view", "scaling_view",
                                        "sand_sq", "sand_rect", "sand_diagbun"]))
        withdata = bool(rng.integers(0, 5) != 0)

        def rnd(shape):
            a = rng.standard_normal(shape)
            return a + 1j * rng.standard_normal(shape) if cplx else a

        def leaf(d, sdt):
            """cheese / plain inverse covariance on domain d"""
            if rng.integers(0, 2):
                s = float(np.round(np.exp(rng.uniform(-1, 1)), 3))
                return ift.ScalingOperator(d, s, sampling_dtype=sdt), np.eye(d.size) * s
            v = np.round(np.exp(rng.uniform(-1, 1, d.shape)), 3)
            return ift.DiagonalOperator(ift.makeField(d, v), sampling_dtype=sdt), np.diag(v.reshape(-1))
        sdt = dt
        if kind == "none":
            icov, Ninv = None, np.eye(n)
        elif kind == "scaling":
            s = float(np.round(np.exp(rng.uniform(-1, 1)), 3))
            sdt = dt if rng.integers(0, 3) else None
            icov, Ninv = ift.ScalingOperator(dom, s, sampling_dtype=sdt), np.eye(n) * s
        elif kind == "diag":
            v = np.round(np.exp(rng.uniform(-1, 1, dom.shape)), 3)
            sdt = dt if rng.integers(0, 3) else None
            icov, Ninv = ift.DiagonalOperator(ift.makeField(dom, v), sampling_dtype=sdt), np.diag(v.reshape(-1))
        elif kind in ("diag_view", "scaling_view"):
            # the usual way of passing a noise covariance N: inverse_covariance=N.inverse (and the
            # adjoint / adjoint-inverse views of a real diagonal, which are the same matrices)
            view = str(rng.choice(["inverse", "inverse", "adjoint", "adjoint_inverse"]))
            if kind == "diag_view":
                v = np.round(np.exp(rng.uniform(-1, 1, dom.shape)), 3)
                base = ift.DiagonalOperator(ift.makeField(dom, v), sampling_dtype=dt)
                w = v.reshape(-1)
            else:
                sc = float(np.round(np.exp(rng.uniform(-1, 1)), 3))
                base = ift.ScalingOperator(dom, sc, sampling_dtype=dt)
                w = np.full(n, sc)
            icov = {"inverse": base.inverse, "adjoint": base.adjoint, "adjoint_inverse": base.adjoint.inverse}[view]
            Ninv = np.diag(w if view == "adjoint" else 1.0 / w)
            kind = f"{kind}:{view}"
        else:
            if kind == "sand_sq":
                U, V = cs.rand_unitary(rng, n, cplx), cs.rand_unitary(rng, n, cplx)
                R = (U * np.exp(rng.uniform(-0.7, 0.7, n))) @ V.conj().T
                bun = DenseOp(dom, R)
                tgt = dom
            elif kind == "sand_rect":
                k = n + int(rng.integers(0, 3))
                tgt = ift.DomainTuple.make(ift.UnstructuredDomain(k))
                U, V = cs.rand_unitary(rng, k, cplx), cs.rand_unitary(rng, n, cplx)
                R = (U[:, :n] * np.exp(rng.uniform(-0.7, 0.7, n))) @ V.conj().T
                bun = DenseLin(dom, tgt, R)
            else:
                v = np.exp(rng.uniform(-0.7, 0.7, dom.shape))
                if cplx:
                    v = v * np.exp(1j * rng.uniform(0, 6.28, dom.shape))
                R = np.diag(v.reshape(-1))
                bun = ift.DiagonalOperator(ift.makeField(dom, v))
                tgt = dom
            if rng.integers(0, 3) == 0:
                icov = ift.SandwichOperator.make(bun, None, sampling_dtype=dt)
                C = np.eye(tgt.size)
            else:
                ch, C = leaf(tgt, dt)
                icov = ift.SandwichOperator.make(bun, ch)
            Ninv = R.conj().T @ C @ R
        self.trivial_cov = kind == "none"
        d = np.round(rnd(dom.shape), 3) if withdata else None
        if withdata:
            self.op = ift.GaussianEnergy(data=ift.makeField(dom, d), inverse_covariance=icov)
        elif icov is not None:
            self.op = ift.GaussianEnergy(inverse_covariance=icov)
        else:
            self.op = ift.GaussianEnergy(domain=dom, sampling_dtype=dt)
        self.dvec = np.zeros(n, dtype=dt) if d is None else d.reshape(-1).astype(dt)
        self.n, self.dom = n, dom
        self.lay = cs.Layout(dom, cplx)
        Ninv = 0.5 * (Ninv + Ninv.conj().T)
        self.NinvR = cmat_to_real(Ninv) if cplx else np.real(Ninv)
        self.NR = np.linalg.inv(self.NinvR)
        self.desc = dict(fam="Gaussian", dom=dd, cplx=cplx, icov=kind, data=withdata,
                         icov_dtype=None if sdt is None else np.dtype(sdt).name)
        self.data_dtype = dt
        self.ift = ift
        self.icov = icov

    def rr(self, z):
        return np.concatenate([z.real, z.imag]) if self.cplx else np.real(z)

    def gen(self, rng):
        return rng.standard_normal(self.lay.size) * 1.5

    def logp(self, v):
        from scipy.stats import multivariate_normal
        return float(multivariate_normal.logpdf(self.rr(self.dvec), mean=v, cov=self.NR))

    def score(self, v):
        return self.NinvR @ (v - self.rr(self.dvec))

    def fisher(self, v):
        return self.NinvR

    def with_data(self, dv):
        """same likelihood with other data (real representation dv) — library score sweeps"""
        ift = self.ift
        z = dv[:self.n] + 1j * dv[self.n:] if self.cplx else dv
        return ift.GaussianEnergy(data=ift.makeField(self.dom, z.reshape(self.dom.shape).astype(self.data_dtype)),
                                  inverse_covariance=self.icov)


class Poisson(Fam):
    support = "pos"

    def __init__(self, ck, rng):
        ift = ck.state["ift"]
        self.dom, dd = gen_data_dom(ift, rng)
        self.n = self.dom.size
        self.d = rng.poisson(rng.uniform(0.3, 6.0, self.n)).astype(np.int64)
        self.op = ift.PoissonianEnergy(ift.makeField(self.dom, self.d.reshape(self.dom.shape)))
        self.lay = cs.Layout(self.dom, False)
        self.desc = dict(fam="Poisson", dom=dd)
        self.ift = ift

    def gen(self, rng):
        return np.exp(rng.uniform(-1.2, 1.8, self.n))

    def logp(self, v):
        from scipy.stats import poisson
        return float(np.sum(poisson.logpmf(self.d, v)))

    def score(self, v):
        return 1.0 - self.d / v

    def fisher(self, v):
        return np.diag(1.0 / v)

    def with_data(self, dv):
        ift = self.ift
        return ift.PoissonianEnergy(ift.makeField(self.dom, np.asarray(dv, dtype=np.int64).reshape(self.dom.shape)))


class Bernoulli(Fam):
    support = "unit"

    def __init__(self, ck, rng):
        ift = ck.state["ift"]
        self.dom, dd = gen_data_dom(ift, rng)
        self.n = self.dom.size
        self.d = rng.integers(0, 2, self.n).astype(np.int64)
        self.op = ift.BernoulliEnergy(ift.makeField(self.dom, self.d.reshape(self.dom.shape)))
        self.lay = cs.Layout(self.dom, False)
        self.desc = dict(fam="Bernoulli", dom=dd)
        self.ift = ift

    def gen(self, rng):
        return rng.uniform(0.03, 0.97, self.n)

    def logp(self, v):
        from scipy.stats import bernoulli
        return float(np.sum(bernoulli.logpmf(self.d, v)))

    def score(self, v):
        return -self.d / v + (1 - self.d) / (1 - v)

    def fisher(self, v):
        return np.diag(1.0 / (v * (1 - v)))

    def with_data(self, dv):
        ift = self.ift
        return ift.BernoulliEnergy(ift.makeField(self.dom, np.asarray(dv, dtype=np.int64).reshape(self.dom.shape)))


class StudentT(Fam):
    def __init__(self, ck, rng):
        ift = ck.state["ift"]
        self.dom, dd = gen_data_dom(ift, rng)
        self.n = self.dom.size
        field = bool(rng.integers(0, 2))
        if field:
            th = np.round(rng.uniform(1.0, 9.0, self.n), 3)
            theta = ift.makeField(self.dom, th.reshape(self.dom.shape))
        else:
            t0 = float(np.round(rng.uniform(1.0, 9.0), 3))
            if rng.integers(0, 3) == 0:
                t0 = int(round(t0)) + 1
            th = np.full(self.n, float(t0))
            theta = t0
        self.th = th
        self.op = ift.StudentTEnergy(self.dom, theta)
        self.lay = cs.Layout(self.dom, False)
        self.desc = dict(fam="StudentT", dom=dd, theta="field" if field else type(theta).__name__)

    def gen(self, rng):
        return rng.standard_normal(self.n) * 2.0

    def logp(self, v):
        from scipy.stats import t
        return float(np.sum(t.logpdf(v, df=self.th)))

    def score(self, v):
        return (self.th + 1) * v / (self.th + v ** 2)

    def fisher(self, v):
        return np.diag((self.th + 1) / (self.th + 3))


class InvGamma(Fam):
    support = "pos"

    def __init__(self, ck, rng):
        ift = ck.state["ift"]
        self.dom, dd = gen_data_dom(ift, rng)
        self.n = self.dom.size
        mode = str(rng.choice(["default", "half", "scalar", "field"]))
        self.beta = np.round(rng.uniform(0.1, 3.0, self.n), 3)
        bF = ift.makeField(self.dom, self.beta.reshape(self.dom.shape))
        if mode == "default":
            self.alpha = np.full(self.n, -0.5)
            self.op = ift.InverseGammaEnergy(bF)
        elif mode == "half":
            self.alpha = np.full(self.n, -0.5)
            self.op = ift.InverseGammaEnergy(bF, alpha=-0.5)
        elif mode == "scalar":
            a = float(np.round(rng.uniform(0.2, 4.0), 3))
            self.alpha = np.full(self.n, a)
            self.op = ift.InverseGammaEnergy(bF, alpha=a)
        else:
            self.alpha = np.round(rng.uniform(0.2, 4.0, self.n), 3)
            self.op = ift.InverseGammaEnergy(bF, alpha=ift.makeField(self.dom, self.alpha.reshape(self.dom.shape)))
        self.half = mode in ("default", "half")
        self.claim_fisher = self.half
        self.lay = cs.Layout(self.dom, False)
        self.desc = dict(fam="InverseGamma", dom=dd, alpha=mode)

    def gen(self, rng):
        return np.exp(rng.uniform(-1.0, 1.5, self.n))

    def logp(self, v):
        from scipy.stats import invgamma, norm
        if self.half:
            # documented data model: beta = s^2/2 with s ~ N(0, x)
            return float(np.sum(norm.logpdf(np.sqrt(2 * self.beta), scale=np.sqrt(v))))
        return float(np.sum(invgamma.logpdf(v, a=self.alpha, scale=self.beta)))

    def score(self, v):
        return (self.alpha + 1) / v - self.beta / v ** 2

    def fisher(self, v):
        return np.diag((self.alpha + 1) / v ** 2)


class Categorical(Fam):
    support = None

    def __init__(self, ck, rng):
        ift = ck.state["ift"]
        twod = bool(rng.integers(0, 4) != 0)
        self.dom, dd = gen_data_dom(ift, rng, twod=twod)
        shp = self.dom.shape
        self.axis = int(rng.integers(0, len(shp)))
        if shp[self.axis] == 1 and len(shp) > 1 and shp[1 - self.axis] > 1 and rng.integers(0, 2):
            self.axis = 1 - self.axis
        self.n = self.dom.size
        K = shp[self.axis]
        idx = rng.integers(0, K, [s for a, s in enumerate(shp) if a != self.axis])
        d = np.zeros(shp, dtype=np.int64)
        np.put_along_axis(d, np.expand_dims(idx, self.axis), 1, axis=self.axis)
        self.d = d
        self.op = ift.CategoricalEnergy(ift.makeField(self.dom, d), axis=self.axis)
        self.lay = cs.Layout(self.dom, False)
        self.shp = shp
        self.desc = dict(fam="Categorical", dom=dd, axis=self.axis)
        self.ift = ift

    def gen(self, rng):
        p = rng.uniform(0.1, 1.0, self.shp)
        p = p / np.sum(p, axis=self.axis, keepdims=True)
        return p.reshape(-1)

    def logp(self, v):
        from scipy.stats import multinomial
        p = np.moveaxis(v.reshape(self.shp), self.axis, -1).reshape(-1, self.shp[self.axis])
        d = np.moveaxis(self.d, self.axis, -1).reshape(-1, self.shp[self.axis])
        if np.all(np.abs(p.sum(axis=1) - 1) < 1e-13):
            return float(sum(multinomial.logpmf(dr, n=1, p=pr) for dr, pr in zip(d, p)))
        return float(np.sum(d * np.log(p)))      # off the simplex (finite-difference self-test only)

    def score(self, v):
        return -self.d.reshape(-1) / v

    def fisher(self, v):
        return np.diag(1.0 / v)

    def with_data(self, dv):
        ift = self.ift
        return ift.CategoricalEnergy(ift.makeField(self.dom, np.asarray(dv, dtype=np.int64).reshape(self.shp)),
                                     axis=self.axis)


class VCGauss(Fam):
    support = None
    trivial_cov = False

    def __init__(self, ck, rng):
        ift = ck.state["ift"]
        self.dom, dd = gen_data_dom(ift, rng)
        self.n = n = self.dom.size
        self.cplx = cplx = bool(rng.integers(0, 2))
        self.full = bool(rng.integers(0, 2))
        # key names chosen such that both key orders occur
        self.kr, self.ki = [("res", "icov"), ("a_res", "icov")][int(rng.integers(0, 2))]
        self.op = ift.VariableCovarianceGaussianEnergy(self.dom, self.kr, self.ki,
                                                       np.complex128 if cplx else np.float64,
                                                       use_full_fisher=self.full)
        self.lay = cs.Layout(self.op.domain, {self.kr: cplx, self.ki: False})
        self.pull = "exact" if not self.full else "expect"
        self.claim_fisher = self.full
        self.desc = dict(fam="VariableCovarianceGaussian", dom=dd, cplx=cplx, full_fisher=self.full,
                         keys=[self.kr, self.ki])
        # index sets inside the real representation
        o, self.ix = 0, {}
        for k in self.lay.keys:
            s = n * (2 if self.lay.cplx[k] else 1)
            self.ix[k] = np.arange(o, o + s)
            o += s

    def split(self, v):
        r = v[self.ix[self.kr]]
        i = v[self.ix[self.ki]]
        return r, i

    def gen(self, rng):
        v = np.zeros(self.lay.size)
        i = np.exp(rng.uniform(-1, 1, self.n))
        v[self.ix[self.ki]] = i
        nr = len(self.ix[self.kr])
        v[self.ix[self.kr]] = rng.standard_normal(nr) / np.sqrt(np.tile(i, nr // self.n))
        return v

    def logp(self, v):
        from scipy.stats import norm
        r, i = self.split(v)
        ii = np.tile(i, len(r) // self.n)
        return float(np.sum(norm.logpdf(r, scale=1 / np.sqrt(ii))))

    def score(self, v):
        r, i = self.split(v)
        g = np.zeros_like(v)
        ii = np.tile(i, len(r) // self.n)
        g[self.ix[self.kr]] = ii * r
        r2 = (r ** 2).reshape(-1, self.n).sum(axis=0)
        g[self.ix[self.ki]] = 0.5 * r2 - (1.0 if self.cplx else 0.5) / i
        return g

    def fisher(self, v):
        r, i = self.split(v)
        f = np.zeros(self.lay.size)
        f[self.ix[self.kr]] = np.tile(i, len(r) // self.n)
        f[self.ix[self.ki]] = (1.0 if self.cplx else 0.5) / i ** 2
        return np.diag(f)


FAMILIES = [Gauss, Gauss, Gauss, Poisson, Bernoulli, StudentT, InvGamma, Categorical, VCGauss, VCGauss]
FAMSET = [VCGauss, Gauss, Poisson, Bernoulli, StudentT, InvGamma, Categorical, VCGauss, Gauss, VCGauss]


# ==================================================================== init ===
def selftest(ck):
    """harness self-tests of the hand-derived closed forms (scores vs finite differences of the scipy
    log-pdf; Fisher closed forms vs quadrature / exact sums of the independent score)"""
    from scipy import integrate, stats
    rng = np.random.default_rng(2024)
    for cls in (Gauss, Poisson, Bernoulli, StudentT, InvGamma, Categorical, VCGauss):
        for _ in range(3):
            fam = cls(ck, rng)
            v = fam.gen(rng)
            g = fam.score(v)
            h = 1e-6
            for j in range(len(v)):
                e = np.zeros(len(v))
                e[j] = h
                fd = -(fam.logp(v + e) - fam.logp(v - e)) / (2 * h)
                if isinstance(fam, InvGamma) and not fam.half:
                    pass
                if abs(fd - g[j]) > 1e-5 * (1 + abs(g[j])):
                    raise AssertionError(f"harness self-test: score of {cls.__name__} wrong ({fd} vs {g[j]})")
    # Fisher closed forms
    for nu in (1.3, 4.0, 8.5):
        val = integrate.quad(lambda f: stats.t.pdf(f, nu) * ((nu + 1) * f / (nu + f * f)) ** 2, -np.inf, np.inf)[0]
        assert abs(val - (nu + 1) / (nu + 3)) < 1e-7, "student-t fisher"
    for x in (0.4, 2.5):
        val = integrate.quad(lambda s: stats.norm.pdf(s, scale=np.sqrt(x)) * (0.5 / x - s * s / (2 * x * x)) ** 2,
                             -np.inf, np.inf)[0]
        assert abs(val - 0.5 / x ** 2) < 1e-7 / x ** 2, "inverse gamma fisher at alpha=-1/2"
    for ic in (0.5, 1.7):
        val = integrate.quad(lambda r: stats.norm.pdf(r, scale=1 / np.sqrt(ic)) * (0.5 * r * r - 0.5 / ic) ** 2,
                             -np.inf, np.inf)[0]
        assert abs(val - 0.5 / ic ** 2) < 1e-7 / ic ** 2, "vcg fisher real"
        # complex: |r|^2 = a^2 + b^2, a, b ~ N(0, 1/ic):  score_i = |r|^2/2 - 1/ic
        s2 = 1 / ic
        m2 = 2 * s2            # E|r|^2
        m4 = 8 * s2 ** 2       # E|r|^4 (chi^2_2 scaled)
        val = 0.25 * m4 - m2 / ic + 1 / ic ** 2
        assert abs(val - 1.0 / ic ** 2) < 1e-12 / ic ** 2, "vcg fisher complex"
    for lam in (0.3, 4.0):
        k = np.arange(0, 200)
        val = np.sum(stats.poisson.pmf(k, lam) * (1 - k / lam) ** 2)
        assert abs(val - 1 / lam) < 1e-10 / lam, "poisson fisher"


def init(ck):
    import nifty.cl as ift
    ck.state["ift"] = ift
    ck.state["DenseOp"] = cs.dense_op_class()
    ck.state["DenseLin"] = cs.dense_lin_class()
    import logging
    try:
        ift.logger.setLevel(logging.CRITICAL)
    except Exception:
        pass
    selftest(ck)


# ================================================================== models ===
class Model:
    """theta (real, n params; DomainTuple or 2-key MultiDomain) -> natural parameters of a family.
    NIFTy operator + NumPy mirror with analytic Jacobian (real representation of the output)."""

    def __init__(self, ck, rng, fam, pdom, P):
        ift = ck.state["ift"]
        DenseLin = ck.state["DenseLin"]
        self.P = P
        multi = isinstance(pdom, ift.MultiDomain)
        keys = list(pdom.keys()) if multi else None

        def lin_to(tgt, cplx=False, scale=0.6):
            """generated affine map pdom -> tgt : returns (operator, matrix A (m x P), offset c)"""
            m = tgt.size
            A = rng.standard_normal((m, P)) * scale / np.sqrt(P)
            c = rng.standard_normal(m) * 0.5
            if cplx:
                A = A + 1j * rng.standard_normal((m, P)) * scale / np.sqrt(P)
                c = c + 1j * rng.standard_normal(m) * 0.5
            A, c = np.round(A, 3), np.round(c, 3)
            if multi:
                o, op = 0, None
                for k in keys:
                    s = pdom[k].size
                    t = DenseLin(pdom[k], tgt, A[:, o:o + s]).ducktape(k)
                    op = t if op is None else op + t
                    o += s
            else:
                op = DenseLin(pdom, tgt, A)
            op = ift.Adder(ift.makeField(tgt, c.reshape(tgt.shape))) @ op
            return op, A, c
        self.kind = None
        if isinstance(fam, VCGauss):
            tgt = fam.dom
            opr, Ar, cr = lin_to(tgt, cplx=fam.cplx)
            opi, Ai, ci = lin_to(tgt, scale=0.4)
            self.op = opr.ducktape_left(fam.kr) + opi.ptw("exp").ducktape_left(fam.ki)
            self.parts = (Ar, cr, Ai, ci)
            self.fam = fam
            self.kind = "vcg"
            return
        tgt = fam.lay.dom
        op, A, c = lin_to(tgt, cplx=fam.cplx)
        self.A, self.c = A, c
        self.cplx = fam.cplx
        sup = fam.support
        if sup == "real":
            self.link = str(rng.choice(["id", "id", "tanh3", "sinh"])) if not fam.cplx else "id"
        elif sup == "pos":
            self.link = str(rng.choice(["exp", "softplus_like"]))
        elif sup == "unit":
            self.link = "sig"
        else:
            raise ValueError("no model for this family")
        if self.link == "id":
            self.op = op
        elif self.link == "tanh3":
            self.op = 3.0 * op.ptw("tanh")
        elif self.link == "sinh":
            self.op = op.ptw("sinh")
        elif self.link == "exp":
            self.op = op.ptw("exp")
        elif self.link == "softplus_like":
            self.op = ift.Adder(ift.full(tgt, 0.05)) @ (op ** 2)
        elif self.link == "sig":
            self.op = ift.Adder(ift.full(tgt, 0.5)) @ (0.45 * op.ptw("tanh"))
        self.kind = "ptw"

    def __call__(self, x):
        """returns (natural parameter vector (real rep), Jacobian (real rep))"""
        if self.kind == "vcg":
            Ar, cr, Ai, ci = self.parts
            fam = self.fam
            r = Ar @ x + cr
            i = np.exp(Ai @ x + ci)
            v = np.zeros(fam.lay.size)
            J = np.zeros((fam.lay.size, self.P))
            if fam.cplx:
                v[fam.ix[fam.kr]] = np.concatenate([r.real, r.imag])
                J[fam.ix[fam.kr]] = np.vstack([Ar.real, Ar.imag])
            else:
                v[fam.ix[fam.kr]] = r
                J[fam.ix[fam.kr]] = Ar
            v[fam.ix[fam.ki]] = i
            J[fam.ix[fam.ki]] = i[:, None] * Ai
            return v, J
        u = self.A @ x + self.c
        if self.cplx:
            return np.concatenate([u.real, u.imag]), np.vstack([self.A.real, self.A.imag])
        if self.link == "id":
            f, df = u, np.ones_like(u)
        elif self.link == "tanh3":
            f, df = 3 * np.tanh(u), 3 * (1 - np.tanh(u) ** 2)
        elif self.link == "sinh":
            f, df = np.sinh(u), np.cosh(u)
        elif self.link == "exp":
            f, df = np.exp(u), np.exp(u)
        elif self.link == "softplus_like":
            f, df = u ** 2 + 0.05, 2 * u
        else:
            f, df = 0.5 + 0.45 * np.tanh(u), 0.45 * (1 - np.tanh(u) ** 2)
        return f, df[:, None] * self.A


def gen_param_dom(ift, rng):
    if rng.integers(0, 3) == 0:
        a, b = int(rng.integers(1, 4)), int(rng.integers(1, 4))
        dom = ift.MultiDomain.make({"p": ift.UnstructuredDomain(a), "q": ift.RGSpace(b)})
        return dom, a + b, ["multi", a, b]
    P = int(rng.integers(1, 7))
    return ift.DomainTuple.make(ift.UnstructuredDomain(P)), P, ["U", P]


# =================================================================== judges ===
class Term:
    """one summand  c * E_fam(model(theta))  of a generated energy"""

    def __init__(self, fam, model, c=1.0):
        self.fam, self.model, self.c = fam, model, c

    def nat(self, x):
        if self.model is None:
            return x, np.eye(len(x))
        return self.model(x)

    def logp(self, x):
        v, _ = self.nat(x)
        return self.c * self.fam.logp(v)

    def grad(self, x):
        v, J = self.nat(x)
        return self.c * (J.T @ self.fam.score(v))

    def fisher(self, x):
        v, J = self.nat(x)
        return self.c * (J.T @ self.fam.fisher(v) @ J)


def observe(ift, op, lay, x):
    """value, gradient (real rep), dense metric (or None) of the real operator at x"""
    pos = lay.from_vec(x)
    lin = op(ift.Linearization.make_var(pos, want_metric=True))
    val = float(lin.val.asnumpy()[()])
    grad = lay.to_vec(lin.gradient, project=True)
    met = lin.metric
    M = None if met is None else cs.dense_map(lambda f: met(f), lay, lay, project=True)
    return val, grad, M, met


def trafo_layout(ift, tr_target, dtp, default_cplx):
    if isinstance(tr_target, ift.MultiDomain):
        flags = {}
        for k in tr_target.keys():
            d = dtp[k] if isinstance(dtp, dict) else dtp
            flags[k] = default_cplx if d is None else bool(np.issubdtype(np.dtype(d), np.complexfloating))
        return cs.Layout(tr_target, flags)
    d = dtp
    if isinstance(d, dict):
        d = list(d.values())[0]
    return cs.Layout(tr_target, default_cplx if d is None else bool(np.issubdtype(np.dtype(d), np.complexfloating)))


def case(ck, i):
    ift = ck.state["ift"]
    rng = ck.rng()
    comp = str(rng.choice(["natural", "natural", "scaled", "model", "model", "model_scaled", "sum", "sum", "sum",
                           "hamiltonian", "hamiltonian", "averaged", "specialised", "specialised", "bare", "bare"]))
    famcls = FAMILIES[int(rng.integers(0, len(FAMILIES)))]
    if i < len(FAMSET):
        # the first cases walk through every family in natural parameters (so that every deciding
        # monitor observes something even if the budget cuts the run short)
        famcls, comp = FAMSET[i], "natural"
    elif i < len(FAMSET) + 8:
        comp = "specialised"
    elif i < len(FAMSET) + 20:
        comp = "bare"
    if comp == "specialised":
        famcls = VCGauss
    bare = comp == "bare"
    if bare:
        # a real Gaussian with a diagonal / scaling inverse covariance (incl. inverse and adjoint views)
        # acting directly on the parameters, inside a Hamiltonian or a sum: the metric is a sum of bare
        # diagonal and scaling operators that the operator algebra folds into one
        comp = "hamiltonian" if rng.integers(0, 2) else "sum"
        fam = Gauss(ck, rng, cplx=False, kinds=["diag", "diag_view", "diag_view", "scaling_view", "scaling", "none"])
    else:
        fam = famcls(ck, rng)
    if comp != "natural" and comp != "scaled" and isinstance(fam, Categorical):
        comp = "scaled" if rng.integers(0, 2) else "natural"
    desc = dict(comp=comp, fams=[fam.desc], bare=bare)
    terms = []
    names = None
    extra_prior = 0.0
    mech = type(fam).__name__
    if comp == "natural":
        op, lay = fam.op, fam.lay
        terms = [Term(fam, None)]
        gen = fam.gen
    elif comp == "scaled":
        c = float(np.round(np.exp(rng.uniform(-1.5, 1.5)), 3))
        op, lay = c * fam.op, fam.lay
        terms = [Term(fam, None, c)]
        gen = fam.gen
        desc["c"] = c
    elif comp == "specialised":
        # likelihood energies reachable through simplify_for_constant_input: one key of a
        # VariableCovarianceGaussianEnergy (or of a StandardHamiltonian around it) is held constant
        forced = i - len(FAMSET)
        which = ["res", "icov"][forced % 2] if 0 <= forced < 8 else str(rng.choice(["res", "res", "icov"]))
        wrap = (forced % 4 >= 2) if 0 <= forced < 8 else bool(rng.integers(0, 3) == 0)
        ckey, okey = (fam.kr, fam.ki) if which == "res" else (fam.ki, fam.kr)
        v0 = fam.gen(rng)
        full0 = fam.lay.from_vec(v0)
        cfield = ift.MultiField.from_dict({ckey: full0[ckey]})
        host = fam.op
        if wrap:
            ic = ift.GradientNormController(iteration_limit=5) if rng.integers(0, 2) else None
            host = ift.StandardHamiltonian(fam.op, ic_samp=ic)
            extra_prior = 1.0
            desc["ic_samp"] = ic is not None
        out, op = host.simplify_for_constant_input(cfield)
        if out is not None:
            ck.violation("specialised:unexpected-constant-output", "simplify_for_constant_input of an energy "
                         "returned a constant output field")
        lay = cs.Layout(op.domain, {okey: fam.lay.cplx[okey]})
        sel = fam.ix[okey]
        Jsel = np.zeros((fam.lay.size, len(sel)))
        Jsel[sel, np.arange(len(sel))] = 1.0

        def embed(x, v0=v0, sel=sel, Jsel=Jsel):
            v = v0.copy()
            v[sel] = x
            return v, Jsel
        import copy
        pfam = copy.copy(fam)
        pfam.claim_fisher = True      # the specialised energies carry the exact Fisher metric ...
        pfam.pull = "exact"           # ... and a global transformation
        terms = [Term(pfam, embed)]
        if which == "res":
            gen = lambda r: np.exp(r.uniform(-1, 1, fam.n))
        else:
            gen = lambda r: r.standard_normal(len(sel)) * 1.2
        mech = f"specialised-{which}-constant" + (":StandardHamiltonian" if wrap else "")
        desc.update(constant=which, wrapped=wrap)
    else:
        pdom, P, pd = gen_param_dom(ift, rng)
        ident = False
        if bare or (comp in ("sum", "hamiltonian") and isinstance(fam, Gauss) and not fam.cplx
                    and rng.integers(0, 2) == 0):
            # likelihood acting directly on the parameters (no forward model): the metric of the
            # Hamiltonian / of the sum is then a sum of bare (diagonal, scaling, ...) operators that the
            # operator algebra simplifies
            pdom, P, pd, ident = fam.dom, fam.n, ["famdom", fam.n], True
        lay = cs.Layout(pdom, False)
        desc["pdom"] = pd
        gen = lambda r: r.standard_normal(P) * 0.8
        m1 = None if ident else Model(ck, rng, fam, pdom, P)
        desc["link"] = "none" if ident else getattr(m1, "link", m1.kind)
        if comp in ("model", "hamiltonian", "averaged"):
            op = fam.op if ident else fam.op @ m1.op
            terms = [Term(fam, m1)]
        elif comp == "model_scaled":
            c = float(np.round(np.exp(rng.uniform(-1.5, 1.5)), 3))
            op = c * (fam.op @ m1.op) if rng.integers(0, 2) else (c * fam.op) @ m1.op
            terms = [Term(fam, m1, c)]
            desc["c"] = c
        else:   # sum of two to four likelihoods on the same parameter space, in every parenthesisation
            nt = int(rng.choice([2, 2, 3, 4]))
            es = [fam.op if ident else fam.op @ m1.op]
            terms = [Term(fam, m1)]
            for _ in range(nt - 1):
                for _ in range(20):
                    fam2 = FAMILIES[int(rng.integers(0, len(FAMILIES)))](ck, rng)
                    if not isinstance(fam2, Categorical):
                        break
                if ident and (bare or rng.integers(0, 2)):
                    # a second bare Gaussian measurement of the same parameters
                    fam2 = Gauss(ck, rng, dom=fam.dom, dd=fam.desc["dom"], cplx=False,
                                 kinds=["none", "scaling", "diag", "diag_view", "scaling_view"] if bare else None)
                if ident and isinstance(fam2, Gauss) and not fam2.cplx and fam2.dom == fam.dom:
                    m2, e2 = None, fam2.op
                else:
                    m2 = Model(ck, rng, fam2, pdom, P)
                    e2 = fam2.op @ m2.op
                desc["fams"].append(fam2.desc)
                c2 = 1.0
                if rng.integers(0, 3) == 0:
                    c2 = float(np.round(np.exp(rng.uniform(-1, 1)), 3))
                    e2 = c2 * e2
                es.append(e2)
                terms.append(Term(fam2, m2, c2))
            named = int(rng.integers(0, 3))
            if named >= 1:
                es[0].name = "lh_one"
            if named == 2:
                es[1].name = "two"
            desc["named"] = named
            tree = []
            while len(es) > 1:
                j = int(rng.integers(0, len(es) - 1))
                tree.append(j)
                es[j:j + 2] = [es[j] + es[j + 1]]
            desc["tree"] = tree
            op = es[0]
            mech = "sum" + (":bare" if bare else "")
        if comp == "hamiltonian":
            ic = None
            if rng.integers(0, 2):
                ic = ift.GradientNormController(iteration_limit=5)
            psd = np.float64 if (rng.integers(0, 2) or (bare and rng.integers(0, 2))) else None
            op = ift.StandardHamiltonian(op, ic_samp=ic, prior_sampling_dtype=psd)
            extra_prior = 1.0
            desc["ic_samp"] = ic is not None
            desc["prior_sampling_dtype"] = None if psd is None else "float64"
            mech = "StandardHamiltonian" + (":bare" if bare else "")
        if comp == "averaged":
            ns = int(rng.integers(1, 4))
            shifts = [np.round(rng.standard_normal(P) * 0.3, 3) for _ in range(ns)]
            if rng.integers(0, 2):
                shifts = shifts + [-s for s in shifts]
            op = ift.AveragedEnergy(op, [lay.from_vec(s) for s in shifts])
            desc["nsamples"] = len(shifts)
            mech = "AveragedEnergy"
    shifts = shifts if comp == "averaged" else [None]

    def ref_logp(x):
        return float(np.mean([sum(t.logp(x if s is None else x + s) for t in terms) for s in shifts])
                     - 0.5 * extra_prior * (x @ x))

    def ref_grad(x):
        return np.mean([sum(t.grad(x if s is None else x + s) for t in terms) for s in shifts], axis=0) \
            + extra_prior * x

    def ref_fisher(x):
        return np.mean([sum(t.fisher(x if s is None else x + s) for t in terms) for s in shifts], axis=0) \
            + extra_prior * np.eye(len(x))
    claim_fisher = all(t.fam.claim_fisher for t in terms)
    seen = set()

    def viol(key, what, **w):
        if key in seen:
            return
        seen.add(key)
        ck.violation(key, what, **w)

    # ---------------------------------------------- 8 parameter points, fixed data
    npts = 8
    xs = [gen(rng) for _ in range(npts)]
    consts, mags = [], []
    has_trafo = None
    for k, x in enumerate(xs):
        val, grad, M, met = observe(ift, op, lay, x)
        lp = ref_logp(x)
        consts.append(val + lp)
        mags.append(abs(val) + abs(lp))
        # (b) gradient
        ck.hit("gradient_checks")
        ok, dev = close(grad, ref_grad(x))
        if not ok:
            viol(f"gradient:{mech}", "gradient differs from the closed-form score of the reference "
                 "negative log-pdf", rel_dev=dev, point=k)
        if comp != "natural":
            ck.hit("composition_checks")
        # (c) metric = Fisher
        if M is None:
            viol(f"no-metric:{mech}", "want_metric=True did not produce a metric")
            continue
        F = ref_fisher(x)
        if np.max(np.abs(M - M.T)) > 1e-9 * max(np.max(np.abs(M)), 1e-300):
            viol(f"metric-not-symmetric:{mech}", "dense metric is not symmetric")
        if claim_fisher:
            ck.hit("metric_vs_fisher")
            ok, dev = close(M, F)
            if not ok:
                viol(f"metric-vs-fisher:{mech}", "metric differs from the Fisher information of the reference "
                     "distribution (pulled back through the model)", rel_dev=dev, point=k,
                     got_diag=np.round(np.diagonal(M)[:6], 6).tolist(),
                     exp_diag=np.round(np.diagonal(F)[:6], 6).tolist())
        # (d) transformation
        if k < 3 and has_trafo is not False:
            try:
                tr = op.get_transformation()
                has_trafo = tr is not None
            except (NotImplementedError, AttributeError):
                has_trafo = False
                tr = None
            if tr is not None:
                dtp, f = tr
                pos = lay.from_vec(x)
                jac = f(ift.Linearization.make_var(pos)).jac
                lout = trafo_layout(ift, f.target, dtp, any(t.fam.cplx for t in terms))
                Jf = cs.dense_map(lambda v: jac(v), lay, lout)
                PB = Jf.T @ Jf
                exact = all(t.fam.pull == "exact" for t in terms)
                if exact:
                    ck.hit("pullback_checks")
                    ok, dev = close(PB, M)
                    if not ok:
                        viol(f"transformation-pullback:{mech}", "J_f^T J_f of get_transformation() differs "
                             "from the metric", rel_dev=dev, point=k,
                             got_diag=np.round(np.diagonal(PB)[:6], 6).tolist(),
                             exp_diag=np.round(np.diagonal(M)[:6], 6).tolist())
                # get_metric_at must be the pull-back of its own transformation
                try:
                    Mat = cs.dense_map(lambda v: op.get_metric_at(pos)(v), lay, lay, project=True)
                    ck.hit("metric_at_checks")
                    ok, dev = close(Mat, PB)
                    if not ok:
                        viol(f"get-metric-at:{mech}", "get_metric_at differs from J_f^T J_f", rel_dev=dev)
                except (NotImplementedError, AttributeError):
                    pass
    # specialised energies are sums with a constant summand (no transformation of the sum): every summand
    # that provides a transformation must pull the identity back to *its own* metric
    if comp == "specialised":
        lhs = op.likelihood_energy if isinstance(op, ift.StandardHamiltonian) else op
        subs = list(getattr(lhs, "_ops", [lhs]))
        x = xs[0]
        pos = lay.from_vec(x)
        for sub in subs:
            try:
                tr = sub.get_transformation()
            except (NotImplementedError, AttributeError):
                continue
            if tr is None:
                continue
            dtp, f = tr
            jac = f(ift.Linearization.make_var(pos)).jac
            lout = trafo_layout(ift, f.target, dtp, bool(fam.lay.cplx[okey]))
            Jf = cs.dense_map(lambda v: jac(v), lay, lout)
            Msub = observe(ift, sub, lay, x)[2]
            ck.hit("pullback_checks")
            ck.hit("specialised_pullback_checks")
            ok, dev = close(Jf.T @ Jf, Msub)
            if not ok:
                viol(f"transformation-pullback:{mech}", "J_f^T J_f of the specialised summand's "
                     "get_transformation() differs from its metric", rel_dev=dev,
                     got_diag=np.round(np.diagonal(Jf.T @ Jf)[:6], 6).tolist(),
                     exp_diag=np.round(np.diagonal(Msub)[:6], 6).tolist())
            # ... and to the Fisher information of the reference distribution
            Fx = ref_fisher(x) - extra_prior * np.eye(len(x))
            ok, dev = close(Jf.T @ Jf, Fx)
            if not ok:
                viol(f"transformation-vs-fisher:{mech}", "pull-back through the specialised energy's "
                     "transformation differs from the Fisher information", rel_dev=dev,
                     got_diag=np.round(np.diagonal(Jf.T @ Jf)[:6], 6).tolist(),
                     exp_diag=np.round(np.diagonal(Fx)[:6], 6).tolist())
        ck.hit("specialised_energy_cases")
    # (a) value = -log p up to a theta-independent constant
    ck.hit("value_constancy_checks")
    spread = max(consts) - min(consts)
    if not (spread <= 1e-9 * max(max(mags), 1.0)):
        viol(f"value-not-neg-log-pdf:{mech}", "E(theta; d) + log p_ref(d | theta) is not constant in theta",
             spread=spread, values=[float(c) for c in consts[:4]])

    # ---------------------------------- data expectations with the library's own score
    if comp == "natural":
        x = xs[0]
        if isinstance(fam, (Poisson, Bernoulli)):
            vmax = 1 if isinstance(fam, Bernoulli) else int(max(30, np.max(x) + 12 * np.sqrt(np.max(x)) + 20))
            from scipy.stats import poisson
            G = np.zeros((vmax + 1, fam.n))
            for v in range(vmax + 1):
                _, g, _, _ = observe(ift, fam.with_data(np.full(fam.n, v)), lay, x)
                G[v] = g
            W = np.array([poisson.pmf(np.arange(vmax + 1), lam) for lam in x]).T if isinstance(fam, Poisson) \
                else np.array([1 - x, x])
            m1 = np.sum(W * G, axis=0)
            m2 = np.sum(W * G ** 2, axis=0)
            EggT = np.outer(m1, m1)
            EggT[np.diag_indices(fam.n)] = m2
            ck.hit("library_score_expectations")
            _, _, M, _ = observe(ift, op, lay, x)
            ok, dev = close(EggT, M, 1e-8)
            if not ok:
                viol(f"score-outer-product-expectation:{mech}", "exact data expectation of the library's "
                     "gradient outer product differs from its metric", rel_dev=dev)
        elif isinstance(fam, Categorical):
            K = fam.shp[fam.axis]
            p = x.reshape(fam.shp)
            G2 = np.zeros(fam.shp)
            for c in range(K):
                d = np.zeros(fam.shp, dtype=np.int64)
                idx = [slice(None)] * len(fam.shp)
                idx[fam.axis] = c
                d[tuple(idx)] = 1
                _, g, _, _ = observe(ift, fam.with_data(d), lay, x)
                g = g.reshape(fam.shp)
                # P(category c in a row) = p[c]; only entry c of the row's score is non-zero
                G2[tuple(idx)] += (p * g ** 2)[tuple(idx)]
                off = g.copy()
                off[tuple(idx)] = 0
                if np.max(np.abs(off), initial=0.0) != 0:
                    viol("score-structure:Categorical", "score has entries outside the observed category")
            ck.hit("library_score_expectations")
            _, _, M, _ = observe(ift, op, lay, x)
            ok, dev = close(np.diag(G2.reshape(-1)), M, 1e-9)
            if not ok:
                viol("score-outer-product-expectation:Categorical", "row-wise exact expectation of the "
                     "library's gradient outer product differs from its metric", rel_dev=dev)
        elif isinstance(fam, Gauss):
            # the library's score is affine in the data: g(d) = g0 - G d ; E[(g)(g)^T] = G N G^T
            n2 = lay.size
            d0 = fam.rr(fam.dvec)
            _, g0, M, _ = observe(ift, fam.with_data(x.copy()), lay, x)      # residual 0
            Gm = np.zeros((n2, n2))
            for j in range(n2):
                e = np.zeros(n2)
                e[j] = 1.0
                _, g, _, _ = observe(ift, fam.with_data(x - e), lay, x)      # residual e_j
                Gm[:, j] = g - g0
            ck.hit("library_score_expectations")
            if np.max(np.abs(g0), initial=0.0) > 1e-12 * max(np.max(np.abs(Gm)), 1e-300):
                viol("score-at-zero-residual:Gauss", "Gaussian score at zero residual is not zero")
            ok, dev = close(Gm @ fam.NR @ Gm.T, M, 1e-8)
            if not ok:
                viol("score-outer-product-expectation:Gauss", "data expectation of the library's gradient "
                     "outer product (via linearity in the residual) differs from its metric", rel_dev=dev)
        elif isinstance(fam, VCGauss):
            # documented local approximation: E_r [J_f^T J_f] = Fisher, Gauss-Hermite exact (degree 2)
            _, i0 = fam.split(x)
            z, w = np.polynomial.hermite_e.hermegauss(4)       # exact up to degree 7 (needed: 2)
            w = w / np.sum(w)
            dtp, f = fam.op.get_transformation()
            lout = trafo_layout(ift, f.target, dtp, fam.cplx)
            acc = np.zeros((lay.size, lay.size))
            accM = np.zeros((lay.size, lay.size))
            nodes = [(a, b, wa * wb) for a, wa in zip(z, w) for b, wb in zip(z, w)] if fam.cplx \
                else [(a, 0.0, wa) for a, wa in zip(z, w)]
            for a, b, ww in nodes:
                v = x.copy()
                rr = np.concatenate([a / np.sqrt(i0), b / np.sqrt(i0)]) if fam.cplx else a / np.sqrt(i0)
                v[fam.ix[fam.kr]] = rr
                pos = lay.from_vec(v)
                jac = f(ift.Linearization.make_var(pos)).jac
                Jf = cs.dense_map(lambda u: jac(u), lay, lout)
                acc += ww * (Jf.T @ Jf)
                if not fam.full:
                    accM += ww * observe(ift, fam.op, lay, v)[2]
            ck.hit("vcge_transformation_expectations")
            F = fam.fisher(x)
            ok, dev = close(acc, F)
            if not ok:
                viol(f"transformation-expectation:VariableCovarianceGaussianEnergy:{'complex' if fam.cplx else 'real'}",
                     "data expectation of J_f^T J_f of the documented local transformation differs from the "
                     "Fisher metric", rel_dev=dev, got_diag=np.round(np.diagonal(acc), 6).tolist(),
                     exp_diag=np.round(np.diagonal(F), 6).tolist())
            if not fam.full:
                ok, dev = close(accM, F)
                if not ok:
                    viol(f"metric-expectation:VariableCovarianceGaussianEnergy:approx:{'complex' if fam.cplx else 'real'}",
                         "data expectation of the use_full_fisher=False metric differs from the Fisher metric",
                         rel_dev=dev, got_diag=np.round(np.diagonal(accM), 6).tolist(),
                         exp_diag=np.round(np.diagonal(F), 6).tolist())
    nonscalar = all(t.fam.n > 1 for t in terms)
    nontriv = nonscalar and (comp not in ("natural",) or not fam.trivial_cov)
    ck.note(desc, nontrivial=nontriv, klass=f"{'bare-' if bare else ''}{comp}:{type(fam).__name__}")
