"""C04 — Fixing part of the input preserves value, Jacobian and metric.

For generated multi-domain operator/energy programs (vf/mirror.py) and *every*
non-empty proper subset K of input keys the check observes

    c_out, F_c = F.simplify_for_constant_input(x|K)
    F_c(x|V), F_c(Linearization) -> val, dense jac, dense jac.adjoint, dense metric
    F(Linearization.make_partial_var(x, K)) -> dense jac / metric
    EnergyAdapter(x, E, constants=K) -> position, value, gradient, metric, 3 minimiser steps

and compares with the independent jax mirror evaluated with the constants
inserted: value, the variable-key columns of the Jacobian, the variable-key
block of J^T M_lh J.  Monitors on every `_simplify_for_constant_input_nontrivial`
override and on `ConstCollector.add/mult` show which code paths were reached.
"""
import itertools
import numpy as np

META = dict(
    id="C04", level="exploration",
    title="Fixing part of the input preserves value, Jacobian and metric",
    technique="differential execution of simplify_for_constant_input / make_partial_var / "
              "EnergyAdapter(constants) against an independent jax mirror with the constants "
              "inserted; per-override hit counters",
    rule=("the C03 program generator restricted to MultiDomains with 2-4 keys (sums and products "
          "with single and MultiDomain targets incl. several summands on the same target key, "
          "linear Sum/Chain operators, chains whose first stage passes keys through, partial "
          "insertion, JaxOperator / MultiLinearEinsum / VariableCovarianceGaussianEnergy / "
          "JaxLikelihoodEnergyOperator directly on input keys, CountingOperator, likelihood "
          "chains and sums, StandardHamiltonian); every non-empty proper subset of the keys as "
          "constants. One evaluation = one (program, subset) pair. non-trivial: a class-specific "
          "override of _simplify_for_constant_input_nontrivial ran for the pair (hit counter), "
          "i.e. a constant key was consumed below the root; distinct = distinct (program, subset)"),
    assumptions=[
        "all C03 assumptions (mirror semantics, closed-form M_lh, real projection on real spaces)",
        "c_out is specified only by the assertions in Operator.simplify_for_constant_input "
        "(keys inside the constants and outside the operator domain): it must be None or empty",
        "minimiser sub-check: 3 SteepestDescent steps, all-real programs only; a minimiser that "
        "raises on a generated energy (e.g. leaves the domain of a logarithm) is counted, not "
        "judged",
        "DESIGN lists a BlockDiagonalOperator override; the pinned tree has none (overrides are "
        "discovered from the class tree at run time)"],
    need=["pairs", "value_cmp", "jac_cmp", "adjoint_cmp", "metric_cmp", "partial_var_cmp",
          "energy_adapter_cmp", "minimiser_runs", "override:_OpChain", "override:_OpSum",
          "override:_OpProd", "override:SumOperator", "override:ChainOperator",
          "override:StandardHamiltonian", "override:_LikelihoodChain",
          "override:VariableCovarianceGaussianEnergy", "override:Operator(generic)",
          "ConstCollector.add", "ConstCollector.mult", "sum_same_target_key",
          "md_target_difference_programs"],
    quick=dict(cases=240, workers=6, budget_s=75),
    thorough=dict(cases=8000, workers=16, budget_s=780),
    design_ref="DESIGN.md §5 C04",
    level_text=("random programs x all constant-key subsets, compared entry-wise against jax "
                "autodiff of an independent mirror; exploration of a bounded grammar"),
    level_note=("trusts jax and the mirror; which overrides exist is discovered at run time from "
                "the class tree, so a new override without workload shows up as a zero counter"),
    max_skip_fraction=0.3,
)

RTOL = 1e-9


# ---------------------------------------------------------------------------------------
# monitors
# ---------------------------------------------------------------------------------------
def attach_monitors(I, counts):
    from nifty.cl.operators import simplify_for_const as sfc
    import importlib
    import pkgutil
    import nifty.cl.operators as ops_pkg
    # some operator modules (sum_operator, chain_operator) are imported lazily by NIFTy:
    # load them all so that the class walk sees every override
    for m in pkgutil.iter_modules(ops_pkg.__path__):
        try:
            importlib.import_module("nifty.cl.operators." + m.name)
        except Exception:
            pass
    name = "_simplify_for_constant_input_nontrivial"
    seen, stack, classes = set(), [I.Operator], []
    while stack:
        c = stack.pop()
        if c in seen:
            continue
        seen.add(c)
        classes.append(c)
        stack += c.__subclasses__()
    for c in classes:
        fn = c.__dict__.get(name)
        if fn is None:
            continue
        label = "override:" + (c.__name__ if c is not I.Operator else "Operator(generic)")

        def wrap(fn=fn, label=label):
            def w(self, c_inp):
                counts[label] = counts.get(label, 0) + 1
                return fn(self, c_inp)
            w.__wrapped__ = fn
            return w
        setattr(c, name, wrap())
    for meth in ("add", "mult"):
        fn = getattr(sfc.ConstCollector, meth)

        def wrap2(fn=fn, meth=meth):
            def w(self, const, fulldom):
                k = "ConstCollector." + meth
                counts[k] = counts.get(k, 0) + 1
                if const is not None:
                    counts[k + ":const_not_None"] = counts.get(k + ":const_not_None", 0) + 1
                return fn(self, const, fulldom)
            return w
        setattr(sfc.ConstCollector, meth, wrap2())


def init(ck):
    import nifty.cl as ift
    import jax
    jax.config.update("jax_enable_x64", True)
    import vf.mirror as mr
    import logging
    ift.logger.setLevel(logging.ERROR)
    ck.state["ift"], ck.state["mr"] = ift, mr
    ck.state["counts"] = {}
    attach_monitors(ift, ck.state["counts"])


def node_name(nd):
    return ":".join(str(a) for a in nd[:2] if isinstance(a, str))


def gen_case(ck, rng, mr):
    cplx = bool(rng.integers(0, 6) == 0)
    cfg = dict(md=True, nkeys=(2, 4), cplx=cplx, steps=(3, ck.pick(9, 13)),
               maxdepth=ck.pick(6, 9), energy=0.5, leafops=True, p_subst=0.1,
               jax=bool(rng.integers(0, 4) == 0), p_share=0.4, mdweight=3, linstart=0.5,
               force_varcov=bool(rng.integers(0, 10) == 0))
    want = 3 if rng.integers(0, 2) else 2      # half of the cases insist on >= 3 used keys
    best = None
    for _ in range(8):
        g = mr.gen_program(rng, **cfg)
        if g is None or len(g[0]["inputs"]) < 2:
            continue
        if len(g[0]["inputs"]) >= want:
            return g, cfg
        best = best or g
    return best, cfg


def cols_of(lay, keys):
    cols, o = [], 0
    for k, s, c in lay.items:
        n = int(np.prod(s, dtype=np.int64))*(2 if c else 1)
        if k in keys:
            cols += list(range(o, o + n))
        o += n
    return cols


def same_key_sum(prog):
    return any(nd[0] == "pack" and len({it[0] for it in nd[1]}) < len(nd[1])
               for nd in prog["nodes"]) or any(nd[0] in ("mdadd", "mdsub")
                                               for nd in prog["nodes"])


def linear_md_difference(prog):
    """a linear difference with a MultiDomain target (negated pack item / mdsub)"""
    return any((nd[0] == "pack" and any(len(it) > 2 and it[2] for it in nd[1]))
               or nd[0] == "mdsub" for nd in prog["nodes"])


def culprit(I, mr, prog, ops, xf, cset, lay, xvec, wm):
    """first node whose own specialisation already disagrees with the mirror"""
    for i, nd in enumerate(prog["nodes"]):
        if nd[0] in ("var", "vars"):
            continue
        op = ops[i]
        if not isinstance(op.domain, I.MultiDomain):
            continue
        keys = set(op.domain.keys())
        if any(k not in prog["inputs"] for k in keys):
            continue
        ck_ = sorted(keys & cset)
        vk = sorted(keys - cset)
        if not ck_ or not vk:
            continue
        try:
            o = mr.mirror_value_and_jac(prog, i, xvec)
            _, opc = op.simplify_for_constant_input(xf.extract_by_keys(ck_))
            sub = mr.Layout([it for it in lay.items if it[0] in vk])
            p = mr.probe_operator(I, opc, xf.extract_by_keys(vk), wm, sub, adjoint=False,
                                  metric=False)
            ok1, _ = mr.norm_close(p.vec0, o.vec, RTOL, o.sval)
            ok2, _ = mr.norm_close(p.J, o.J[:, cols_of(lay, vk)], RTOL, o.sjac)
            if not (ok1 and ok2):
                return node_name(nd)
        except mr.ProbeDomainError:
            return node_name(nd)
        except Exception:
            return node_name(nd) + "(raises)"
    return None


# ---------------------------------------------------------------------------------------
def case(ck, i):
    I, mr = ck.state["ift"], ck.state["mr"]
    counts = ck.state["counts"]
    rng = ck.rng()
    g, cfg = gen_case(ck, rng, mr)
    if g is None:
        ck.note(dict(gen="failed"), nontrivial=False, klass="gen-failed")
        ck.skip("generator produced no multi-key program")
        return
    prog, x, st = g
    wm = True
    keys = sorted(prog["inputs"])
    lay = mr.input_layout(prog)
    xvec = lay.pack(x)
    root = len(prog["nodes"]) - 1
    energy = mr.is_energy_root(prog)
    has_ham = any(nd[0] == "ham" for nd in prog["nodes"])

    try:
        ops = mr.build_nifty(I, prog)
    except Exception as e:
        k = mr.nifty_exc_key(e)
        if k is None:
            raise
        ck.note(dict(prog=prog), nontrivial=False, klass="build-raises")
        ck.violation(f"build-raises:{k}", f"building the operator raised: {str(e)[:200]}")
        return
    F = ops[-1]
    if rng.integers(0, 8) == 0 and not energy:
        F = F @ I.CountingOperator(F.domain)
        wrapped = True
    else:
        wrapped = False
    dom = mr.input_domain(I, prog)
    if F.domain is not dom:
        ck.note(dict(prog=prog), nontrivial=False, klass="domain")
        ck.violation("domain:" + mr.first_wrong_domain(I, prog, ops), "operator domain is not the union of the "
                     "domains of its parts (C03 mechanism)", got=str(F.domain), want=str(dom))
        return
    xf = mr.np_to_field(I, dom, x)
    stats = ck.state.setdefault("ostats", {})
    tm = mr.TracedMirror(prog, root, stats=stats)
    o = tm.at(xvec)
    if not (np.all(np.isfinite(o.J)) and np.all(np.isfinite(o.vec))) or o.sjac > 1e8:
        ck.note(dict(prog=prog), nontrivial=False, klass="mirror-not-finite")
        ck.skip("mirror not finite / too large at the point")
        return
    me = mr.expected_metric(prog, root, xvec) if energy else None
    if same_key_sum(prog):
        ck.hit("sum_same_target_key")
    if linear_md_difference(prog):
        ck.hit("md_target_difference_programs")

    subsets = [c for r in range(1, len(keys)) for c in itertools.combinations(keys, r)]
    any_nontrivial = False
    seen_keys = set()
    per_subset = []

    def viol(key, msg, **w):
        if key in seen_keys:
            return
        seen_keys.add(key)
        ck.violation(key, msg, **w)

    extra = set(int(j) for j in rng.permutation(len(subsets))[:max(1, (len(subsets) + 1)//2)])
    for si, K in enumerate(subsets):
        cset = set(K)
        V = [k for k in keys if k not in cset]
        vcols = cols_of(lay, V)
        vlay = mr.Layout([it for it in lay.items if it[0] in V])
        cfield = xf.extract_by_keys(list(K))
        vfield = xf.extract_by_keys(V)
        before = dict(counts)
        ck.hit("pairs")

        def bad(key, msg, **w):
            c = culprit(I, mr, prog, ops, xf, cset, lay, xvec, wm)
            viol(f"{key}:{c or prog['nodes'][-1][0]}", msg, constants=list(K), culprit=c, **w)

        # ---- simplify ---------------------------------------------------------------
        try:
            c_out, Fc = F.simplify_for_constant_input(cfield)
        except Exception as e:
            k = mr.nifty_exc_key(e)
            if k is None:
                raise
            viol(f"raises:{k}", f"simplify_for_constant_input raised "
                 f"{type(e).__name__}: {str(e)[:150]}", constants=list(K),
                 nodes=[node_name(nd) for nd in prog["nodes"]])
            per_subset.append([list(K), "raises"])
            continue
        ran = {k: counts[k] - before.get(k, 0) for k in counts if counts[k] != before.get(k, 0)}
        for k, n in ran.items():
            ck.hit(k, n)
        specific = any(k.startswith("override:") and k != "override:Operator(generic)"
                       for k in ran)
        any_nontrivial |= specific
        per_subset.append([list(K), sorted(k[9:] for k in ran if k.startswith("override:"))])

        if c_out is not None:
            ck.hit("c_out_not_None")
            if not isinstance(c_out, I.MultiField) or len(c_out.keys()) != 0:
                viol("c_out:non-empty", "c_out has entries although every admissible key set is "
                     "empty", keys=list(getattr(c_out, "keys", lambda: [])()))
        vardom = I.MultiDomain.make({k: dom[k] for k in V})
        if Fc.domain is not vardom or Fc.target is not F.target:
            bad("domain", "specialised operator has wrong domain/target",
                got=str(Fc.domain.keys()) if hasattr(Fc.domain, "keys") else str(Fc.domain))
            continue

        # ---- specialised operator vs mirror with constants inserted -----------------------
        try:
            p = mr.probe_operator(I, Fc, vfield, wm, vlay)
        except mr.NiftyRaised as e:
            viol(f"raises:{e.key}", f"specialised operator: {e}", constants=list(K),
                 nodes=[node_name(nd) for nd in prog["nodes"]])
            continue
        except mr.ProbeDomainError as e:
            bad("domain-of-" + e.what.split()[0], f"specialised operator, {e.what}: unexpected "
                "domain")
            continue
        ck.hit("value_cmp")
        ok, dev = mr.norm_close(p.vec0, o.vec, RTOL, o.sval)
        if not ok and has_ham:
            # StandardHamiltonian: is the difference exactly the prior energy of the constants?
            hk = set(prog["nodes"][-1][2]) & cset if prog["nodes"][-1][0] == "ham" else set()
            off = sum(0.5*float(np.sum(np.abs(x[k])**2)) for k in hk)
            ok2, _ = mr.norm_close(p.vec0[:1] + off, o.vec[:1], RTOL, o.sval + off)
            if ok2:
                viol("value-offset:StandardHamiltonian:prior-energy-of-constants-dropped",
                     "H_c(v) = H(v u c) - 0.5 c^dagger c: the specialised Hamiltonian drops the "
                     "prior energy of the constant keys", constants=list(K),
                     got=float(p.vec0[0]), want=float(o.vec[0]), offset=off)
                ok = True
        if not ok:
            bad("value", "F_c(v) differs from F(v u c)", reldev=dev)
            continue
        ok, dev = mr.norm_close(p.veclin, p.vec0, 1e-13, o.sval, 1e-14)
        if not ok:
            bad("linval", "specialised operator: Linearization value differs", reldev=dev)
            continue
        ck.hit("jac_cmp")
        ok, dev = mr.norm_close(p.J, o.J[:, vcols], RTOL, o.sjac)
        if not ok:
            bad("jac", "jac(F_c) differs from the variable-key columns of jac(F)", reldev=dev)
            continue
        ck.hit("adjoint_cmp")
        ok, dev = mr.norm_close(p.A, p.tlay.restrict_rows(o.J[:, vcols]).T, RTOL, o.sjac)
        if not ok:
            bad("adjoint", "jac(F_c).adjoint is not the transpose", reldev=dev)
            continue
        if energy:
            if p.lin.metric is None:
                bad("metric-missing", "specialised energy returns no metric")
            elif me is not None:
                ck.hit("metric_cmp")
                ok, dev = mr.norm_close(p.M, me[0][np.ix_(vcols, vcols)], RTOL, me[1])
                if not ok:
                    bad("metric", "metric(F_c) differs from the variable block of metric(F)",
                        reldev=dev)
                    continue
        elif p.lin.metric is not None:
            bad("metric-unexpected", "specialised non-energy operator returns a metric")

        if si not in extra:       # the two costlier sub-checks run on half of the subsets
            continue
        # ---- Linearization.make_partial_var on the unspecialised operator -----------------
        ck.hit("partial_var_cmp")
        try:
            linp = F(I.Linearization.make_partial_var(xf, list(K), wm))
            Jp, _ = mr.dense_linear(I, linp.jac, lay, dom, p.tlay, True)
            Mp = None
            if linp.metric is not None:
                Mp, _ = mr.dense_linear(I, linp.metric, lay, dom, lay, False)
        except mr.ProbeDomainError as e:
            viol("partial_var:domain", f"make_partial_var path, {e.what}: unexpected domain",
                 constants=list(K))
            continue
        except Exception as e:
            k = mr.nifty_exc_key(e)
            if k is None:
                raise
            viol(f"raises:{k}", f"make_partial_var path raised: {str(e)[:150]}",
                 constants=list(K))
            continue
        Jexp = np.zeros_like(o.J)
        Jexp[:, vcols] = o.J[:, vcols]
        ok, dev = mr.norm_close(Jp, Jexp, RTOL, o.sjac)
        if not ok:
            viol("partial_var:jac", "Jacobian through make_partial_var is not jac(F) with the "
                 "constant columns zeroed", constants=list(K), reldev=dev)
        if energy and me is not None and Mp is not None:
            Mexp = np.zeros_like(me[0])
            Mexp[np.ix_(vcols, vcols)] = me[0][np.ix_(vcols, vcols)]
            ok, dev = mr.norm_close(Mp, Mexp, RTOL, me[1])
            if not ok:
                viol("partial_var:metric", "metric through make_partial_var is not P M P",
                     constants=list(K), reldev=dev)

        # ---- EnergyAdapter(constants=K) ----------------------------------------------------------
        if energy and not wrapped:
            energy_adapter(ck, I, mr, prog, ops[-1], xf, x, K, V, o, me, vcols, vlay, lay, viol,
                           has_ham, not cfg["cplx"])

    ck.note(dict(prog=prog, wrapped=wrapped, subsets=per_subset), nontrivial=any_nontrivial,
            klass=("energy-" if energy else "op-") + prog["nodes"][-1][0] + "-%dkeys" % len(keys))


def energy_adapter(ck, I, mr, prog, E, xf, x, K, V, o, me, vcols, vlay, lay, viol, has_ham,
                   allreal):
    cset = set(K)
    ck.hit("energy_adapter_cmp")
    try:
        ea = I.EnergyAdapter(xf, E, constants=list(K), want_metric=True)
    except Exception as e:
        k = mr.nifty_exc_key(e)
        if k is None:
            raise
        viol(f"raises:{k}", f"EnergyAdapter(constants) raised: {str(e)[:150]}",
             constants=list(K))
        return
    off = 0.
    if has_ham and prog["nodes"][-1][0] == "ham":
        off = sum(0.5*float(np.sum(np.abs(x[k])**2)) for k in set(prog["nodes"][-1][2]) & cset)
    if set(ea.position.domain.keys()) != set(V):
        viol("EnergyAdapter:position-keys", "position of EnergyAdapter(constants=K) contains "
             "constant keys", got=list(ea.position.domain.keys()), constants=list(K))
        return
    if set(ea.gradient.domain.keys()) != set(V):
        viol("EnergyAdapter:gradient-keys", "gradient has entries for constant keys",
             got=list(ea.gradient.domain.keys()), constants=list(K))
        return
    ok, dev = mr.norm_close([ea.value + off], o.vec[:1], RTOL, o.sval + off)
    if not ok:
        viol("EnergyAdapter:value", "EnergyAdapter(constants).value differs from E(x)",
             got=float(ea.value), want=float(o.vec[0]), constants=list(K))
        return
    if off != 0. and abs(off) > 1e-9*abs(o.vec[0]):
        viol("value-offset:StandardHamiltonian:prior-energy-of-constants-dropped",
             "EnergyAdapter(constants).value = H(x) - 0.5 c^dagger c", constants=list(K),
             got=float(ea.value), want=float(o.vec[0]), offset=off)
    gvec = vlay.pack(mr.field_to_np(I, ea.gradient))
    ok, dev = mr.norm_close(gvec, o.J[0, vcols], RTOL, o.sjac)
    if not ok:
        viol("EnergyAdapter:gradient", "gradient differs from the variable part of dE/dx",
             reldev=dev, constants=list(K))
        return
    if me is not None and ea.metric is not None:
        vdom = ea.position.domain
        try:
            Mn, _ = mr.dense_linear(I, ea.metric, vlay, vdom, vlay, False)
        except mr.ProbeDomainError:
            viol("EnergyAdapter:metric-domain", "metric returns fields on an unexpected domain",
                 constants=list(K))
            return
        ok, dev = mr.norm_close(Mn, me[0][np.ix_(vcols, vcols)], RTOL, me[1])
        if not ok:
            viol("EnergyAdapter:metric", "metric differs from the variable block", reldev=dev,
                 constants=list(K))
            return
    # three minimiser steps: the constants must stay out of the position, and the energy seen
    # by the minimiser must be E(. u c).  Only for all-real programs: with complex constants
    # NIFTy's gradient on a real key is complex (the user is expected to embed with
    # Realizer.adjoint), so a descent step would leave the real domain.
    if not allreal:
        ck.hit("minimiser_skipped_complex_program")
        return
    try:
        with np.errstate(all="ignore"):
            mini = I.SteepestDescent(I.GradientNormController(iteration_limit=3))
            e2, _ = mini(ea)
    except Exception:
        ck.hit("minimiser_raised")
        return
    ck.hit("minimiser_runs")
    if set(e2.position.domain.keys()) != set(V):
        viol("EnergyAdapter:position-keys-after-minimisation", "constant keys entered the "
             "position during minimisation", got=list(e2.position.domain.keys()))
        return
    pos = mr.field_to_np(I, e2.position)
    env = {k: (np.asarray(x[k]) if k in cset else pos[k]) for k in prog["inputs"]}
    with np.errstate(all="ignore"):
        want = np.asarray(mr.Mirror(prog, xp=np).ev(len(prog["nodes"]) - 1, env, {}))
    if not np.all(np.isfinite(want)) or not np.isfinite(e2.value):
        ck.hit("minimiser_left_domain")
        return
    ok, dev = mr.norm_close([e2.value + off], [float(np.real(want))], 1e-8, o.sval + off
                            + abs(float(np.real(want))), 1e-9)
    if not ok:
        viol("EnergyAdapter:value-after-minimisation", "energy after 3 steps is not E(v' u c) "
             "with the original constants", got=float(e2.value), want=float(np.real(want)),
             constants=list(K))


def fini(ck):
    for k, v in ck.state.get("ostats", {}).items():
        ck.hit("oracle:" + k, v)
