"""C28 — Correlated-field models: implementations agree and scale correctly.

(a) agreement: the same configuration is built with ``nifty.cl.CorrelatedFieldMaker`` and
    ``nifty.re.CorrelatedFieldMaker``; the same latent values (key mapping of the repository's
    comparison tests: identical names, ``*spectrum`` arrays transposed) must give the same field.
(b) normalisation: for fixed hyper-parameters the model is affine in the excitations ``xi``;
    the dense matrix A (probing with xi = e_j) gives the *exact* expectation over xi of the
    realised fluctuation measures
        total^2      = (1/N) || (1 - Q_all) A ||_F^2
        slice_i^2    = (1/N) || (1 - Q_i) A ||_F^2
        average_i^2  = (1/N) || Q_others (1 - Q_i) A ||_F^2      (Q = averaging projector)
    which must equal the model's own prediction at the same latent values
    (classic: ``total_fluctuation / slice_fluctuation(i) / average_fluctuation(i)``; JAX: the
    documented product formula  azm^2 (prod_i (1 + fl_i^2/azm^2) - 1)  etc. evaluated with the
    maker's own ``fluctuations`` / ``scale`` and ``azm`` callables) — for every grid resolution
    and volume, and identically after doubling the resolution at fixed volume.
"""
import numpy as np

from vf.libhelp import ndev, pick, rfloat

META = dict(
    id="C28", level="exploration",
    title="Correlated-field models: implementations agree and scale correctly",
    technique=("cl vs re outputs on mapped latents; exact expected variances from the dense "
               "excitation->field matrix vs the models' own predicted fluctuations"),
    rule=("one case = one model configuration: family in {np1 (one RG space 1-2-D or HEALPix), np2 "
          "(product RGxRG or HPxRG), matern (one RG space), matern_np (Matern x non-parametric)}; shapes "
          "2..10 per axis, distances 0.05..20 (anisotropic in 2-D), hyper-prior means over two orders of "
          "magnitude, flexibility/asperity on/off, both Hartley conventions, offset mean; JAX-only options "
          "non_parametric_kind in {amplitude, power} and Matern renormalize_amplitude checked for (b) only; "
          "classic-only options: Matern adjust_for_volume in {True, False} on volumes != 1, total_N in 1..3 with "
          "dofdex in {None, zeros, range}, explicit harmonic_partner, per-space prefixes, insertion via index=0; "
          "random latent draws. non-trivial: product of two spaces, or Matern, or anisotropic distances; "
          "distinct = distinct configuration descriptor"),
    assumptions=[
        "(b) is exact only for regular grids; HEALPix spaces take part in (a) only (pixel sums of spherical "
        "harmonics are not exactly orthogonal)",
        "JAX side of (b): prediction assembled from the maker's own fluctuations/scale and azm callables with "
        "the documented product formula (the JAX maker has no total_fluctuation method)",
        "JAX Matern models predict their fluctuation only with renormalize_amplitude=True (then `scale` is "
        "documented to be the fluctuation scale)",
    ],
    need=["agree_checks", "cl_total", "cl_slice_avg", "re_total", "refinement_pairs", "matern_cases",
          "product_cases", "matern_noadjust_volume_ne_1", "matern_power_vs_amplitude"],
    quick=dict(cases=110, workers=6, budget_s=150),
    thorough=dict(cases=2500, workers=16, budget_s=780),
    design_ref="DESIGN.md §5 C28",
    level_text="~100 (quick) generated model configurations, each with exact (not sampled) variances",
    level_note=("trusts numpy; tolerances 1e-10 (agreement) and 1e-9 (variances) relative; options without a "
                "nifty.re counterpart (adjust_for_volume=False, total_N/dofdex) are checked for normalisation "
                "only"),
)


def init(ck):
    import jax
    jax.config.update("jax_enable_x64", True)
    from vf.libhelp import enable_jax_cache
    enable_jax_cache()
    import nifty.cl as ift
    import nifty.re as jft
    import jax.numpy as jnp
    ck.state.update(ift=ift, jft=jft, jax=jax, jnp=jnp)


# ------------------------------------------------------------------------------------------
def ln_prior(rng, lo, hi):
    m = rfloat(rng, lo, hi, log=True, nd=3)
    return (m, float(f"{m * rng.uniform(0.1, 0.8):.3g}"))


def gen_np_kwargs(rng):
    kw = dict(fluctuations=ln_prior(rng, 0.05, 5.0),
              loglogavgslope=(rfloat(rng, -5, 1, nd=3), rfloat(rng, 0.05, 1.0, nd=3)),
              flexibility=None, asperity=None)
    m = int(rng.integers(0, 3))
    if m >= 1:
        kw["flexibility"] = ln_prior(rng, 0.05, 3.0)
    if m == 2:
        kw["asperity"] = ln_prior(rng, 0.02, 1.0)
    return kw


def gen_matern_kwargs(rng):
    return dict(scale=ln_prior(rng, 0.05, 5.0), cutoff=ln_prior(rng, 0.05, 5.0),
                loglogslope=(rfloat(rng, -6, -1, nd=3), rfloat(rng, 0.05, 1.0, nd=3)))


def gen_rg(rng, maxnd=2, nmax=10):
    nd = int(rng.integers(1, maxnd + 1))
    shape = tuple(int(x) for x in rng.integers(2, nmax + 1, nd))
    d = tuple(rfloat(rng, 0.05, 20, log=True, nd=3) for _ in shape)
    if nd == 2 and rng.integers(0, 3) == 0:
        d = (d[0], d[0])
    return shape, d


def gen_config(ck, rng, i=0):
    fams = ["np1"] * 4 + ["np2"] * 4 + ["matern"] * 2 + ["matern_np"]
    fam = fams[(i * 3 + int(ck.rng(777).integers(0, len(fams)))) % len(fams)]      # round-robin
    spaces = []
    if fam == "np1":
        if rng.integers(0, 5) == 0:
            spaces.append(dict(t="hp", shape=(int(pick(rng, [1, 2])),), dist=None, kw=gen_np_kwargs(rng)))
        else:
            s, d = gen_rg(rng)
            spaces.append(dict(t="rg", shape=s, dist=d, kw=gen_np_kwargs(rng)))
    elif fam == "np2":
        hp = rng.integers(0, 5) == 0
        for j in range(2):
            if hp and j == int(rng.integers(0, 2)) and not any(s["t"] == "hp" for s in spaces):
                spaces.append(dict(t="hp", shape=(1,), dist=None, kw=gen_np_kwargs(rng)))
            else:
                s, d = gen_rg(rng, maxnd=1 if rng.integers(0, 3) else 2, nmax=7)
                spaces.append(dict(t="rg", shape=s, dist=d, kw=gen_np_kwargs(rng)))
    elif fam == "matern":
        s, d = gen_rg(rng)
        spaces.append(dict(t="rg", shape=s, dist=d, kw=gen_matern_kwargs(rng), matern=True))
    else:
        s, d = gen_rg(rng, maxnd=1, nmax=8)
        spaces.append(dict(t="rg", shape=s, dist=d, kw=gen_matern_kwargs(rng), matern=True))
        s, d = gen_rg(rng, maxnd=1, nmax=8)
        spaces.append(dict(t="rg", shape=s, dist=d, kw=gen_np_kwargs(rng)))
        if rng.integers(0, 2):
            spaces.reverse()
    for sp in spaces:
        sp.setdefault("matern", False)
        # documented classic-only option of add_fluctuations_matern (nifty.re has no counterpart)
        sp["adjust"] = bool(rng.integers(0, 2)) if sp["matern"] else True
        # pass the (default) harmonic partner explicitly / give the space an own prefix
        sp["explicit_hp"] = bool(rng.integers(0, 3) == 0)
        sp["pfx"] = pick(rng, ["s", "s", "ax", "sp_"])
    cfg = dict(fam=fam, spaces=spaces, conv=pick(rng, ["canonical_hartley", "non_canonical_hartley"]),
               offset_mean=rfloat(rng, -3, 3, nd=3), offset_std=ln_prior(rng, 0.05, 5.0),
               prefix=pick(rng, ["", "cf_"]), total_N=0, dofdex=None,
               insert_reversed=bool(len(spaces) == 2 and rng.integers(0, 3) == 0))
    # arrays of field models (classic only): total_N copies sharing (dofdex all 0) or not sharing
    # (dofdex = range) their power-spectrum parameters
    if fam == "np1" and spaces[0]["t"] == "rg" and rng.integers(0, 4) == 0:
        cfg["total_N"] = int(pick(rng, [1, 2, 3]))
        cfg["dofdex"] = pick(rng, [None, "zeros", "range"])
    return cfg


def volume(sp):
    return float(np.prod(np.array(sp["shape"]) * np.array(sp["dist"])))


def build_cl(ift, cfg):
    N = cfg.get("total_N", 0)
    dd = cfg.get("dofdex")
    dofdex = None if dd is None else ([0] * N if dd == "zeros" else list(range(N)))
    dkw = {} if dofdex is None else dict(dofdex=dofdex)
    cfm = ift.CorrelatedFieldMaker(cfg["prefix"], total_N=N) if N else ift.CorrelatedFieldMaker(cfg["prefix"])
    cfm.set_amplitude_total_offset(cfg["offset_mean"], cfg["offset_std"], **dkw)
    order = list(enumerate(cfg["spaces"]))
    rev = cfg.get("insert_reversed", False)
    if rev:
        order.reverse()            # second space first, the first one is then inserted with index=0
    for cnt, (i, sp) in enumerate(order):
        dom = ift.HPSpace(sp["shape"][0]) if sp["t"] == "hp" else ift.RGSpace(sp["shape"], sp["dist"])
        kw = dict(prefix=sp.get("pfx", "s") + str(i))
        if sp.get("explicit_hp"):
            kw["harmonic_partner"] = dom.get_default_codomain()
        if rev and cnt == 1:
            if sp["matern"]:
                # add_fluctuations_matern has no `index`: build in natural order instead
                return build_cl(ift, dict(cfg, insert_reversed=False))
            kw["index"] = 0
        if sp["matern"]:
            if not sp.get("adjust", True):
                kw["adjust_for_volume"] = False
            cfm.add_fluctuations_matern(dom, **sp["kw"], **kw)
        else:
            cfm.add_fluctuations(dom, **sp["kw"], **kw, **dkw)
    return cfm, cfm.finalize(prior_info=0)


def build_re(jft, cfg, kinds=None, renorm=None):
    """kinds/renorm None = the configuration equivalent to nifty.cl"""
    cfm = jft.CorrelatedFieldMaker(cfg["prefix"])
    cfm.set_amplitude_total_offset(offset_mean=cfg["offset_mean"], offset_std=cfg["offset_std"])
    for i, sp in enumerate(cfg["spaces"]):
        if sp["matern"]:
            cfm.add_fluctuations_matern(
                sp["shape"], distances=sp["dist"], **sp["kw"], prefix=sp.get("pfx", "s") + str(i),
                non_parametric_kind="amplitude" if kinds is None else kinds[i],
                renormalize_amplitude=False if renorm is None else renorm)
        else:
            extra = dict(harmonic_type="spherical") if sp["t"] == "hp" else {}
            cfm.add_fluctuations(sp["shape"], distances=sp["dist"], **sp["kw"], prefix=sp.get("pfx", "s") + str(i),
                                 non_parametric_kind="power" if kinds is None else kinds[i], **extra)
    return cfm, cfm.finalize()


def to_cl(ift, cf, pos, extra=None):
    if extra:
        pos = dict(pos, **{k: v for k, v in extra.items() if k in cf.domain.keys()})
    return ift.MultiField.from_dict(
        {k: ift.makeField(cf.domain[k], np.array(v).T if k.endswith("spectrum") else np.array(v))
         for k, v in pos.items()}, cf.domain)


def fluct_measures(A, shape, axes_groups):
    """A: (N, n) dense excitation->field matrix; axes_groups: tuple of axis tuples, one per sub-space.
    returns total, [slice_i], [average_i] (standard deviations)"""
    n = A.shape[1]
    N = A.shape[0]
    T = A.reshape(tuple(shape) + (n,))
    allax = tuple(a for g in axes_groups for a in g)
    tot = np.sqrt(np.sum((T - T.mean(axis=allax, keepdims=True)) ** 2) / N)
    sl, av = [], []
    for i, g in enumerate(axes_groups):
        others = tuple(a for j, gg in enumerate(axes_groups) if j != i for a in gg)
        sl.append(np.sqrt(np.sum((T - T.mean(axis=g, keepdims=True)) ** 2) / N))
        r = T.mean(axis=others, keepdims=True) if others else T
        r = r - r.mean(axis=g, keepdims=True)
        av.append(np.sqrt(np.sum(r ** 2) / np.prod([shape[a] for a in g])))
    return tot, sl, av


def product_formula(azm, fl):
    """documented: total = azm sqrt(prod(1+fl_i^2/azm^2) - 1), slice_i = azm sqrt(fl_i^2/azm^2 prod_{j!=i}(1+..)),
    average_i = fl_i; single space: all equal fl_0"""
    fl = np.asarray(fl, float)
    if len(fl) == 1:
        return fl[0], [fl[0]], [fl[0]]
    q = 1 + fl ** 2 / azm ** 2
    tot = azm * np.sqrt(np.prod(q) - 1)
    sl = [azm * np.sqrt(fl[i] ** 2 / azm ** 2 * np.prod(np.delete(q, i))) for i in range(len(fl))]
    return tot, sl, list(fl)


def case_total_N(ck, ift, rng, cfg, ccfm, ccf, xik, bad):
    """arrays of field models (classic only): per-copy realised std vs the per-copy predictions"""
    N = cfg["total_N"]
    sp = cfg["spaces"][0]
    pos = {k: rng.standard_normal(ccf.domain[k].shape) for k in ccf.domain.keys()}
    n = int(np.prod(pos[xik].shape))
    ck.hit("total_N_cases")
    if n > 150:
        return

    def mk(p):
        return ift.MultiField.from_dict({k: ift.makeField(ccf.domain[k], v) for k, v in p.items()}, ccf.domain)
    shape = ccf.target.shape
    if tuple(shape) != (N,) + tuple(sp["shape"]):
        bad("cl:total_N:target-shape", "target of the field array is not (total_N,) + shape", shape=list(shape))
        return
    base = dict(pos)
    base[xik] = np.zeros_like(pos[xik])
    f0 = ccf(mk(base)).asnumpy()
    A = np.zeros((f0.size, n))
    for j in range(n):
        e = np.zeros(n)
        e[j] = 1.0
        base[xik] = e.reshape(pos[xik].shape)
        A[:, j] = (ccf(mk(base)).asnumpy() - f0).ravel()
    if ndev(A @ pos[xik].ravel() + f0.ravel(), ccf(mk(pos)).asnumpy().ravel()) > 1e-9:
        bad("cl-not-affine-in-xi", "classic model is not affine in the excitations")
        return
    T = A.reshape((N, -1, n))
    lat = mk(pos)
    grp = [tuple(range(len(sp["shape"])))]
    preds = {nm: np.atleast_1d(op.force(lat).asnumpy()) for nm, op in
             (("total_fluctuation", ccfm.total_fluctuation), ("slice_fluctuation", ccfm.slice_fluctuation(0)),
              ("average_fluctuation", ccfm.average_fluctuation(0)))}
    for c in range(N):
        tot, sl, av = fluct_measures(T[c], sp["shape"], grp)
        for nm, real in (("total_fluctuation", tot), ("slice_fluctuation", sl[0]), ("average_fluctuation", av[0])):
            ck.hit("cl_total_N_checks")
            p = preds[nm]
            if p.shape != (N,) or not rel(float(p[c]), real) <= 1e-9:
                bad(f"cl:total_N:{nm}", f"realised fluctuation of copy {c} of a field array != {nm} of the maker",
                    realised=real, predicted=p.tolist(), dofdex=cfg["dofdex"])
    # copies share their spectrum parameters iff dofdex is all zero (or not given)
    shared = cfg["dofdex"] in (None, "zeros")
    nfl = int(np.prod(ccf.domain[cfg["prefix"] + sp["pfx"] + "0fluctuations"].shape))
    ck.hit("cl_total_N_checks")
    if nfl != (1 if shared else N):
        bad("cl:total_N:dofdex", "number of independent spectrum parameter sets does not follow dofdex",
            observed=nfl, dofdex=cfg["dofdex"], total_N=N)


def rel(a, b):
    return abs(a - b) / max(abs(a), abs(b), 1e-300)


def case(ck, i):
    ift, jft, jnp, jax = (ck.state[k] for k in ("ift", "jft", "jnp", "jax"))
    rng = ck.rng()
    cfg = gen_config(ck, rng, i)
    fam = cfg["fam"]
    jft.config.update("hartley_convention", cfg["conv"])
    seen = set()

    def bad(key, what, **w):
        if key not in seen:
            seen.add(key)
            ck.violation(key, what, **w)

    has_hp = any(sp["t"] == "hp" for sp in cfg["spaces"])
    has_matern = any(sp["matern"] for sp in cfg["spaces"])
    aniso = any(sp["t"] == "rg" and len(set(sp["dist"])) > 1 for sp in cfg["spaces"])
    nsp = len(cfg["spaces"])
    desc = dict(cfg, spaces=[dict(t=sp["t"], shape=sp["shape"], dist=sp["dist"], matern=sp["matern"],
                                  kw=sp["kw"], adjust=sp["adjust"], explicit_hp=sp["explicit_hp"],
                                  pfx=sp["pfx"]) for sp in cfg["spaces"]])
    noadjust = [sp for sp in cfg["spaces"] if sp["matern"] and not sp["adjust"]]
    cl_only = bool(noadjust) or cfg["total_N"] > 0
    if noadjust:
        ck.hit("matern_noadjust_cases")
        if any(abs(volume(sp) - 1) > 0.05 for sp in noadjust):
            ck.hit("matern_noadjust_volume_ne_1")
    ck.note(desc, nontrivial=(nsp == 2 or has_matern or aniso), klass=fam + ("+hp" if has_hp else ""))
    if has_matern:
        ck.hit("matern_cases")
    if nsp == 2:
        ck.hit("product_cases")

    ccfm, ccf = build_cl(ift, cfg)
    xik = cfg["prefix"] + "xi"
    if cfg["total_N"] > 0:
        case_total_N(ck, ift, rng, cfg, ccfm, ccf, xik, bad)
        return
    if cl_only:
        # option without a nifty.re counterpart: classic normalisation only
        class _Dom:
            domain = {k: np.zeros(ccf.domain[k].shape[::-1] if k.endswith("spectrum") else ccf.domain[k].shape)
                      for k in ccf.domain.keys()}
        jcfm, jcf = None, _Dom
    else:
        jcfm, jcf = build_re(jft, cfg)

    # ---- (a) agreement --------------------------------------------------------------------
    extra = sorted(set(ccf.domain.keys()) - set(jcf.domain.keys()))
    # a 2- or 3-pixel axis has a single non-zero |k|: nifty.re then drops the (ineffective) spectrum
    # deviation parameters while nifty.cl keeps them -> allowed, filled with random values
    allowed = [cfg["prefix"] + sp.get("pfx", "s") + str(i) + nm for i, sp in enumerate(cfg["spaces"])
               if (len(sp["shape"]) == 1 and sp["shape"][0] <= 3 and sp["t"] == "rg")
               for nm in ("flexibility", "asperity", "spectrum")]
    if set(jcf.domain.keys()) - set(ccf.domain.keys()) or any(k not in allowed for k in extra):
        bad("latent-keys", "latent keys of the cl and re models differ",
            cl=sorted(ccf.domain.keys()), re=sorted(jcf.domain.keys()))
        return
    if extra:
        ck.hit("cl_only_ineffective_keys", len(extra))
    extra_vals = {k: rng.standard_normal(ccf.domain[k].shape[::-1] if k.endswith("spectrum")
                                         else ccf.domain[k].shape) for k in extra}
    pos = None
    for rep in range(2):
        pos = {k: rng.standard_normal(v.shape) * (1.0 if rep == 0 else 0.3) for k, v in jcf.domain.items()}
        for k, v in pos.items():
            exp_shape = tuple(ccf.domain[k].shape[::-1]) if k.endswith("spectrum") else tuple(ccf.domain[k].shape)
            if tuple(v.shape) != exp_shape:
                bad("latent-shapes", f"latent shape of {k} differs between cl and re",
                    cl=list(ccf.domain[k].shape), re=list(v.shape))
                return
        if cl_only:
            break
        a = np.asarray(jcf({k: jnp.asarray(v) for k, v in pos.items()}))
        b = ccf(to_cl(ift, ccf, pos, extra_vals)).asnumpy()
        ck.hit("agree_checks")
        if extra and np.all(np.isfinite(a)) and not np.all(np.isfinite(b)):
            bad("cl:single-mode-axis:nan", "classic correlated field with flexibility on an axis with a single "
                "non-zero mode (2 or 3 pixels) returns NaN (the JAX model is finite)", shape=list(b.shape))
            return
        if a.shape != b.shape or not np.all(np.isfinite(a)) or ndev(a, b) > 1e-10:
            bad("cl-re-disagree:" + ("matern" if has_matern else "nonparametric") + ("+hp" if has_hp else ""),
                "classic and JAX correlated-field models give different fields for the same latent values",
                dev=ndev(a, b), shape=list(a.shape), conv=cfg["conv"])
            break
    if has_hp:
        return

    # ---- (b) normalisation -----------------------------------------------------------------
    shape = ccf.target.shape
    groups, o = [], 0
    for sp in cfg["spaces"]:
        groups.append(tuple(range(o, o + len(sp["shape"]))))
        o += len(sp["shape"])
    n = int(np.prod(pos[xik].shape))
    if n > 120:
        return
    base = dict(pos)
    base[xik] = np.zeros_like(pos[xik])
    f0 = ccf(to_cl(ift, ccf, base, extra_vals)).asnumpy()
    A = np.zeros((f0.size, n))
    for j in range(n):
        e = np.zeros(n)
        e[j] = 1.0
        base[xik] = e.reshape(pos[xik].shape)
        A[:, j] = (ccf(to_cl(ift, ccf, base, extra_vals)).asnumpy() - f0).ravel()
    # affinity in xi (precondition of the exact expectation)
    chk = A @ pos[xik].ravel() + f0.ravel()
    full = ccf(to_cl(ift, ccf, pos, extra_vals)).asnumpy().ravel()
    if ndev(chk, full) > 1e-9:
        bad("cl-not-affine-in-xi", "classic model is not affine in the excitations", dev=ndev(chk, full))
        return
    tot, sl, av = fluct_measures(A, shape, groups)
    lat = to_cl(ift, ccf, pos, extra_vals)

    def ev(op):
        return float(op.force(lat).asnumpy())
    tag = "matern" if has_matern else "nonparametric"
    if noadjust and nsp == 2 and any(abs(volume(sp) - 1) > 1e-6 for sp in noadjust):
        # separate mechanism: in a product the un-adjusted zero-mode entry (1 instead of the volume) of
        # the Matern amplitude is not reflected in the predictions
        tag = "matern-noadjust-product"
    ptot = ev(ccfm.total_fluctuation)
    ck.hit("cl_total")
    if not rel(ptot, tot) <= 1e-9:
        bad(f"cl:{tag}:total_fluctuation", "expected spatial variance of the classic model != "
            "total_fluctuation^2 predicted by the maker", realised=tot, predicted=ptot,
            volume=[float(np.prod(np.array(sp["shape"]) * np.array(sp["dist"]))) for sp in cfg["spaces"]])
    for s in range(nsp):
        ck.hit("cl_slice_avg")
        ps, pa = ev(ccfm.slice_fluctuation(s)), ev(ccfm.average_fluctuation(s))
        if not rel(ps, sl[s]) <= 1e-9:
            bad(f"cl:{tag}:slice_fluctuation", "realised slice fluctuation != slice_fluctuation(i)",
                realised=sl[s], predicted=ps, space=s)
        if not rel(pa, av[s]) <= 1e-9:
            bad(f"cl:{tag}:average_fluctuation", "realised average fluctuation != average_fluctuation(i)",
                realised=av[s], predicted=pa, space=s)
    # documented product formula linking the three (on the maker's own numbers)
    if nsp == 2:
        azm = ev(ccfm.azm)
        t2, s2, _ = product_formula(azm, [ev(ccfm.average_fluctuation(s)) for s in range(nsp)])
        ck.hit("cl_product_formula")
        if not rel(t2, ptot) <= 1e-9 or any(not rel(s2[s], ev(ccfm.slice_fluctuation(s))) <= 1e-9
                                            for s in range(nsp)):
            bad("cl:product-formula", "total/slice fluctuation do not follow prod(1+fl_i^2/azm^2)-1")

    # ---- refinement invariance (classic, hyper-parameters without per-mode latents) ---------------
    if fam == "np1" and cfg["spaces"][0]["kw"]["flexibility"] is None:
        sp = cfg["spaces"][0]
        cfg2 = dict(cfg, spaces=[dict(sp, shape=tuple(2 * s for s in sp["shape"]),
                                      dist=tuple(d / 2 for d in sp["dist"]))])
        c2m, c2 = build_cl(ift, cfg2)
        n2 = int(np.prod(c2.domain[xik].shape))
        if n2 <= 160:
            p2 = {k: v for k, v in pos.items() if k != xik}
            p2[xik] = np.zeros(c2.domain[xik].shape)
            g0 = c2(to_cl(ift, c2, p2)).asnumpy()
            A2 = np.zeros((g0.size, n2))
            for j in range(n2):
                e = np.zeros(n2)
                e[j] = 1.0
                p2[xik] = e.reshape(c2.domain[xik].shape)
                A2[:, j] = (c2(to_cl(ift, c2, p2)).asnumpy() - g0).ravel()
            t2, _, _ = fluct_measures(A2, c2.target.shape, [tuple(range(len(sp["shape"])))])
            pt2 = float(c2m.total_fluctuation.force(to_cl(ift, c2, p2)).asnumpy())
            ck.hit("refinement_pairs")
            if not rel(pt2, ptot) <= 1e-12:
                bad("cl:refinement:prediction", "predicted fluctuation changes with the resolution",
                    coarse=ptot, fine=pt2)
            if not rel(t2, tot) <= 1e-9:
                bad("cl:refinement:realised", "realised variance changes when the resolution is doubled "
                    "at fixed volume and hyper-parameters", coarse=tot, fine=t2)

    if cl_only:
        return
    # ---- (a') power parametrisation of Matern spectra: P(k) with log-log slope c is by definition the
    # amplitude sqrt(P(k)) with slope c/2, so for a normal slope prior (m, s) the power model equals the
    # amplitude model with prior (m/2, s/2) at the same latent parameters, with and without renormalisation
    # (the amplitude model without renormalisation is the one compared with nifty.cl above)
    if has_matern:
        import copy
        cfg_half = copy.deepcopy(cfg)
        for sp in cfg_half["spaces"]:
            if sp["matern"]:
                m_, s_ = sp["kw"]["loglogslope"]
                sp["kw"]["loglogslope"] = (m_ / 2, s_ / 2)
        pk = tuple("power" if sp["matern"] else "power" for sp in cfg["spaces"])
        ak = tuple("amplitude" if sp["matern"] else "power" for sp in cfg["spaces"])
        pj = {k: jnp.asarray(v) for k, v in pos.items()}
        for rn in (False, True):
            _, jp = build_re(jft, cfg, pk, rn)
            _, ja = build_re(jft, cfg_half, ak, rn)
            fp, fa = np.asarray(jp(pj)), np.asarray(ja(pj))
            ck.hit("matern_power_vs_amplitude")
            if fp.shape != fa.shape or ndev(fp, fa) > 1e-10:
                bad(f"re:matern:power-vs-amplitude:renormalize={rn}", "JAX Matern model in power "
                    "parametrisation (slope c) differs from the amplitude parametrisation with slope c/2 at "
                    "the same latent parameters", dev=float(ndev(fp, fa)) if fp.shape == fa.shape else None)
    # ---- (b) on the JAX side, incl. the JAX-only options ---------------------------------------------
    variants = [(None, None)]
    kinds = tuple(pick(rng, ["amplitude", "power"]) for _ in cfg["spaces"])
    variants.append((kinds, True if has_matern else None))
    for kinds, renorm in variants:
        if kinds is None:
            jm, jc = jcfm, jcf
            if has_matern:
                continue          # no documented prediction without renormalisation
        else:
            jm, jc = build_re(jft, cfg, kinds, renorm)
        p = {k: jnp.asarray(v) for k, v in pos.items()}
        eye = jnp.eye(n).reshape((n,) + pos[xik].shape)
        zero = dict(p)
        zero[xik] = jnp.zeros(pos[xik].shape)
        j0 = np.asarray(jc(zero))
        cols = np.asarray(jax.vmap(lambda x: jc({**p, xik: x}))(eye))
        Aj = (cols - j0[None]).reshape(n, -1).T
        fullj = np.asarray(jc(p)).ravel()
        if ndev(Aj @ pos[xik].ravel() + j0.ravel(), fullj) > 1e-9:
            bad("re-not-affine-in-xi", "JAX model is not affine in the excitations")
            continue
        tj, slj, avj = fluct_measures(Aj, j0.shape, groups)
        azm = float(jm.azm(p))
        fl = []
        for amp, sp in zip(jm.fluctuations, cfg["spaces"]):
            fl.append(float(amp.scale(p)) if sp["matern"] else float(amp.fluctuations(p)))
        pt, ps, pa = product_formula(azm, fl)
        ck.hit("re_total")
        tagj = ("matern" if has_matern else "nonparametric") + ":" + "/".join(kinds or ("cl-equivalent",))
        if not rel(pt, tj) <= 1e-9:
            bad(f"re:{tagj}:total", "expected spatial variance of the JAX model != prediction from its own "
                "fluctuations/azm", realised=tj, predicted=pt, kinds=kinds, renormalize=renorm)
        for s in range(nsp):
            ck.hit("re_slice_avg")
            if not rel(ps[s], slj[s]) <= 1e-9 or not rel(pa[s], avj[s]) <= 1e-9:
                bad(f"re:{tagj}:slice-average", "realised slice/average fluctuation of the JAX model != "
                    "documented product formula", realised=[slj[s], avj[s]], predicted=[ps[s], pa[s]],
                    space=s)
