"""C10 -- Power distribution and power analysis are exact on binned spectra.

Observed: dense matrices of PowerDistributor (TIMES / ADJOINT_TIMES) on full
and product domains, power_analyze(field, spaces, binbounds,
keep_phase_information) on fields with prescribed squared modulus, dense
matrix of create_power_operator(...) for Field and callable spectra, PS_field.

Oracle: bin membership computed from the *description* of the harmonic space
(closed-form k-lengths, bin = number of bounds below k); indicator matrix,
its transpose, per-bin means, diag(dist . P) (x) identity.
"""
import numpy as np

from vf import domains_ref as R

META = dict(
    id="C10", level="exploration",
    title="Power distribution and power analysis are exact on binned spectra",
    technique="indicator-matrix oracle from closed-form k-lengths and bin bounds; dense probing",
    rule=("case = harmonic partner (RG harmonic 1-3-D <=40 pixels with random/degenerate distances, or "
          "LMSpace lmax<=4) x binning (natural / random mid-point subset / jittered bounds) x product "
          "domain (0-2 extra factors, harmonic space at index 0..2; optionally a second harmonic space). "
          "Per case: PowerDistributor dense TIMES/ADJOINT (+complex vector, + default power_space); "
          "power_analyze of sqrt(P[bin]) * unit phase (real +-1 or complex) with a spectrum that is "
          "distinct per bin and varies along the other axes, and of a random field (per-bin mean of "
          "|f|^2), spaces spelled None/int/tuple, analysis over one or two harmonic sub-spaces, with "
          "and without keep_phase_information; create_power_operator with a Field spectrum on the "
          "(custom) PowerSpace or a callable spectrum, dense matrix vs diag(dist.P) (x) 1; PS_field. "
          "non-trivial: some bin holds >=2 modes and (custom binning or product domain); distinct = "
          "descriptor"),
    assumptions=["bounds closer than 1e-9 (relative) to a k-length are not generated (bin membership of a "
                 "k-length exactly on a bound is unspecified)",
                 "keep_phase_information=True is read as: real part = spectrum of the real part, imaginary "
                 "part = spectrum of the imaginary part (their sum is the plain analysis); the docstring's "
                 "'absolute value equals the plain analysis' only holds when one part vanishes and is "
                 "checked in that situation only",
                 "one set of binbounds for several analysed spaces is only used with natural binning"],
    need=["distributor_times", "distributor_adjoint", "analyze_flat_spectrum", "analyze_random_field",
          "analyze_phase_info", "analyze_two_spaces", "power_operator_field", "power_operator_callable",
          "bins_with_2_modes", "custom_binnings", "product_domains"],
    quick=dict(cases=700, workers=4, budget_s=60),
    thorough=dict(cases=20000, workers=16, budget_s=600),
    design_ref="DESIGN.md §5 C10",
    level_text="generated partner x binning x product-domain configurations against an exact oracle; exploration",
    level_note="k-length closed forms are those validated against NIFTy's tables in C08",
)


def init(ck):
    import nifty.cl as ift
    import logging
    ck.state["ift"] = ift
    logging.getLogger("NIFTy").setLevel(logging.ERROR)     # 'non-harmonic space' warnings of power_analyze
    try:
        ift.logger.setLevel(logging.ERROR)
    except Exception:
        pass


def gen_config(rng):
    hdesc = R.gen_harmonic_desc(rng, maxdim=3, maxn=6, maxl=4, maxsize=40, minn=1)
    kind, bb = R.gen_binbounds(rng, hdesc)
    ds = [dict(t="PS?", partner=hdesc, bb=bb)]
    space = 0
    nextra = int(rng.integers(0, 3))
    for _ in range(nextra):
        c = int(rng.integers(0, 5))
        if c == 0:
            e = dict(t="U", shape=[int(rng.integers(1, 4))])
        elif c in (1, 2):
            e = dict(t="RG", shape=[int(rng.integers(1, 4))], dist=None, harmonic=False)
        else:
            e = dict(t="GL", nlat=int(rng.integers(1, 3)), nlon=None)
        sizes = [R.desc_size(d["partner"] if d["t"] == "PS?" else d) for d in ds + [e]]
        if int(np.prod(sizes)) > 90:
            break
        if rng.integers(0, 2):
            ds.insert(0, e)
            space += 1
        else:
            ds.append(e)
    return hdesc, kind, bb, ds, space


def harm_tuple(ds):
    """descriptor list with the harmonic partner in place of the power slot"""
    return [d["partner"] if d["t"] == "PS?" else d for d in ds]


def pow_tuple(ds):
    return [dict(t="PS", partner=d["partner"], bb=d["bb"]) if d["t"] == "PS?" else d for d in ds]


def bins_of(hdesc, bb):
    k = R.klengths_of(hdesc)
    if bb is None:
        u = R.unique_sorted(k)
        bounds = 0.5 * (u[:-1] + u[1:])
    else:
        bounds = np.asarray(bb, dtype=float)
    pidx = R.ref_bins(k, bounds).reshape(-1)
    nbin = len(bounds) + 1
    return k.reshape(-1), pidx, nbin


def indicator(pidx, nbin):
    D = np.zeros((len(pidx), nbin))
    D[np.arange(len(pidx)), pidx] = 1.0
    return D


def cmp_mat(ck, got, exp, key, what, **w):
    if got.shape != exp.shape or not R.close(got, exp, rtol=1e-9):
        ck.violation(key, what, dev=R.dev(got, exp), **w)
        return False
    return True


def spell_bb(rng, bb):
    if bb is None:
        return None
    r = int(rng.integers(0, 3))
    return tuple(bb) if r == 0 else (list(bb) if r == 1 else np.array(bb))


def analyze_section(ck, ift, rng, hdom, pdom, ds, space, bb, pidx, nbin, cnt, D, pre, post, w):
    # spectrum: distinct value per bin, varying along the other axes
    P = (1.0 + np.arange(nbin)[None, :, None] * 0.37 + rng.uniform(0, 0.3, (pre, nbin, post))
         + 3.1 * np.arange(pre)[:, None, None] + 7.3 * np.arange(post)[None, None, :])
    Pfull = P[:, pidx, :]                       # distributed onto the modes
    cplx = bool(rng.integers(0, 2))
    if cplx:
        ph = np.exp(2j * np.pi * rng.uniform(0, 1, Pfull.shape))
    else:
        ph = rng.choice([-1.0, 1.0], Pfull.shape)
    f = (np.sqrt(Pfull) * ph).reshape(hdom.shape)
    ff = ift.makeField(hdom, f.copy())
    spell = [space, (space,), [space]][int(rng.integers(0, 3))]
    if len(ds) == 1 and rng.integers(0, 2):
        spell = None
    res = ift.power_analyze(ff, spaces=spell, binbounds=spell_bb(rng, bb))
    ck.hit("analyze_flat_spectrum")
    if res.domain is not pdom:
        ck.violation("power_analyze:domain", "power_analyze result does not live on (PowerSpace at the analysed "
                     "index, other sub-domains unchanged)", got=str(res.domain), **w)
    elif np.iscomplexobj(res.asnumpy()) or not R.close(res.asnumpy().reshape(P.shape), P):
        ck.violation("power_analyze:flat-spectrum", "power_analyze of a field with |f|^2 = distributed spectrum "
                     "does not return the spectrum", got=R.small(res.asnumpy()), exp=R.small(P),
                     dev=R.dev(res.asnumpy().reshape(P.shape), P), complex_field=cplx, **w)
    # random field: per-bin mean of |f|^2
    g = rng.standard_normal(hdom.shape) + (1j * rng.standard_normal(hdom.shape) if cplx else 0)
    fg = ift.makeField(hdom, g.copy())
    g3 = np.abs(g.reshape(pre, len(pidx), post)) ** 2
    Dn = D / cnt[None, :]
    expg = np.einsum("kb,pkq->pbq", Dn, g3)
    res = ift.power_analyze(fg, spaces=spell, binbounds=spell_bb(rng, bb))
    ck.hit("analyze_random_field")
    if res.domain is not pdom or not R.close(res.asnumpy().reshape(expg.shape), expg):
        ck.violation("power_analyze:random-field", "power_analyze is not the per-bin mean of |f|^2",
                     dev=R.dev(res.asnumpy().reshape(expg.shape), expg), complex_field=cplx, **w)
    # phase information
    ck.hit("analyze_phase_info")
    if cplx:
        er = np.einsum("kb,pkq->pbq", Dn, g.real.reshape(pre, -1, post) ** 2)
        ei = np.einsum("kb,pkq->pbq", Dn, g.imag.reshape(pre, -1, post) ** 2)
        try:
            rp = ift.power_analyze(fg, spaces=spell, binbounds=spell_bb(rng, bb), keep_phase_information=True)
        except ValueError as e:
            ck.violation("power_analyze:keep_phase:complex-field-rejected", "power_analyze(keep_phase_information="
                         "True) raises for a complex field (the documented use)", err=str(e)[:200])
        else:
            a = rp.asnumpy().reshape(er.shape)
            if rp.domain is not pdom or not (R.close(a.real, er) and R.close(a.imag, ei)):
                ck.violation("power_analyze:keep_phase:values", "keep_phase_information: real/imaginary parts are "
                             "not the spectra of the real/imaginary parts of the field", **w)
            # purely real-valued complex field: |result| == plain analysis
            fr0 = ift.makeField(hdom, (g.real + 0j).copy())
            r0 = ift.power_analyze(fr0, spaces=spell, binbounds=spell_bb(rng, bb), keep_phase_information=True)
            if not R.close(np.abs(r0.asnumpy()).reshape(er.shape), er):
                ck.violation("power_analyze:keep_phase:abs", "|power_analyze(keep_phase)| differs from the plain "
                             "analysis for a field without imaginary part", **w)
    else:
        try:
            ift.power_analyze(fg, spaces=spell, binbounds=spell_bb(rng, bb), keep_phase_information=True)
            ck.violation("power_analyze:keep_phase:real-field-accepted", "keep_phase_information=True on a "
                         "real-valued field returned a result (documented: ValueError)")
        except ValueError:
            pass
    # no space / non-harmonic space must be refused
    try:
        ift.power_analyze(ff, spaces=())
        ck.violation("power_analyze:empty-spaces-accepted", "power_analyze with no space returned a result")
    except ValueError:
        pass
    return cplx


def case(ck, i):
    ift = ck.state["ift"]
    from vf.dense import dense_op
    rng = ck.rng()
    import warnings
    warnings.simplefilter("ignore")
    hdesc, bkind, bb, ds, space = gen_config(rng)
    hds, pds = harm_tuple(ds), pow_tuple(ds)
    hdom = R.build_tuple(hds, int(rng.integers(0, 12)))
    hsp = hdom[space]
    k, pidx, nbin = bins_of(hdesc, bb)
    cnt = np.bincount(pidx, minlength=nbin)
    two = bool((cnt >= 2).any())
    if two:
        ck.hit("bins_with_2_modes")
    if bb is not None:
        ck.hit("custom_binnings")
    if len(ds) > 1:
        ck.hit("product_domains")
    w = dict(hdesc=hdesc, bb=bb, space=space, ds=[d["t"] for d in ds])
    ps = ift.PowerSpace(hsp, spell_bb(rng, bb))
    pdom = ift.DomainTuple.make(tuple(ps if j == space else hdom[j] for j in range(len(ds))))
    shape_h = R.tuple_shape(hds)
    axes_h = R.tuple_axes(hds)[space]
    pre = int(np.prod(shape_h[:axes_h[0]], dtype=np.int64))
    post = int(np.prod(shape_h[axes_h[-1] + 1:], dtype=np.int64))
    D = indicator(pidx, nbin)
    Db = np.kron(np.kron(np.eye(pre), D), np.eye(post))

    # ---- PowerDistributor ----------------------------------------------------
    sp_arg = None if len(ds) == 1 and rng.integers(0, 2) else space
    pd = ift.PowerDistributor(hdom, ps, sp_arg)
    if pd.domain is not pdom or pd.target is not hdom:
        ck.violation("distributor:domains", "PowerDistributor domain/target are not (power space at the chosen "
                     "index, harmonic domain)", got=[str(pd.domain), str(pd.target)], **w)
    else:
        ck.hit("distributor_times")
        cmp_mat(ck, dense_op(pd, pd.TIMES), Db, "distributor:TIMES", "PowerDistributor does not assign every "
                "mode the value of its bin", **w)
        ck.hit("distributor_adjoint")
        cmp_mat(ck, dense_op(pd, pd.ADJOINT_TIMES), Db.T, "distributor:ADJOINT_TIMES",
                "PowerDistributor adjoint does not sum over each bin", **w)
        z = rng.standard_normal(pdom.shape) + 1j * rng.standard_normal(pdom.shape)
        y = pd(ift.makeField(pdom, z.copy()))
        e = (Db @ z.reshape(-1)).reshape(hdom.shape)
        if y.domain is not hdom or not R.close(y.asnumpy(), e):
            ck.violation("distributor:TIMES:complex", "PowerDistributor on a complex spectrum is wrong",
                         dev=R.dev(y.asnumpy(), e), **w)
        zh = rng.standard_normal(hdom.shape) + 1j * rng.standard_normal(hdom.shape)
        ya = pd.adjoint_times(ift.makeField(hdom, zh.copy()))
        ea = (Db.T @ zh.reshape(-1)).reshape(pdom.shape)
        if ya.domain is not pdom or not R.close(ya.asnumpy(), ea, ref=np.abs(zh).sum()):
            ck.violation("distributor:ADJOINT_TIMES:complex", "PowerDistributor adjoint on a complex field is wrong",
                         dev=R.dev(ya.asnumpy(), ea), **w)
        if pd.capability != (pd.TIMES | pd.ADJOINT_TIMES):
            ck.violation("distributor:capability", "PowerDistributor advertises unexpected modes")
    if bb is None and rng.integers(0, 2):
        pd0 = ift.PowerDistributor(hdom, None, sp_arg)      # default: natural binning
        ck.hit("distributor_times")
        if pd0.domain is not pdom:
            ck.violation("distributor:default-power-space", "default power_space is not the natural PowerSpace", **w)
        else:
            cmp_mat(ck, dense_op(pd0, pd0.TIMES), Db, "distributor:TIMES:default-power-space",
                    "PowerDistributor with default power space is wrong", **w)
    # mismatching power space must be refused
    if hdesc["t"] == "RG":
        oth = dict(hdesc)
        oth["dist"] = [2.0 * x for x in R.rg_distances(hdesc)]
        try:
            ift.PowerDistributor(hdom, ift.PowerSpace(R.build(oth, 0)), sp_arg)
            ck.violation("distributor:foreign-power-space-accepted", "PowerDistributor accepts a PowerSpace of "
                         "another harmonic partner", **w)
        except ValueError:
            pass

    # ---- power_analyze ----------------------------------------------------------
    has_u = any(d["t"] == "U" for d in ds)
    cplx = None
    try:
        cplx = analyze_section(ck, ift, rng, hdom, pdom, ds, space, bb, pidx, nbin, cnt, D, pre, post, w)
    except AttributeError as e:
        if not (has_u and ("harmonic" in str(e) or "dvol" in str(e))):
            raise
        ck.violation("power_analyze:unstructured-factor-crash", "power_analyze crashes when the product "
                     "domain contains an UnstructuredDomain next to the analysed harmonic space",
                     err=str(e)[:200], **w)

    # ---- analysis over two harmonic sub-spaces -------------------------------------
    if rng.integers(0, 3) == 0:
        h2 = R.gen_harmonic_desc(rng, maxdim=1, maxn=5, maxl=2, maxsize=9, minn=1)
        if R.desc_size(hdesc) * R.desc_size(h2) <= 200:
            k1, p1, n1 = bins_of(hdesc, None)
            k2, p2, n2 = bins_of(h2, None)
            mid = ift.RGSpace(2)
            d2 = ift.DomainTuple.make((R.build(hdesc, 1), mid, R.build(h2, 2)))
            g2 = rng.standard_normal(d2.shape)
            fld = ift.makeField(d2, g2.copy())
            sp2 = [None, (0, 2), (2, 0), [0, 2]][int(rng.integers(1, 4))]
            r2 = ift.power_analyze(fld, spaces=sp2)
            e2 = np.einsum("ka,kul,lb->aub", indicator(p1, n1) / np.bincount(p1)[None, :],
                           g2.reshape(len(p1), 2, len(p2)) ** 2, indicator(p2, n2) / np.bincount(p2)[None, :])
            ed = ift.DomainTuple.make((ift.PowerSpace(d2[0]), mid, ift.PowerSpace(d2[2])))
            ck.hit("analyze_two_spaces")
            if r2.domain is not ed or not R.close(r2.asnumpy(), e2):
                ck.violation("power_analyze:two-spaces", "power_analyze over two harmonic sub-spaces is not the "
                             "per-bin mean over both", h1=hdesc, h2=h2, spaces=repr(sp2),
                             dev=R.dev(r2.asnumpy(), e2) if r2.domain is ed else "domain")

    # ---- create_power_operator ------------------------------------------------------
    Pb = 0.5 + rng.uniform(0, 1, nbin) + np.arange(nbin)
    use_callable = bb is None and rng.integers(0, 2) == 0
    sp_arg2 = None if len(ds) == 1 and rng.integers(0, 2) else space
    if use_callable:
        kmean = np.bincount(pidx, weights=k, minlength=nbin) / cnt
        c0, c1 = float(rng.uniform(0.5, 2)), float(rng.uniform(0.1, 1))
        spec = lambda kk: c0 / (1.0 + c1 * kk) ** 2
        Pb = spec(kmean)
        op = ift.create_power_operator(hdom, spec, sp_arg2)
        ck.hit("power_operator_callable")
        psf = ift.PS_field(ps, spec)
        if psf.domain is not ift.DomainTuple.make(ps) or not R.close(psf.asnumpy(), Pb):
            ck.violation("PS_field", "PS_field is not the function evaluated at the bins' k_lengths", **w)
        kind = "callable"
    else:
        pf = ift.makeField(ift.DomainTuple.make(ps), Pb.copy())
        sdt = [None, np.float64][int(rng.integers(0, 2))]
        ck.hit("power_operator_field")
        kind = "field"
        try:
            op = ift.create_power_operator(hdom, pf, sp_arg2, sampling_dtype=sdt)
        except TypeError as e:
            ck.violation("power_operator:field-spectrum-rejected", "create_power_operator raises TypeError for a "
                         "spectrum given as Field on a PowerSpace (documented input)", err=repr(e)[:200], **w)
            op = None
    diag = np.kron(np.kron(np.ones(pre), Pb[pidx]), np.ones(post))
    if op is None:
        pass
    elif op.domain is not hdom or op.target is not hdom:
        ck.violation("power_operator:domain", "create_power_operator is not an endomorphism of the given domain", **w)
    else:
        cmp_mat(ck, dense_op(op, op.TIMES), np.diag(diag), f"power_operator:{kind}",
                "create_power_operator is not diag(distributed spectrum) on the chosen space (x) identity",
                **w)
        zz = rng.standard_normal(hdom.shape) + 1j * rng.standard_normal(hdom.shape)
        yy = op(ift.makeField(hdom, zz.copy())).asnumpy()
        if not R.close(yy, diag.reshape(hdom.shape) * zz):
            ck.violation(f"power_operator:{kind}:complex", "power operator on a complex field is wrong", **w)
    ck.note(dict(hdesc=hdesc, binning=bkind, bb=bb, ds=ds, space=space, cplx=cplx, popkind=kind),
            nontrivial=two and (bb is not None or len(ds) > 1),
            klass=hdesc["t"] + "-" + bkind + ("-prod" if len(ds) > 1 else ""))
