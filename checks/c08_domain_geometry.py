"""C08 -- Domain geometry is self-consistent and domain identity is canonical.

Runs the real domain classes on generated descriptions and compares every
geometric observable (shape/size/dvol/scalar_dvol/total_volume, distances of
codomains, k-length tables, unique k-lengths, PowerSpace pindex/k_lengths/dvol,
DOFSpace weights) with closed forms computed from the *description* alone
(vf/domains_ref.py).  Identity: equal descriptions written in different ways
must give the identical DomainTuple / MultiDomain object (also through pickle
and deepcopy), equal plain domains must be == with equal hash, and descriptions
that differ in one parameter must give different, unequal objects.
"""
import copy
import pickle

import numpy as np

from vf import domains_ref as R

META = dict(
    id="C08", level="exploration",
    title="Domain geometry is self-consistent and domain identity is canonical",
    technique="closed-form geometry oracle from descriptors + object-identity/pickle histories",
    rule=("case i -> family (i+i//8)%8 in {RG, RG, LM, SPHERE(GL/HP), PS, PS, DOF, IDENT}. RG: 1-3-D, 1..9 "
          "pixels/axis, default/scalar/equal/nearly-equal/very-unequal/random distances, position or "
          "harmonic, 4 spellings; LM: all lmax<=8, mmax<=lmax (enumerated); GL nlat<=8, nlon "
          "default/custom; HP nside 1-4; PS over RG/LM partners with natural, random mid-point, "
          "jittered, linear, logarithmic and useful_binbounds binnings (several per partner in one "
          "process, to expose cache mix-ups); DOF over RG/GL/LM; IDENT: 1-3 DomainTuples and a "
          "MultiDomain (1-4 keys) built twice through different spellings/insertion orders, then a "
          "history of make/pickle/deepcopy, plus one-parameter perturbations that must be unequal. "
          "non-trivial: >=2-D grid with unequal distances, custom binning, LM with mmax<lmax, GL with "
          "custom nlon, DOF over a non-uniform partner, or an IDENT case with a MultiDomain of >=2 "
          "keys; distinct = distinct descriptor"),
    assumptions=["bin membership for k exactly on a bin bound is not specified: bounds closer than "
                 "1e-9 (relative) to a k-length are not generated / are skipped",
                 "equal descriptions = same numbers written with different container / scalar types "
                 "or documented defaults written out; numerically different routes to 'the same' "
                 "distances (e.g. 1/(n*(1/(n*d)))) are not claimed to be equal",
                 "GL ring order is not observable from the (symmetric) weights"],
    need=["rg_geometry", "klength_tables", "unique_klengths", "lm_layout", "sphere_volumes",
          "ps_partition", "ps_volumes", "ps_klengths", "ps_cache_sequences", "dof_volumes",
          "identity_is", "pickle_roundtrips", "unequal_pairs", "eq_hash_pairs", "cross_process_pickles"],
    quick=dict(cases=1600, workers=10, budget_s=60),
    thorough=dict(cases=40000, workers=16, budget_s=600),
    design_ref="DESIGN.md §5 C08",
    level_text=("exploration of generated domain descriptions against closed forms; the small LM/GL/HP "
                "parameter ranges are enumerated completely, everything else is sampled"),
    level_note=("trusts numpy.polynomial.legendre.leggauss for the Gauss-Legendre weights and Python's "
                "pickle; default-codomain parameter choices are only checked for sufficiency "
                "(band limit), not for exact values"),
)

FAMS = ["RG", "RG", "LM", "SPH", "PS", "PS", "DOF", "IDENT"]


def init(ck):
    import nifty.cl as ift
    ck.state["ift"] = ift


# ------------------------------------------------------------------ helpers ---
def chk(ck, cond, key, what, **w):
    if not cond:
        ck.violation(key, what, **w)
    return cond


def rel_close(a, b, rtol=1e-11):
    return R.close(a, b, rtol=rtol)


def check_pickle_plain(ck, dom, tag):
    """plain domains: == and equal hash after a pickle round trip"""
    d2 = pickle.loads(pickle.dumps(dom))
    ck.hit("pickle_roundtrips")
    chk(ck, d2 == dom and dom == d2 and not (d2 != dom), f"pickle-plain-domain-unequal:{tag}",
        f"{tag} is not equal to its pickle round trip", dom=repr(dom), back=repr(d2))
    chk(ck, hash(d2) == hash(dom), f"pickle-plain-domain-hash:{tag}",
        f"{tag}: hash changes in a pickle round trip", dom=repr(dom))
    return d2


# ----------------------------------------------------------------------- RG ---
def case_rg(ck, rng):
    ift = ck.state["ift"]
    maxdim = 3
    desc = R.gen_rg_desc(rng, maxdim=maxdim, maxn=9, minn=1, maxsize=400)
    route = int(rng.integers(0, 4))
    dom = R.build(desc, route)
    shape = tuple(desc["shape"])
    dist = R.rg_distances(desc)
    n = int(np.prod(shape))
    ck.hit("rg_geometry")
    chk(ck, dom.shape == shape and dom.size == n and dom.harmonic == desc["harmonic"],
        "rg:shape-size-harmonic", "RGSpace shape/size/harmonic differ from the description",
        got=[dom.shape, dom.size, dom.harmonic], desc=desc)
    chk(ck, len(dom.distances) == len(shape) and rel_close(dom.distances, dist),
        "rg:distances", "RGSpace.distances differ from the description (documented defaults)",
        got=list(map(float, dom.distances)), exp=dist)
    vol = float(np.prod(dist))
    chk(ck, rel_close(dom.scalar_dvol, vol), "rg:scalar_dvol",
        "scalar_dvol is not the product of the distances", got=dom.scalar_dvol, exp=vol)
    chk(ck, np.isscalar(dom.dvol) and dom.dvol == dom.scalar_dvol, "rg:dvol-vs-scalar_dvol",
        "dvol and scalar_dvol disagree", got=[dom.dvol, dom.scalar_dvol])
    chk(ck, rel_close(dom.total_volume, n * vol), "rg:total_volume",
        "total_volume != size * pixel volume", got=dom.total_volume, exp=n * vol)
    chk(ck, rel_close(dom.extents, [a * b for a, b in zip(shape, dist)]), "rg:extents",
        "extents != shape*distances", got=list(dom.extents))

    cod = dom.get_default_codomain()
    cdist = R.rg_codomain_distances(desc)
    ck.hit("rg_geometry")
    ok = chk(ck, isinstance(cod, ift.RGSpace) and cod.shape == shape and
             cod.harmonic == (not desc["harmonic"]), "rg:codomain-type",
             "default codomain has wrong shape / harmonic flag", got=repr(cod))
    if ok:
        chk(ck, rel_close(cod.distances, cdist), "rg:codomain-distances",
            "codomain distances are not 1/(n*d)", got=list(map(float, cod.distances)), exp=cdist)
        chk(ck, rel_close(cod.scalar_dvol * dom.scalar_dvol * n, 1.0), "rg:codomain-volume",
            "pixel volumes of partner grids do not multiply to 1/N",
            got=cod.scalar_dvol * dom.scalar_dvol * n)
        try:
            dom.check_codomain(cod)
            cod.check_codomain(dom)
        except Exception as e:
            ck.violation("rg:check_codomain-rejects-default", "check_codomain rejects the default codomain",
                         err=repr(e), desc=desc)
        back = cod.get_default_codomain()
        ck.hit("eq_hash_pairs")
        chk(ck, back == dom and hash(back) == hash(dom) and
            ift.DomainTuple.make(back) is ift.DomainTuple.make(dom), "rg:codomain-roundtrip",
            "codomain of the codomain is not the original grid", got=repr(back), exp=repr(dom))
        ck.hit("unequal_pairs")
        chk(ck, cod != dom and not (cod == dom) and
            ift.DomainTuple.make(cod) is not ift.DomainTuple.make(dom), "rg:partner-equal",
            "a grid compares equal to its harmonic partner", a=repr(dom), b=repr(cod))

    hdom, hdist = (dom, dist) if desc["harmonic"] else (cod, cdist)
    kref = R.rg_klengths(shape, hdist)
    kf = hdom.get_k_length_array()
    ck.hit("klength_tables")
    chk(ck, kf.domain is ift.DomainTuple.make(hdom) and rel_close(kf.asnumpy(), kref, 1e-10),
        "rg:k_length_array", "k-length table differs from ||min(i,n-i)*d||",
        dev=R.dev(kf.asnumpy(), kref), desc=desc)
    uref = R.unique_sorted(kref)
    u = np.asarray(hdom.get_unique_k_lengths())
    ck.hit("unique_klengths")
    ukey = "rg:unique_k_lengths" + (":zero-only-table" if not np.any(kref) else "")
    chk(ck, u.shape == uref.shape and rel_close(u, uref, 1e-10), ukey,
        "unique k-lengths are not the sorted distinct entries of the k-length table",
        got=R.small(u, 8), exp=R.small(uref, 8), n=[len(u), len(uref)], desc=desc)
    check_pickle_plain(ck, dom, "RGSpace")
    # equal description through another spelling
    other = R.build(desc, (route + 1 + int(rng.integers(0, 3))) % 4)
    ck.hit("eq_hash_pairs")
    chk(ck, other == dom and hash(other) == hash(dom), "rg:equal-descriptions-unequal",
        "the same grid description written differently gives unequal RGSpaces",
        a=repr(dom), b=repr(other))
    aniso = len(shape) >= 2 and len(set(dist)) > 1
    ck.note(dict(fam="RG", desc=desc, route=route), nontrivial=aniso, klass="RG%dD" % len(shape))


# ----------------------------------------------------------------------- LM ---
def lm_combos(lmax_max=8):
    out = []
    for l in range(lmax_max + 1):
        out.append((l, None))
        for m in range(l + 1):
            out.append((l, m))
    return out


def case_lm(ck, rng, j):
    ift = ck.state["ift"]
    combos = lm_combos()
    lmax, mmax = combos[j % len(combos)]
    desc = dict(t="LM", lmax=lmax, mmax=mmax)
    dom = R.build(desc, int(rng.integers(0, 2)))
    L, M, P = R.lm_layout(lmax, mmax)
    mm = lmax if mmax is None else mmax
    ck.hit("lm_layout")
    chk(ck, dom.size == len(L) and dom.shape == (len(L),) and dom.lmax == lmax and dom.mmax == mm
        and dom.harmonic is True, "lm:size", "LMSpace size/shape/lmax/mmax differ from the layout",
        got=[dom.size, dom.shape, dom.lmax, dom.mmax], exp=len(L), desc=desc)
    k = dom.get_k_length_array()
    ck.hit("klength_tables")
    chk(ck, k.domain is ift.DomainTuple.make(dom) and np.array_equal(k.asnumpy(), L.astype(float)),
        "lm:k_length_array", "LMSpace k-lengths are not l per (l,m) entry",
        got=R.small(k.asnumpy(), 12), exp=R.small(L, 12), desc=desc)
    ck.hit("unique_klengths")
    chk(ck, np.array_equal(np.asarray(dom.get_unique_k_lengths()), np.arange(lmax + 1.)),
        "lm:unique_k_lengths", "LMSpace unique k-lengths are not 0..lmax", desc=desc)
    ck.hit("sphere_volumes")
    chk(ck, dom.scalar_dvol == 1. and dom.dvol == 1. and dom.total_volume == dom.size,
        "lm:volume", "LMSpace volume factors are not 1", got=[dom.scalar_dvol, dom.total_volume])
    cod = dom.get_default_codomain()
    ok = isinstance(cod, ift.GLSpace) and cod.nlat >= lmax + 1 and cod.nlon >= 2 * mm + 1
    chk(ck, ok, "lm:default-codomain", "default codomain of an LMSpace cannot represent its band limit",
        got=repr(cod), desc=desc)
    try:
        dom.check_codomain(cod)
        cod.check_codomain(dom)
    except Exception as e:
        ck.violation("lm:check_codomain-rejects-default", "check_codomain rejects the default codomain",
                     err=repr(e))
    check_pickle_plain(ck, dom, "LMSpace")
    ck.hit("eq_hash_pairs")
    eqv = ift.LMSpace(lmax, mm)
    chk(ck, eqv == dom and hash(eqv) == hash(dom), "lm:equal-descriptions-unequal",
        "LMSpace(lmax) and LMSpace(lmax, mmax=lmax) (or re-built) are unequal", desc=desc)
    ck.hit("unequal_pairs")
    oth = ift.LMSpace(lmax + 1, mm)
    chk(ck, oth != dom, "lm:different-equal", "LMSpaces with different lmax compare equal", desc=desc)
    if mm > 0:
        oth = ift.LMSpace(lmax, mm - 1)
        chk(ck, oth != dom and ift.DomainTuple.make(oth) is not ift.DomainTuple.make(dom),
            "lm:different-equal", "LMSpaces with different mmax compare equal", desc=desc)
    ck.note(dict(fam="LM", desc=desc), nontrivial=(mm < lmax), klass="LM")


# ------------------------------------------------------------------ GL / HP ---
def case_sphere(ck, rng, j):
    ift = ck.state["ift"]
    if j % 4 == 3:
        nside = [1, 2, 4, 3][(j // 4) % 4]
        desc = dict(t="HP", nside=nside)
        dom = R.build(desc, int(rng.integers(0, 2)))
        npix = 12 * nside * nside
        ck.hit("sphere_volumes")
        chk(ck, dom.size == npix and dom.shape == (npix,) and dom.harmonic is False, "hp:size",
            "HPSpace size is not 12 nside^2", got=dom.size, desc=desc)
        chk(ck, rel_close(dom.scalar_dvol, 4 * np.pi / npix) and dom.dvol == dom.scalar_dvol,
            "hp:dvol", "HPSpace pixel volume is not 4pi/npix", got=dom.scalar_dvol)
        chk(ck, rel_close(dom.total_volume, 4 * np.pi), "hp:total_volume",
            "HPSpace total volume is not 4 pi", got=dom.total_volume)
        cod = dom.get_default_codomain()
        chk(ck, isinstance(cod, ift.LMSpace), "hp:default-codomain", "HPSpace codomain is no LMSpace")
        dom.check_codomain(cod)
        check_pickle_plain(ck, dom, "HPSpace")
        ck.hit("unequal_pairs")
        chk(ck, ift.HPSpace(nside + 1) != dom, "hp:different-equal",
            "HPSpaces with different nside compare equal")
        ck.hit("eq_hash_pairs")
        chk(ck, ift.HPSpace(nside) == dom and hash(ift.HPSpace(nside)) == hash(dom),
            "hp:equal-descriptions-unequal", "equal HPSpaces unequal")
        ck.note(dict(fam="HP", desc=desc), nontrivial=False, klass="HP")
        return
    nlat = 1 + (j // 4) % 8
    custom = bool(rng.integers(0, 2))
    nlon = int(rng.integers(1, 13)) if custom else None
    desc = dict(t="GL", nlat=nlat, nlon=nlon)
    dom = R.build(desc, int(rng.integers(0, 2)))
    nl = nlon if nlon is not None else 2 * nlat - 1
    ck.hit("sphere_volumes")
    chk(ck, dom.size == nlat * nl and dom.shape == (nlat * nl,) and dom.nlat == nlat and dom.nlon == nl
        and dom.harmonic is False, "gl:size", "GLSpace size/nlat/nlon differ from the description",
        got=[dom.size, dom.nlat, dom.nlon], desc=desc)
    ref = R.gl_dvol(nlat, nl)
    dv = np.asarray(dom.dvol)
    chk(ck, dv.shape == (nlat * nl,) and rel_close(dv, ref, 1e-10), "gl:dvol",
        "GLSpace pixel volumes are not the Gauss-Legendre weights * 2pi/nlon",
        dev=R.dev(dv, ref), desc=desc)
    chk(ck, dom.scalar_dvol is None, "gl:scalar_dvol", "GLSpace claims a uniform pixel volume")
    chk(ck, rel_close(dom.total_volume, float(np.sum(dv)), 1e-10) and
        rel_close(dom.total_volume, 4 * np.pi, 1e-10), "gl:total_volume",
        "GLSpace total volume is not the sum of the pixel volumes (4 pi)",
        got=[dom.total_volume, float(np.sum(dv))])
    # second call returns the same values (cached ring weights)
    chk(ck, np.array_equal(np.asarray(dom.dvol), dv), "gl:dvol-unstable", "GLSpace.dvol changes between calls")
    cod = dom.get_default_codomain()
    chk(ck, isinstance(cod, ift.LMSpace) and cod.mmax <= cod.lmax, "gl:default-codomain",
        "GLSpace codomain is no LMSpace", got=repr(cod))
    dom.check_codomain(cod)
    check_pickle_plain(ck, dom, "GLSpace")
    ck.hit("eq_hash_pairs")
    e2 = ift.GLSpace(nlat, nl)
    chk(ck, e2 == dom and hash(e2) == hash(dom), "gl:equal-descriptions-unequal",
        "GLSpace(nlat) and GLSpace(nlat, 2nlat-1) (or re-built) are unequal", desc=desc)
    ck.hit("unequal_pairs")
    chk(ck, ift.GLSpace(nlat, nl + 1) != dom and ift.GLSpace(nlat + 1, nl) != dom, "gl:different-equal",
        "GLSpaces with different nlat/nlon compare equal", desc=desc)
    ck.note(dict(fam="GL", desc=desc), nontrivial=custom, klass="GL")


# ----------------------------------------------------------------------- PS ---
def verify_ps(ck, ift, ps, hdesc, bb, partner, tag):
    """all geometric observables of a PowerSpace against the description"""
    k = R.klengths_of(hdesc)
    pv = R.desc_dvol(hdesc)
    if bb is None:
        u = R.unique_sorted(k)
        bounds = 0.5 * (u[:-1] + u[1:])
    else:
        bounds = np.asarray(bb, dtype=float)
    if R.bounds_margin(k, bounds) < 1e-9:
        return False
    pref = R.ref_bins(k, bounds)
    nbin = len(bounds) + 1
    cnt = np.bincount(pref.reshape(-1), minlength=nbin)
    ck.hit("ps_partition")
    pidx = np.asarray(ps.pindex)
    ok = chk(ck, ps.shape == (nbin,) and ps.size == nbin, f"ps:{tag}:nbin",
             "PowerSpace size is not len(binbounds)+1 / number of distinct k", got=ps.shape, exp=nbin,
             hdesc=hdesc, bb=bb)
    ok &= chk(ck, pidx.shape == k.shape and np.array_equal(pidx, pref), f"ps:{tag}:pindex",
              "pindex is not the partition of the partner pixels defined by the bin bounds",
              got=R.small(pidx, 16), exp=R.small(pref, 16), hdesc=hdesc, bb=bb)
    if ok:
        chk(ck, set(np.unique(pidx)) == set(range(nbin)), f"ps:{tag}:empty-bin",
            "a PowerSpace bin is empty", hdesc=hdesc, bb=bb)
    ck.hit("ps_volumes")
    dv = np.asarray(ps.dvol)
    chk(ck, dv.shape == (nbin,) and rel_close(dv, cnt * pv, 1e-11), f"ps:{tag}:dvol",
        "PowerSpace.dvol[b] is not (number of member pixels) * partner pixel volume",
        got=R.small(dv, 8), exp=R.small(cnt * pv, 8), hdesc=hdesc, bb=bb)
    chk(ck, ps.scalar_dvol is None, f"ps:{tag}:scalar_dvol", "PowerSpace claims uniform volume")
    tv = k.size * pv
    chk(ck, rel_close(ps.total_volume, tv, 1e-11) and rel_close(np.sum(dv), partner.total_volume, 1e-11),
        f"ps:{tag}:total_volume", "sum of bin volumes is not the partner's total volume",
        got=[float(ps.total_volume), float(partner.total_volume)], exp=tv)
    ck.hit("ps_klengths")
    kl = np.asarray(ps.k_lengths)
    kmean = np.bincount(pref.reshape(-1), weights=k.reshape(-1), minlength=nbin) / np.maximum(cnt, 1)
    chk(ck, kl.shape == (nbin,) and R.close(kl, kmean, rtol=1e-11), f"ps:{tag}:k_lengths",
        "PowerSpace.k_lengths[b] is not the mean k of the member pixels",
        got=R.small(kl, 8), exp=R.small(kmean, 8), hdesc=hdesc, bb=bb)
    if bb is None:
        chk(ck, ps.binbounds is None, f"ps:{tag}:binbounds", "natural binning reports bin bounds")
    else:
        chk(ck, ps.binbounds is not None and len(ps.binbounds) == len(bb) and
            np.array_equal(np.asarray(ps.binbounds, dtype=float), np.asarray(bb, dtype=float)),
            f"ps:{tag}:binbounds", "binbounds property differs from the requested bounds",
            got=None if ps.binbounds is None else R.small(ps.binbounds, 8), exp=R.small(bb, 8))
    chk(ck, ps.harmonic is False and ps.harmonic_partner == partner, f"ps:{tag}:partner",
        "PowerSpace.harmonic_partner / harmonic flag wrong")
    return True


def case_ps(ck, rng):
    ift = ck.state["ift"]
    hdesc = R.gen_harmonic_desc(rng, maxdim=3, maxn=9, maxl=8, maxsize=350, minn=1)
    k = R.klengths_of(hdesc)
    u = R.unique_sorted(k)
    pv = R.desc_dvol(hdesc)
    # sequence of binnings on fresh-but-equal partner objects (cache keyed by partner & bounds)
    seq = []
    nseq = int(rng.integers(2, 5))
    kinds_avail = ["natural", "gen", "gen", "linear", "log", "useful"]
    for _ in range(nseq):
        seq.append(kinds_avail[int(rng.integers(0, len(kinds_avail)))])
    if "natural" not in seq:
        seq.insert(int(rng.integers(0, len(seq) + 1)), "natural")
    custom = False
    done = []
    built = []
    for step, kind in enumerate(seq):
        partner = R.build(hdesc, int(rng.integers(0, 4)))
        expect_fail = False
        bb = None
        if kind == "natural":
            bb = None
        elif kind == "gen":
            kd, bb = R.gen_binbounds(rng, hdesc, allow_none=False)
            kind = "gen-" + kd
        elif kind in ("linear", "log"):
            if len(u) < 3:
                continue
            nb = int(rng.integers(3, min(len(u), 7) + 1))
            lo = float(rng.uniform(0.55, 0.95) * u[1]) if u[0] == 0 else float(u[0] * 1.01)
            lo = max(lo, 0.5 * (u[0] + u[1]) * 0.6)
            hi = float(rng.uniform(0.5 * (u[-2] + u[-1]), u[-1]) * 0.999)
            if not hi > lo:
                continue
            if kind == "linear":
                got = ift.PowerSpace.linear_binbounds(nb, lo, hi)
                exp = lo + (hi - lo) * np.arange(nb - 1) / (nb - 2) if nb > 2 else None
            else:
                got = ift.PowerSpace.logarithmic_binbounds(nb, lo, hi)
                exp = np.exp(np.log(lo) + (np.log(hi) - np.log(lo)) * np.arange(nb - 1) / (nb - 2))
            ck.hit("binbound_helpers")
            chk(ck, np.asarray(got).shape == (nb - 1,) and R.close(got, exp, rtol=1e-12),
                f"ps:{kind}_binbounds", f"{kind}_binbounds are not nbin-1 {kind}ly spaced bounds "
                "from first_bound to last_bound", got=R.small(got, 8), exp=R.small(exp, 8))
            bb = [float(x) for x in got]
            cnt = np.bincount(R.ref_bins(k, bb).reshape(-1), minlength=len(bb) + 1)
            expect_fail = bool((cnt == 0).any())
        elif kind == "useful":
            if len(u) < 3:
                try:
                    ift.PowerSpace.useful_binbounds(partner, bool(rng.integers(0, 2)))
                    ck.violation("ps:useful_binbounds-accepts-tiny-space",
                                 "useful_binbounds accepts a space with < 3 distinct k", hdesc=hdesc)
                except ValueError:
                    pass
                continue
            logar = bool(rng.integers(0, 2))
            nb = None if rng.integers(0, 2) else int(rng.integers(3, len(u) + 2))
            try:
                got = ift.PowerSpace.useful_binbounds(partner, logar, nb)
            except ValueError:
                continue      # 'nbin is too large' -- allowed refusal
            ck.hit("binbound_helpers")
            lo, hi = 0.5 * (u[0] + u[1]), 0.5 * (u[-2] + u[-1])
            okb = len(got) >= 2 and R.close(got[0], lo, rtol=1e-10) and R.close(got[-1], hi, rtol=1e-10) \
                and (nb is None or len(got) == nb - 1) and np.all(np.diff(got) > 0)
            chk(ck, okb, "ps:useful_binbounds", "useful_binbounds: first/last bound are not the outer "
                "mid points, or wrong number of bounds", got=R.small(got, 8), exp=[lo, hi], nbin=nb)
            # the unique-k table handed out by the domain must not have been modified
            u2 = np.asarray(partner.get_unique_k_lengths())
            chk(ck, u2.shape == u.shape and R.close(u2, u, rtol=1e-10), "ps:useful_binbounds-corrupts-domain",
                "useful_binbounds changed the domain's unique k-lengths", got=R.small(u2, 6), exp=R.small(u, 6))
            bb = [float(x) for x in got]
            cnt = np.bincount(R.ref_bins(k, bb).reshape(-1), minlength=len(bb) + 1)
            expect_fail = bool((cnt == 0).any())
            kind = "useful-log" if logar else "useful-lin"
        if bb is not None and R.bounds_margin(k, bb) < 1e-9:
            continue
        spelled = bb
        if bb is not None:
            r = int(rng.integers(0, 3))
            spelled = tuple(bb) if r == 0 else (list(bb) if r == 1 else np.array(bb))
        try:
            ps = ift.PowerSpace(partner, spelled)
        except ValueError as e:
            if expect_fail and "empty" in str(e):
                ck.hit("ps_empty_bin_refusals")
                done.append([kind, "refused-empty"])
                continue
            raise
        if expect_fail:
            ck.violation("ps:empty-bin-accepted", "PowerSpace accepted bin bounds that leave a bin empty",
                         hdesc=hdesc, bb=bb)
            continue
        tag = "natural" if bb is None else "custom"
        if verify_ps(ck, ift, ps, hdesc, bb, partner, tag):
            done.append([kind, None if bb is None else [round(x, 6) for x in bb]])
            built.append((ps, bb))
            custom |= bb is not None
    if len(built) >= 2:
        ck.hit("ps_cache_sequences")
    # equality / identity among the PowerSpaces of this case
    for a in range(len(built)):
        psa, bba = built[a]
        p2 = pickle.loads(pickle.dumps(psa))
        ck.hit("pickle_roundtrips")
        chk(ck, p2 == psa and hash(p2) == hash(psa) and np.array_equal(p2.pindex, psa.pindex) and
            np.array_equal(np.asarray(p2.dvol), np.asarray(psa.dvol)), "pickle-plain-domain-unequal:PowerSpace",
            "PowerSpace differs from its pickle round trip", hdesc=hdesc, bb=bba)
        chk(ck, ift.DomainTuple.make(p2) is ift.DomainTuple.make(psa), "identity:tuple-of-pickled-domain",
            "DomainTuple of a pickled PowerSpace is not the DomainTuple of the original")
        # rebuilt from a fresh equal partner with another container type
        re = ift.PowerSpace(R.build(hdesc, a + 1), None if bba is None else list(bba))
        ck.hit("eq_hash_pairs")
        chk(ck, re == psa and hash(re) == hash(psa), "ps:equal-descriptions-unequal",
            "equal PowerSpace descriptions give unequal objects", hdesc=hdesc, bb=bba)
        for b in range(a + 1, len(built)):
            psb, bbb = built[b]
            same = (bba is None and bbb is None) or (bba is not None and bbb is not None and
                                                     list(bba) == list(bbb))
            if same:
                continue
            ck.hit("unequal_pairs")
            chk(ck, psa != psb and not (psa == psb) and
                ift.DomainTuple.make(psa) is not ift.DomainTuple.make(psb), "ps:different-equal",
                "PowerSpaces with different binnings compare equal", hdesc=hdesc, a=bba, b=bbb)
    if not done:
        ck.skip("no binning applicable")
    ck.note(dict(fam="PS", hdesc=hdesc, seq=done), nontrivial=custom and len(built) >= 2,
            klass="PS-" + hdesc["t"])


# ---------------------------------------------------------------------- DOF ---
def case_dof(ck, rng):
    ift = ck.state["ift"]
    desc = R.gen_space_desc(rng, kinds=("DOF",), maxn=7)
    dom = R.build(desc, int(rng.integers(0, 4)))
    ref = R.desc_dvol(desc)
    ck.hit("dof_volumes")
    dv = np.asarray(dom.dvol)
    chk(ck, isinstance(dom, ift.DOFSpace) and dom.shape == (len(ref),) and dom.size == len(ref),
        "dof:size", "DOFSpace size is not the number of degrees of freedom", got=dom.shape, exp=len(ref))
    chk(ck, dv.shape == ref.shape and rel_close(dv, ref, 1e-11), "dof:dvol",
        "DOFSpace.dvol[b] is not the summed volume of the member pixels", got=R.small(dv, 8),
        exp=R.small(ref, 8), desc=desc)
    chk(ck, dom.scalar_dvol is None and rel_close(dom.total_volume, np.sum(ref), 1e-11),
        "dof:total_volume", "DOFSpace total volume is not the partner's total volume",
        got=float(dom.total_volume), exp=float(np.sum(ref)))
    check_pickle_plain(ck, dom, "DOFSpace")
    again = R.build(desc, int(rng.integers(0, 4)))
    ck.hit("eq_hash_pairs")
    chk(ck, again == dom and hash(again) == hash(dom) and
        ift.DomainTuple.make(again) is ift.DomainTuple.make(dom), "dof:equal-descriptions-unequal",
        "equal DOF descriptions give unequal DOFSpaces", desc=desc)
    nonuni = desc["partner"]["t"] == "GL"
    ck.note(dict(fam="DOF", desc=desc), nontrivial=nonuni, klass="DOF-" + desc["partner"]["t"])


# -------------------------------------------------------------------- IDENT ---
def perturb(rng, d):
    """a description that differs from d in exactly one parameter (or None)"""
    d = copy.deepcopy(d)
    t = d["t"]
    if t == "RG":
        c = int(rng.integers(0, 3))
        if c == 0:
            d["shape"][int(rng.integers(0, len(d["shape"])))] += 1
        elif c == 1:
            dist = R.rg_distances(d)
            dist[int(rng.integers(0, len(dist)))] *= 1.5
            d["dist"] = dist
        else:
            if d["dist"] is None:
                d["harmonic"] = not d["harmonic"]      # same real distances, other flag
            else:
                d["dist"] = [1.0 / (n * x) for n, x in zip(d["shape"], R.rg_distances(d))]
                d["harmonic"] = not d["harmonic"]
    elif t == "LM":
        mm = d["lmax"] if d["mmax"] is None else d["mmax"]
        if rng.integers(0, 2) and mm > 0:
            d["mmax"] = mm - 1
        else:
            d["lmax"] += 1
            d["mmax"] = mm
    elif t == "GL":
        nl = d["nlon"] if d["nlon"] is not None else 2 * d["nlat"] - 1
        if rng.integers(0, 2):
            d["nlon"] = nl + 1
        else:
            d["nlat"] += 1
            d["nlon"] = nl
    elif t == "HP":
        d["nside"] *= 2
    elif t == "U":
        c = int(rng.integers(0, 2))
        if c == 0 or len(d["shape"]) > 1:
            d["shape"][0] += 1
        else:
            d["shape"] = d["shape"] + [1]
    elif t == "PS":
        k = R.klengths_of(d["partner"])
        u = R.unique_sorted(k)
        if d["bb"] is None:
            if len(u) < 3:
                return None
            mids = 0.5 * (u[:-1] + u[1:])
            d["bb"] = [float(x) for x in mids[:-1]]     # merges the last two natural bins
        else:
            if len(d["bb"]) >= 2 and rng.integers(0, 2):
                d["bb"] = d["bb"][:-1]
            else:
                # move one bound a little without crossing a k-length
                j = int(rng.integers(0, len(d["bb"])))
                b = d["bb"][j]
                lo = u[u < b].max()
                hi = u[u > b].min()
                nb = b + 0.05 * (hi - b) if rng.integers(0, 2) else b - 0.05 * (b - lo)
                if nb == b:
                    return None
                d["bb"][j] = float(nb)
    elif t == "DOF":
        dd = list(d["dofdex"])
        if len(set(dd)) < 2:
            return None
        # move one pixel to another dof keeping all dofs populated
        cnt = np.bincount(dd)
        cand = [i for i, v in enumerate(dd) if cnt[v] > 1]
        if not cand:
            return None
        i = cand[int(rng.integers(0, len(cand)))]
        dd[i] = (dd[i] + 1) % len(cnt)
        d["dofdex"] = dd
    return d


def case_ident(ck, rng):
    ift = ck.state["ift"]
    kinds = ("RG", "RG", "RG", "U", "HP", "GL", "LM", "PS", "DOF")
    ntup = int(rng.integers(1, 4))
    tds = [R.gen_tuple_desc(rng, nsp=(1, 2, 3), maxsize=200, kinds=kinds, maxn=5) for _ in range(ntup)]
    routes = [int(rng.integers(0, 12)) for _ in tds]
    tups = [R.build_tuple(ds, r) for ds, r in zip(tds, routes)]
    hist = []
    live = list(tups)

    def same(new, old, how, kind):
        ck.hit("identity_is")
        if new is not old:
            ck.violation(f"identity:{kind}:{how}",
                         f"{kind} obtained via {how} is not the identical object", hist=hist[-6:])
        if not (new == old) or hash(new) != hash(old) or (new != old):
            ck.violation(f"identity:{kind}:{how}:eq-hash",
                         f"{kind} obtained via {how} is unequal / hashes differently", hist=hist[-6:])

    # the same descriptions through another spelling
    for j, (ds, r) in enumerate(zip(tds, routes)):
        r2 = r + 1 + int(rng.integers(0, 11))
        t2 = R.build_tuple(ds, r2)
        hist.append(["rebuild-tuple", j, r2])
        same(t2, tups[j], "rebuild", "DomainTuple")
        for a, b in zip(t2, tups[j]):
            ck.hit("eq_hash_pairs")
            chk(ck, a == b and hash(a) == hash(b), "identity:subdomain-eq-hash",
                "sub-domains of equal descriptions are unequal / hash differently", a=repr(a), b=repr(b))
    # MultiDomain
    nkeys = int(rng.integers(1, 5))
    keys = ["k%d" % x for x in rng.permutation(6)[:nkeys]]
    assign = {k: int(rng.integers(0, ntup)) for k in keys}

    def make_md(order, valroute):
        dct = {}
        for k in order:
            t = tups[assign[k]]
            v = valroute % 3
            if v == 0:
                dct[k] = t
            elif v == 1:
                dct[k] = tuple(R.build(d, valroute) for d in tds[assign[k]])
            else:
                doms = [R.build(d, valroute + 1) for d in tds[assign[k]]]
                dct[k] = doms[0] if len(doms) == 1 else doms
        return ift.MultiDomain.make(dct)

    md = make_md(keys, 0)
    hist.append(["make-md", keys])
    chk(ck, list(md.keys()) == sorted(keys) and all(md[k] is tups[assign[k]] for k in keys) and
        md.size == sum(tups[assign[k]].size for k in keys) and len(md) == nkeys,
        "multidomain:content", "MultiDomain keys / sub-domains / size differ from the input dict")
    md2 = make_md(list(reversed(keys)), int(rng.integers(0, 6)))
    hist.append(["rebuild-md-reversed"])
    same(md2, md, "rebuild-other-order", "MultiDomain")
    same(ift.MultiDomain.make(md), md, "make-of-self", "MultiDomain")
    live.append(md)
    # history of round trips
    nst = int(rng.integers(3, 9))
    for _ in range(nst):
        j = int(rng.integers(0, len(live)))
        obj = live[j]
        kind = "MultiDomain" if isinstance(obj, ift.MultiDomain) else "DomainTuple"
        op = ["pickle", "pickle-proto", "deepcopy", "copy", "make", "pickle-container"][int(rng.integers(0, 6))]
        hist.append([op, j])
        if op == "pickle":
            new = pickle.loads(pickle.dumps(obj))
            ck.hit("pickle_roundtrips")
        elif op == "pickle-proto":
            new = pickle.loads(pickle.dumps(obj, protocol=int(rng.integers(0, pickle.HIGHEST_PROTOCOL + 1))))
            ck.hit("pickle_roundtrips")
        elif op == "deepcopy":
            new = copy.deepcopy(obj)
        elif op == "copy":
            new = copy.copy(obj)
        elif op == "make":
            new = (ift.MultiDomain.make(dict(obj.items())) if kind == "MultiDomain"
                   else ift.DomainTuple.make(tuple(obj)))
        else:
            cont = pickle.loads(pickle.dumps({"a": [obj, obj], "b": (obj,)}))
            ck.hit("pickle_roundtrips")
            new = cont["a"][1]
            same(cont["b"][0], obj, op, kind)
        same(new, obj, op, kind)
    # fields built on re-made domains interoperate (identity is what arithmetic checks)
    t0 = tups[0]
    if 0 < t0.size:
        f1 = ift.full(t0, 1.)
        f2 = ift.full(pickle.loads(pickle.dumps(t0)), 2.)
        try:
            (f1 + f2)
        except ValueError:
            ck.violation("identity:fields-on-pickled-domain", "fields on a domain and on its pickle "
                         "round trip cannot be added", hist=hist[-4:])
    # one-parameter perturbations must be different objects and unequal
    for j, ds in enumerate(tds):
        s = int(rng.integers(0, len(ds)))
        pd = perturb(rng, ds[s])
        if pd is None:
            continue
        try:
            ds2 = list(ds)
            ds2[s] = pd
            pt = R.build_tuple(ds2, int(rng.integers(0, 12)))
            pdom = pt[s]
        except ValueError:
            continue     # perturbed description not constructible (e.g. empty bin)
        ck.hit("unequal_pairs")
        hist.append(["perturb", j, s, pd["t"]])
        chk(ck, pt is not tups[j] and pt != tups[j] and not (pt == tups[j]), "identity:different-tuples-equal",
            "DomainTuples of different descriptions are identical/equal", a=ds[s], b=pd)
        chk(ck, pdom != tups[j][s] and not (pdom == tups[j][s]), f"identity:different-domains-equal:{pd['t']}",
            "domains with different descriptions compare equal", a=ds[s], b=pd)
        if j == assign.get(keys[0]):
            dct = {k: tups[assign[k]] for k in keys}
            dct[keys[0]] = pt
            mdp = ift.MultiDomain.make(dct)
            chk(ck, mdp is not md and mdp != md, "identity:different-multidomains-equal",
                "MultiDomains with one different sub-domain are identical/equal")
    # permuted sub-domain order, renamed key, dropped key
    for j, ds in enumerate(tds):
        cds = [R.canon(d) for d in ds]
        if cds != list(reversed(cds)):
            pt = R.build_tuple(list(reversed(ds)), 0)
            ck.hit("unequal_pairs")
            chk(ck, pt is not tups[j] and pt != tups[j], "identity:permuted-tuple-equal",
                "DomainTuple with permuted sub-domains is identical/equal", ds=ds)
    dct = {("x" + k if k == keys[0] else k): tups[assign[k]] for k in keys}
    mdr = ift.MultiDomain.make(dct)
    ck.hit("unequal_pairs")
    chk(ck, mdr is not md and mdr != md, "identity:renamed-key-equal",
        "MultiDomain with a renamed key is identical/equal")
    if nkeys >= 2:
        mdd = ift.MultiDomain.make({k: tups[assign[k]] for k in keys[1:]})
        chk(ck, mdd is not md and mdd != md, "identity:dropped-key-equal",
            "MultiDomain with a dropped key is identical/equal")
    if rng.integers(0, 5) == 0:
        cross_process_pickle(ck, ift, rng, tds, routes, tups, md, keys, assign)
    ck.note(dict(fam="IDENT", tuples=tds, routes=routes, keys=keys, assign=assign, hist=hist),
            nontrivial=nkeys >= 2, klass="IDENT")


def cross_process_pickle(ck, ift, rng, tds, routes, tups, md, keys, assign):
    """pickle in this interpreter (after hashing), unpickle in a fresh interpreter with a different
    PYTHONHASHSEED (resume, MPI and multiprocessing do exactly this) and require identity there"""
    import json
    import os
    import pickle
    import subprocess
    import tempfile
    for t in tups:
        hash(t)
        for d in t:
            hash(d)
    hash(md)
    fld = ift.full(tups[0], 2.)
    wd = tempfile.mkdtemp(prefix="c08_", dir=os.environ.get("VERIF_WORKDIR", "/tmp"))
    try:
        pth = os.path.join(wd, "doms.pkl")
        with open(pth, "wb") as f:
            pickle.dump(dict(tups=tups, md=md, field=fld), f, protocol=int(rng.integers(2, 6)))
        order = ("load_first", "build_first")[int(rng.integers(0, 2))]
        spec = dict(pickle=pth, tuples=tds, routes=routes, keys=keys, assign=assign, order=order)
        sp = os.path.join(wd, "spec.json")
        with open(sp, "w") as f:
            json.dump(spec, f)
        env = dict(os.environ)
        mine = int(os.environ.get("PYTHONHASHSEED", "0") or 0)
        env["PYTHONHASHSEED"] = str((mine + 1 + int(rng.integers(0, 10 ** 6))) % 4294967295)
        root = os.path.dirname(os.path.dirname(os.path.abspath(__file__)))
        try:
            p = subprocess.run(["/venv/bin/python", "-B", "-m", "vf.xproc_pickle", sp], cwd=root, env=env,
                               capture_output=True, text=True, timeout=300)
        except subprocess.TimeoutExpired:
            ck.hit("xproc_pickle_timeouts")
            return
        res = None
        for line in p.stdout.splitlines()[::-1]:
            if line.startswith("VFRESULT "):
                res = json.loads(line[9:])
                break
        if res is None:
            ck.violation("identity:cross-process-pickle:child-failed",
                         f"unpickling domains in a fresh interpreter failed: {(p.stderr or '')[-300:]}")
            return
        ck.hit("cross_process_pickles")
        for c in res["checks"]:
            ck.hit("identity_is")
            if not c["same"]:
                ck.violation(f"identity:cross-process-pickle:{c['what'].split('[')[0]}:not-identical",
                             f"{c['what']} unpickled in another interpreter ({order}) is not the object "
                             f"DomainTuple/MultiDomain.make returns there (eq={c['eq']}, hash_eq={c['hash_eq']})")
            elif not (c["eq"] and c["hash_eq"] and c["sub_eq"]):
                ck.violation(f"identity:cross-process-pickle:{c['what'].split('[')[0]}:eq-hash",
                             f"{c['what']} unpickled in another interpreter is unequal / hashes differently")
        if res["field_add"] != "ok":
            ck.violation("identity:cross-process-pickle:field-arithmetic",
                         f"a field unpickled in another interpreter cannot be combined with a fresh field on "
                         f"the same domain description: {res['field_add']}")
    finally:
        import shutil
        shutil.rmtree(wd, ignore_errors=True)


def case(ck, i):
    rng = ck.rng()
    # rotate the family within every block of 8 so that each worker (i = w mod W) sees all families
    fam = FAMS[(i + i // len(FAMS)) % len(FAMS)]
    j = i // len(FAMS)
    with np.errstate(all="ignore"):
        if fam == "RG":
            case_rg(ck, rng)
        elif fam == "LM":
            case_lm(ck, rng, j)
        elif fam == "SPH":
            case_sphere(ck, rng, j)
        elif fam == "PS":
            case_ps(ck, rng)
        elif fam == "DOF":
            case_dof(ck, rng)
        else:
            case_ident(ck, rng)
