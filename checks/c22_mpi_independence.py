"""C22 — Classic VI results do not depend on the number of MPI tasks.

Every rank is a fresh interpreter process; the communicator is the recording
SimComm process back-end (vf/simcomm/proc.py: synchronous sends, barrier-like
collectives, logical deadlock detection, full event log).  Each case runs a
workload (SampledKLEnergy value/gradient/metric/samples/statistics/minimisation
step, or a full optimize_kl run incl. the files written) once with comm=None
and then on k = 1..6 ranks; every rank's results must be bit-identical to the
single-process reference and the router log must be clean.
"""
import os
import shutil
import tempfile

META = dict(
    id="C22", level="exploration",
    title="Classic VI results do not depend on the number of MPI tasks",
    technique=("differential execution on a recording simulated-MPI communicator (one process per rank): "
               "bit-wise comparison against the single-process run + message-log monitor (matching, collective "
               "order, logical deadlock detection)"),
    rule=("case = (workload in {SampledKLEnergy, optimize_kl}, options: n_samples 0..3, mirroring, constants, "
          "point estimates, geoVI, 2/3 keys, output directory, save strategy; task counts: 2 (quick) or 4 "
          "(thorough) sizes drawn from 1..6, always including one > number of samples when possible). "
          "non-trivial: >=2 tasks with uneven sample distribution or an empty rank; distinct = (options, sizes)"),
    assumptions=["a real MPI library cannot be loaded in this sandbox (libmpi missing): the simulated communicator "
                 "implements the 11 methods NIFTy uses with the strictest legal blocking semantics; MPI "
                 "implementation bugs, >2GiB pickles and pkl5 are out of reach",
                 "mpi4py.MPI.Intracomm is stubbed for NIFTy's isinstance sanity check"],
    need=["worlds_run", "rank_results_compared", "router_logs_checked", "p2p_messages", "collectives"],
    quick=dict(cases=24, workers=12, budget_s=80),
    thorough=dict(cases=400, workers=16, budget_s=1200),
    design_ref="DESIGN.md §5 C22",
    level_text=("exploration over task counts 1..6 and option combinations with bit-identity oracle on every rank; "
                "not a real MPI stack"),
    level_note="small model (4 pixels per key), 2 global iterations; SimComm is trusted to implement MPI matching",
    max_skip_fraction=0.3,
)

CMP_KL = ["value", "gradient", "metric_x", "n_samples", "samples", "average", "stat_mean", "stat_var",
          "average_op", "min_position", "min_value"]
CMP_OKL = ["mean", "n_samples", "samples", "average", "list_type", "files"]


def gen_case(rng, tier):
    wl = "kl" if rng.integers(0, 5) < 3 else "okl"
    p = dict(seed=int(rng.integers(1, 10 ** 6)), model_seed=int(rng.integers(1, 10 ** 6)))
    p["three_keys"] = bool(rng.integers(0, 2))
    keys = ["a", "b"] + (["c"] if p["three_keys"] else [])
    if wl == "kl":
        p["n_samples"] = int(rng.integers(1, 4))
        p["mirror"] = bool(rng.integers(0, 2))
    else:
        ns = [0, 1, 2, 3, [2, 0], [0, 2], [1, 3], [3, 1], [2, 1]][int(rng.integers(0, 9))]
        p["n_samples"] = ns
        p["n_iter"] = 2
        p["save_strategy"] = ("latest", "all")[int(rng.integers(0, 2))]
        p["with_odir"] = bool(rng.integers(0, 2))
        p["export"] = bool(p["with_odir"] and rng.integers(0, 3) == 0)
    p["geovi"] = bool(rng.integers(0, 3) == 0)
    if rng.integers(0, 3) == 0:
        p["constants"] = [keys[int(rng.integers(0, len(keys)))]]
    if rng.integers(0, 3) == 0:
        p["point_estimates"] = [keys[int(rng.integers(0, len(keys)))]]
    nsz = 2 if tier == "quick" else 4
    sizes = sorted(set(int(x) for x in rng.integers(1, 7, nsz)))
    # make sure more tasks than samples occurs often
    if rng.integers(0, 2):
        sizes = sorted(set(sizes + [int(rng.integers(4, 7))]))[-nsz:]
    return wl, p, sizes


def total_samples(wl, p):
    ns = p["n_samples"]
    if isinstance(ns, list):
        ns = ns[-1]
    if ns == 0:
        return 1
    return ns * (2 if (wl == "okl" or p.get("mirror", True)) else 1)


def init(ck):
    pass


def case(ck, i):
    from vf.runner import Skip
    from vf.simcomm import proc
    rng = ck.rng()
    wl, p, sizes = gen_case(rng, ck.tier)
    nsmp = total_samples(wl, p)
    nontriv = any(s >= 2 and (nsmp % s != 0 or s > nsmp) for s in sizes)
    ck.note(dict(workload=wl, params=p, sizes=sizes), nontrivial=nontriv, klass=wl)
    wd = tempfile.mkdtemp(prefix="c22_", dir=os.environ.get("VERIF_WORKDIR", "/tmp"))
    cmp_keys = CMP_KL if wl == "kl" else CMP_OKL
    try:
        def params_for(tag):
            q = dict(p)
            if q.pop("with_odir", False):
                q["odir"] = os.path.join(wd, "odir_" + tag)
            return q
        ref = proc.run_world(0, wl, params_for("ref"), os.path.join(wd, "ref"), timeout=600)
        ck.hit("worlds_run")
        if ref["timed_out"]:
            raise Skip("reference timed out")
        r0 = ref["results"][0]
        if r0 is None or not r0["ok"]:
            ck.violation(f"single-process-run-raises:{wl}", f"comm=None run failed: "
                         f"{(r0 or {}).get('error', ref['stderr'][0][-300:])}", params=p)
            return
        refres = r0["result"]
        for size in sizes:
            w = proc.run_world(size, wl, params_for(f"s{size}"), os.path.join(wd, f"w{size}"), timeout=600)
            ck.hit("worlds_run")
            if w["timed_out"]:
                ck.skip("world timed out")
                continue
            ro = w["router"]
            ck.hit("router_logs_checked")
            ck.hit("p2p_messages", ro["n_p2p"])
            ck.hit("collectives", ro["n_coll"])
            if ro["deadlock"]:
                errs = [r["error"] for r in w["results"] if r and not r["ok"]]
                first_err = [e for e in errs if "deadlock detected" not in e]
                if first_err:
                    ck.violation(f"mpi-rank-raises:{wl}:{first_err[0].split(':')[0]}",
                                 f"{size} tasks: a rank raised {first_err[0][:200]} (others then blocked)",
                                 params=p, size=size)
                else:
                    ck.violation(f"mpi-deadlock:{wl}", f"{size} tasks: deadlock {ro['deadlock']}",
                                 params=p, size=size, tail=ro["tail"])
                continue
            if ro["problems"]:
                ck.violation(f"mpi-protocol:{wl}", f"{size} tasks: {ro['problems'][:2]}", params=p, size=size)
                continue
            bad_rank = [k for k, r in enumerate(w["results"]) if r is None or not r["ok"]]
            if bad_rank:
                r = w["results"][bad_rank[0]]
                err = (r or {}).get("error", w["stderr"][bad_rank[0]][-300:])
                ck.violation(f"mpi-rank-raises:{wl}:{str(err).split(':')[0]}",
                             f"{size} tasks: rank {bad_rank[0]} failed: {str(err)[:300]}", params=p, size=size,
                             tb=(r or {}).get("tb", "")[-1500:])
                continue
            if any(st != "ok" for st in ro["finished"].values()) or len(ro["finished"]) != size:
                ck.violation(f"mpi-unclean-exit:{wl}", f"ranks finished {ro['finished']}", params=p, size=size)
            for k, r in enumerate(w["results"]):
                res = r["result"]
                ck.hit("rank_results_compared", len(cmp_keys))
                diff = [key for key in cmp_keys if res.get(key) != refres.get(key)]
                if diff:
                    det = {}
                    if "files" in diff:
                        fa, fb_ = res.get("files") or {}, refres.get("files") or {}
                        det["files"] = sorted(f for f in set(fa) | set(fb_) if fa.get(f) != fb_.get(f))[:8]
                    ck.violation(f"mpi-result-differs:{wl}:{diff[0]}",
                                 f"{size} tasks, rank {k}: {diff} differ from the single-process run",
                                 params=p, size=size, detail=det)
                    break
    finally:
        shutil.rmtree(wd, ignore_errors=True)
