"""C35 — Response operators compute their documented quantity.

Every case builds one response operator of nifty.cl (or nifty.re.extra) on a generated
configuration, observes its action (dense matrix by probing with basis vectors where the
space is small, random inputs otherwise — forward *and* adjoint) and compares with an
oracle written independently in NumPy:

 los        LOSResponse = exact line integral of the piece-wise constant field (pixel i centred
            at i*distance), by an independent segment/grid clipping routine
 los_sigma  LOSResponse with parallax errors: integral of field * P(end beyond r) with the
            truncated Gaussian parallax weight; NIFTy evaluates the weight at the midpoint of
            every cell crossing, the oracle integrates it (Gauss-Legendre) and allows the
            rigorous midpoint-rule error bound
 nufft / gridder / varnufft   explicit dense Fourier sums
 interp     LinearInterpolator: rows = the 2^d multilinear weights (periodic wrap); exact for
            multilinear functions
 regrid     RegriddingOperator: linear interpolation onto the coarser grid as documented
 padder     FieldZeroPadder: embedding at the documented offset (central / non-central)
 mask       MaskOperator: the unflagged pixels in row-major order, adjoint scatters back
 sampling_los  nifty.re SamplingCartesianGridLOS: midpoint-rule sum of the multilinearly
            interpolated field
"""
import numpy as np

from vf.libhelp import pick, rfloat

META = dict(
    id="C35", level="exploration",
    title="Response operators compute their documented quantity",
    technique="dense probing / random inputs of live operators vs independent NumPy oracles",
    rule=("one case = one operator configuration of a family in {los, los_sigma, nufft, gridder, "
          "varnufft, interp, regrid, padder, mask, sampling_los}; RG grids 1-3-D, shapes 2..8, random "
          "distances 0.05..20; segments inside / crossing the boundary / axis-aligned / through grid "
          "corners / very short; positions off- and on-grid; eps 1e-3..1e-10; multilinear test "
          "functions; pad sizes incl. +0/+1; masks with 0..all pixels flagged. non-trivial: >= 2-D and "
          "(non-axis-aligned segment | off-grid position | partial mask | both odd and even sizes); "
          "distinct = distinct configuration descriptor"),
    assumptions=[
        "LOSResponse stores its weights in float32 and shifts segment ends by 1e-7 (in units of the "
        "segment): tolerance 1e-6 * (segment length) * max|field| per line of sight",
        "zero-length lines of sight (start == end) are rejected by NIFTy with an exception; counted in "
        "'los_zero_length_rejected', not judged",
        "Nufft/Gridder TIMES require complex input arrays (a real input array is refused by ducc0); "
        "the Fourier conventions (TIMES: Re sum x_j e^{+2 pi i p_j.x_k}, ADJOINT: sum g_k e^{-2 pi i p_j.x_k}, "
        "x_k = (k - N//2) * distance) are those of ducc0's documentation for forward=False/True",
        "NUFFT accuracy: ||err||_2 <= 20 * eps * ||exact matrix||_F-scaled input norm",
        "SamplingCartesianGridLOS: position -> index convention index = pos * (N-1)/(N*distance) "
        "(not documented; taken from the implementation), everything else (midpoint rule, multilinear "
        "interpolation, NaN outside) independent",
    ],
    need=["los_rows", "los_sigma_rows", "nufft_checks", "gridder_checks", "interp_rows",
          "interp_multilinear", "regrid_checks", "padder_checks", "mask_checks", "sampling_los_checks",
          "adjoint_matrix_checks"],
    quick=dict(cases=400, workers=6, budget_s=60),
    thorough=dict(cases=8000, workers=16, budget_s=700),
    design_ref="DESIGN.md §5 C35",
    level_text="~400 (quick) generated operator configurations, each checked entry-wise against its oracle",
    level_note=("trusts numpy/scipy; VariablePositionNufft is only checked for its value (Jacobian = C03); "
                "GPU paths not exercised"),
)


def init(ck):
    import nifty.cl as ift
    ck.state["ift"] = ift


def lazy_jax(ck):
    if "jft" not in ck.state:
        import jax
        jax.config.update("jax_enable_x64", True)
        from vf.libhelp import enable_jax_cache
        enable_jax_cache()
        import nifty.re as jft
        import jax.numpy as jnp
        ck.state.update(jft=jft, jnp=jnp, jax=jax)
    return ck.state["jft"], ck.state["jnp"]


# ------------------------------------------------------------------------------------------
def gen_rg(ck, rng, maxnd=3, lo=2, hi=8, even=False, cap=512):
    ift = ck.state["ift"]
    while True:
        nd = int(rng.integers(1, maxnd + 1))
        shape = tuple(int(x) for x in rng.integers(lo, hi + 1, nd))
        if even:
            shape = tuple(s + (s % 2) for s in shape)
        if np.prod(shape) <= cap:
            break
    dist = tuple(rfloat(rng, 0.05, 20, log=True) for _ in shape)
    if rng.integers(0, 4) == 0:
        dist = (dist[0],) * nd
    return ift.RGSpace(shape, distances=dist), shape, np.array(dist)


def dense(op, mode, cin=False, cout=False):
    from vf.dense import dense_op
    return dense_op(op, mode, cin, cout)


class Bad:
    def __init__(self, ck, fam):
        self.ck, self.fam, self.seen = ck, fam, set()

    def __call__(self, key, what, **w):
        if key not in self.seen:
            self.seen.add(key)
            self.ck.violation(f"{self.fam}:{key}", what, **w)


def cmp_matrix(ck, bad, key, obs, exp, tol_abs, hit, what):
    ck.hit(hit)
    if obs.shape != exp.shape:
        bad(key + "-shape", f"{what}: shape {obs.shape} != {exp.shape}")
        return False
    err = np.abs(obs - exp)
    if not np.all(np.isfinite(obs)) or np.any(err > tol_abs):
        j = np.unravel_index(int(np.nanargmax(np.where(np.isfinite(err), err - tol_abs, np.inf))),
                             err.shape)
        bad(key, what, where=[int(x) for x in j], observed=float(obs[j]), expected=float(exp[j]),
            tol=float(np.broadcast_to(tol_abs, err.shape)[j]))
        return False
    return True


# ------------------------------------------------------------------------------------------
# LOS
# ------------------------------------------------------------------------------------------
def seg_pieces(a, b, shape, dist):
    """split the segment a->b (physical coordinates) at all cell boundaries; cell i of an axis
    spans [(i-1/2) d, (i+1/2) d].  returns list of (t0, t1, flat cell index or -1)"""
    a, b = np.asarray(a, float), np.asarray(b, float)
    ts = [0.0, 1.0]
    for ax, (n, d) in enumerate(zip(shape, dist)):
        dx = b[ax] - a[ax]
        if dx == 0:
            continue
        k = np.arange(0, n + 1)
        t = ((k - 0.5) * d - a[ax]) / dx
        ts.extend(t[(t > 0) & (t < 1)].tolist())
    ts = np.unique(np.array(ts))
    out = []
    for t0, t1 in zip(ts[:-1], ts[1:]):
        mid = a + 0.5 * (t0 + t1) * (b - a)
        idx = np.floor(mid / dist + 0.5).astype(np.int64)
        if np.all(idx >= 0) and np.all(idx < np.array(shape)):
            out.append((t0, t1, int(np.ravel_multi_index(tuple(idx), shape))))
        else:
            out.append((t0, t1, -1))
    return out


def gen_segments(rng, shape, dist, nlos, allow_outside=True):
    nd = len(shape)
    ext_lo = -0.5 * dist
    ext_hi = (np.array(shape) - 0.5) * dist
    starts, ends, kinds = [], [], []
    for _ in range(nlos):
        kind = pick(rng, ["inside", "inside", "cross", "axis", "corner", "short", "outside"])
        if kind == "outside" and not allow_outside:
            kind = "inside"
        span = ext_hi - ext_lo
        if kind in ("inside", "short", "axis", "corner"):
            a = ext_lo + rng.uniform(0.02, 0.98, nd) * span
            b = ext_lo + rng.uniform(0.02, 0.98, nd) * span
            if kind == "short":
                b = a + rng.standard_normal(nd) * 1e-3 * dist
            if kind == "axis":
                ax = int(rng.integers(0, nd))
                b = a.copy()
                b[ax] = ext_lo[ax] + rng.uniform(0.02, 0.98) * span[ax]
                if rng.integers(0, 3) == 0:        # exactly through pixel centres
                    a = np.round(a / dist) * dist
                    b[[i for i in range(nd) if i != ax]] = a[[i for i in range(nd) if i != ax]]
            if kind == "corner":                   # exactly through grid corners
                ka = rng.integers(0, np.array(shape) + 1)
                kb = rng.integers(0, np.array(shape) + 1)
                # a segment lying *inside* a cell-boundary plane has no well-defined integral over a
                # piece-wise constant field -> both corners differ along every axis
                same = ka == kb
                kb = np.where(same, np.where(ka > 0, ka - 1, ka + 1), kb)
                a = (ka - 0.5) * dist
                b = (kb - 0.5) * dist
        elif kind == "cross":
            a = ext_lo + rng.uniform(-0.5, 1.5, nd) * span
            b = ext_lo + rng.uniform(-0.5, 1.5, nd) * span
        else:
            a = ext_hi + rng.uniform(0.1, 1.0, nd) * span
            b = ext_hi + rng.uniform(0.1, 1.0, nd) * span
        if np.linalg.norm(b - a) == 0:
            b = a + 1e-3 * dist
        starts.append(a)
        ends.append(b)
        kinds.append(kind)
    return np.array(starts).T.copy(), np.array(ends).T.copy(), kinds


def case_los(ck, rng, bad):
    ift = ck.state["ift"]
    dom, shape, dist = gen_rg(ck, rng, cap=256)
    nlos = int(rng.integers(1, 7))
    starts, ends, kinds = gen_segments(rng, shape, dist, nlos)
    desc = dict(fam="los", shape=shape, dist=dist.tolist(), nlos=nlos, kinds=kinds)
    if rng.integers(0, 25) == 0:
        # degenerate: one zero-length line of sight
        ends[:, 0] = starts[:, 0]
        try:
            with np.errstate(all="ignore"):
                op = ift.LOSResponse(dom, starts, ends)
                r = op(ift.full(dom, 1.0)).asnumpy()
            ck.hit("los_zero_length_accepted")
            if not (np.isfinite(r[0]) and abs(r[0]) < 1e-12):
                ck.hit("los_zero_length_nonzero_result")
        except Exception:
            ck.hit("los_zero_length_rejected")
        ck.note(dict(desc, zero_length=True), False, "los")
        return
    op = ift.LOSResponse(dom, starts, ends)
    n = int(np.prod(shape))
    W = np.zeros((nlos, n))
    L = np.linalg.norm(ends - starts, axis=0)
    for i in range(nlos):
        for t0, t1, c in seg_pieces(starts[:, i], ends[:, i], shape, dist):
            if c >= 0:
                W[i, c] += (t1 - t0) * L[i]
    M = dense(op, op.TIMES)
    tol = (1e-6 * L + 1e-300)[:, None]
    if cmp_matrix(ck, bad, "weights", M, W, tol, "los_matrix",
                  "LOSResponse matrix entry != exact path length of the segment in the cell"):
        ck.hit("los_rows", nlos)
    # total: constant field -> clipped length
    MT = dense(op, op.ADJOINT_TIMES)
    cmp_matrix(ck, bad, "adjoint", MT, W.T, tol.T, "adjoint_matrix_checks",
               "LOSResponse adjoint matrix != transposed exact weights")
    nt = len(shape) >= 2 and any(k in ("inside", "cross", "corner") for k in kinds)
    ck.note(desc, nt, "los")


def case_los_sigma(ck, rng, bad):
    from scipy.special import erfc
    ift = ck.state["ift"]
    dom, shape, dist = gen_rg(ck, rng, cap=256)
    nlos = int(rng.integers(1, 5))
    starts, ends, kinds = gen_segments(rng, shape, dist, nlos, allow_outside=False)
    trunc = float(pick(rng, [3.0, 3.0, 2.0, 4.0]))
    L = np.linalg.norm(ends - starts, axis=0)
    cell = float(np.min(dist))
    # transition region hi-lo ~ 2*trunc*sigma*L^2 spans k cells
    kc = rng.uniform(3, 10, nlos)
    sig = kc * cell / (2 * trunc * L ** 2)
    sig = np.minimum(sig, 0.6 / (trunc * L))          # keep 1/L - trunc*sigma > 0
    sig = np.array([float(f"{s:.5g}") for s in sig])
    explicit_trunc = bool(rng.integers(0, 2)) or trunc != 3.0
    kw = dict(truncation=trunc) if explicit_trunc else {}
    if not explicit_trunc:
        trunc = 3.0
    op = ift.LOSResponse(dom, starts, ends, sigmas=sig, **kw)
    lo = 1 / (1 / L + trunc * sig)
    hi = 1 / (1 / L - trunc * sig)
    n = int(np.prod(shape))
    W = np.zeros((nlos, n))
    B = np.zeros((nlos, n))
    gx, gw = np.polynomial.legendre.leggauss(24)
    for i in range(nlos):
        u = (ends[:, i] - starts[:, i]) / L[i]
        real_end = starts[:, i] + u * hi[i]

        def Wf(r, i=i):
            r = np.asarray(r, float)
            out = np.where(r > hi[i], 0.0, 1.0)
            m = (r > lo[i]) & (r <= hi[i])
            with np.errstate(all="ignore"):
                out = np.where(m, 0.5 * erfc(((1 / L[i] - 1 / np.where(m, r, 1.0)) / sig[i])
                                             / np.sqrt(2.0)), out)
            return out
        rr = np.linspace(lo[i], hi[i], 2001)
        ww = Wf(rr[1:-1])
        h = rr[1] - rr[0]
        M2 = 1.5 * np.max(np.abs(ww[2:] - 2 * ww[1:-1] + ww[:-2])) / h ** 2
        jump = (1.0 - Wf(lo[i] * (1 + 1e-12))) + Wf(hi[i] * (1 - 1e-12))
        for t0, t1, c in seg_pieces(starts[:, i], real_end, shape, dist):
            if c < 0:
                continue
            r0, r1 = t0 * hi[i], t1 * hi[i]
            # integrate the weight, split at lo (hi is the end of the segment)
            val = 0.0
            for s0, s1 in ((r0, min(r1, lo[i])), (max(r0, lo[i]), r1)):
                if s1 > s0:
                    x = 0.5 * (s0 + s1) + 0.5 * (s1 - s0) * gx
                    val += 0.5 * (s1 - s0) * np.sum(gw * Wf(x))
            W[i, c] += val
            hh = r1 - r0
            b = 0.0
            if r1 > lo[i]:
                b += hh ** 3 / 24 * M2
                if r0 < lo[i] or r1 >= hi[i] * (1 - 1e-9):
                    b += hh * jump
            B[i, c] += b
    M = dense(op, op.TIMES)
    tol = B + (2e-6 * hi)[:, None]
    if cmp_matrix(ck, bad, "weights", M, W, tol, "los_sigma_matrix",
                  "LOSResponse(sigmas) matrix entry differs from the integral of the truncated "
                  "parallax weight over the cell crossing by more than the midpoint-rule bound"):
        ck.hit("los_sigma_rows", nlos)
    desc = dict(fam="los_sigma", shape=shape, dist=dist.tolist(), nlos=nlos, kinds=kinds,
                trunc=trunc, explicit_trunc=explicit_trunc, cells_in_transition=np.round(kc, 2).tolist())
    ck.note(desc, len(shape) >= 2, "los_sigma")


# ------------------------------------------------------------------------------------------
# Fourier
# ------------------------------------------------------------------------------------------
def grid_positions(shape, dist):
    ax = [(np.arange(n) - n // 2) * d for n, d in zip(shape, dist)]
    return np.stack(np.meshgrid(*ax, indexing="ij"), -1).reshape(-1, len(shape))   # (Ngrid, nd)


def gen_positions(rng, shape, dist, npts):
    nd = len(shape)
    ext = 1.0 / dist                                        # periodicity of the phases in pos
    pos = rng.uniform(-1.5, 1.5, (npts, nd)) * ext
    on = rng.uniform(size=npts) < 0.25
    if on.any():
        # positions on the harmonic partner grid k/(N d)
        k = rng.integers(-4, 5, (npts, nd))
        pos[on] = (k / (np.array(shape) * dist))[on]
    return pos, bool(on.any()), bool((~on).any())


def case_nufft(ck, rng, bad, which):
    ift = ck.state["ift"]
    if which == "gridder":
        dom, shape, dist = gen_rg(ck, rng, maxnd=2, even=True, cap=100)
        while len(shape) != 2:
            dom, shape, dist = gen_rg(ck, rng, maxnd=2, even=True, cap=100)
    else:
        dom, shape, dist = gen_rg(ck, rng, cap=200)
    npts = int(rng.integers(1, 9))
    pos, has_on, has_off = gen_positions(rng, shape, dist, npts)
    eps = float(pick(rng, [1e-3, 1e-5, 1e-7, 1e-9, 1e-10, 2e-10]))
    X = grid_positions(shape, dist)                       # (Ng, nd)
    ph = 2 * np.pi * (X @ pos.T)                          # (Ng, npts)
    E = np.exp(1j * ph)
    Ng = X.shape[0]
    desc = dict(fam=which, shape=shape, dist=dist.tolist(), npts=npts, eps=eps, on_grid=has_on)
    fro = np.sqrt(Ng * npts)
    if which in ("nufft", "gridder"):
        op = ift.Nufft(dom, pos, eps=eps) if which == "nufft" else ift.Gridder(dom, pos, eps=eps)
        hit = "nufft_checks" if which == "nufft" else "gridder_checks"
        for _ in range(2):
            x = rng.standard_normal(npts) + 1j * rng.standard_normal(npts)
            r = op(ift.makeField(op.domain, x)).asnumpy()
            ex = np.real(E @ x).reshape(shape)
            ck.hit(hit)
            err = np.linalg.norm(r - ex)
            if np.iscomplexobj(r) or not (err <= 20 * eps * fro * np.linalg.norm(x) + 1e-12):
                bad("times", f"{which} TIMES != Re sum_j x_j exp(+2 pi i p_j.x_k) within eps",
                    err=float(err), eps=eps, norm=float(np.linalg.norm(ex)))
            g = rng.standard_normal(shape)
            r = op.adjoint(ift.makeField(dom, g)).asnumpy()
            ex = np.conj(E).T @ g.reshape(-1)
            ck.hit(hit)
            ck.hit("adjoint_matrix_checks")
            err = np.linalg.norm(r - ex)
            if not (err <= 20 * eps * fro * np.linalg.norm(g) + 1e-12):
                bad("adjoint", f"{which} ADJOINT_TIMES != sum_k g_k exp(-2 pi i p_j.x_k) within eps",
                    err=float(err), eps=eps, norm=float(np.linalg.norm(ex)))
    else:
        pre = None
        if rng.integers(0, 3) == 0:
            pre = ift.UnstructuredDomain(int(rng.integers(1, 4)))
        op = ift.VariablePositionNufft(dom, npts, eps, pre_domain=pre)
        gshape = shape if pre is None else pre.shape + shape
        g = rng.standard_normal(gshape) + 1j * rng.standard_normal(gshape)
        inp = ift.makeField(op.domain, {"grid": g, "coord": pos})
        r = op(inp).asnumpy()
        ex = (g.reshape(-1, Ng) @ np.conj(E)).reshape(r.shape)
        ck.hit("varnufft_checks")
        err = np.linalg.norm(r - ex)
        if not (err <= 20 * eps * fro * np.linalg.norm(g) + 1e-12):
            bad("value", "VariablePositionNufft != sum_k grid_k exp(-2 pi i p_j.x_k) within eps",
                err=float(err), eps=eps, norm=float(np.linalg.norm(ex)))
        desc["pre"] = None if pre is None else pre.shape[0]
    ck.note(desc, len(shape) >= 2 and has_off, which)


# ------------------------------------------------------------------------------------------
# interpolation / regridding / padding / mask
# ------------------------------------------------------------------------------------------
def multilinear(rng, nd):
    """random multilinear polynomial: sum over subsets S of c_S prod_{i in S} x_i"""
    coef = {}
    for m in range(2 ** nd):
        S = tuple(i for i in range(nd) if (m >> i) & 1)
        coef[S] = float(rng.standard_normal())

    def f(x):       # x: (nd, ...)
        out = 0.0
        for S, c in coef.items():
            t = c
            for i in S:
                t = t * x[i]
            out = out + t
        return out
    return f


def case_interp(ck, rng, bad):
    ift = ck.state["ift"]
    two = rng.integers(0, 6) == 0
    if two:   # DomainTuple of two 1-D RGSpaces (same number of dimensions each)
        d1, s1, x1 = gen_rg(ck, rng, maxnd=1)
        d2, s2, x2 = gen_rg(ck, rng, maxnd=1)
        dom, shape, dist = ift.DomainTuple.make((d1, d2)), s1 + s2, np.concatenate([x1, x2])
    else:
        dom, shape, dist = gen_rg(ck, rng, cap=256)
    nd = len(shape)
    npts = int(rng.integers(1, 9))
    N = np.array(shape)
    # points inside the un-wrapped region, on-grid points, and wrapped points
    pts = rng.uniform(0, 1, (nd, npts)) * ((N - 1) * dist)[:, None]
    kindp = rng.integers(0, 4, npts)
    for j in range(npts):
        if kindp[j] == 1:
            pts[:, j] = rng.integers(0, N) * dist
        elif kindp[j] == 2:
            pts[:, j] = rng.uniform(-1.5, 2.5, nd) * N * dist       # wraps periodically
    op = ift.LinearInterpolator(dom, pts)
    n = int(np.prod(shape))
    W = np.zeros((npts, n))
    p = pts / dist[:, None]
    fl = np.floor(p)
    fr = p - fl
    for corner in range(2 ** nd):
        bits = np.array([(corner >> i) & 1 for i in range(nd)])
        w = np.prod(np.where(bits[:, None] == 1, fr, 1 - fr), axis=0)
        idx = (fl.astype(np.int64) + bits[:, None]) % N[:, None]
        flat = np.ravel_multi_index(tuple(idx), shape)
        for j in range(npts):
            W[j, flat[j]] += w[j]
    M = dense(op, op.TIMES)
    if cmp_matrix(ck, bad, "weights", M, W, 1e-12, "interp_matrix",
                  "LinearInterpolator row != multilinear weights of the 2^d surrounding pixels"):
        ck.hit("interp_rows", npts)
    MT = dense(op, op.ADJOINT_TIMES)
    cmp_matrix(ck, bad, "adjoint", MT, W.T, 1e-12, "adjoint_matrix_checks",
               "LinearInterpolator adjoint matrix != transposed weights")
    # exactness for multilinear functions at un-wrapped points
    f = multilinear(rng, nd)
    grid = np.stack(np.meshgrid(*[np.arange(s) * d for s, d in zip(shape, dist)], indexing="ij"))
    vals = f(grid)
    r = op(ift.makeField(op.domain, vals)).asnumpy()
    inside = kindp != 2
    ex = f(pts)
    sc = np.max(np.abs(vals)) + 1e-300
    ck.hit("interp_multilinear", int(inside.sum()))
    if np.any(np.abs(r - ex)[inside] > 1e-11 * sc):
        bad("multilinear", "LinearInterpolator does not reproduce a multilinear function",
            err=float(np.max(np.abs(r - ex)[inside])), scale=float(sc))
    desc = dict(fam="interp", shape=shape, dist=dist.tolist(), npts=npts, kinds=kindp.tolist(),
                two_spaces=bool(two))
    ck.note(desc, nd >= 2 and bool(np.any(kindp != 1)), "interp")


def lin_matrix_1d(n_old, n_new):
    """documented: new pixel j sits at j*newdist = j*(n_old/n_new) old pixels; linear interpolation
    between the two neighbouring old pixels (the last interval is extrapolated/clamped)"""
    A = np.zeros((n_new, n_old))
    for j in range(n_new):
        x = j * (n_old / n_new)
        b = min(int(np.floor(x)), n_old - 2)
        fr = x - b
        A[j, b] += 1 - fr
        A[j, b + 1] += fr
    return A


def kron_on_axes(mats, shape_in, lead=(), trail=()):
    """matrix of applying mats[i] along axis i of an array of shape lead+shape_in+trail"""
    M = np.eye(int(np.prod(lead)) if lead else 1)
    for A in mats:
        M = np.kron(M, A)
    if trail:
        M = np.kron(M, np.eye(int(np.prod(trail))))
    return M


def case_regrid(ck, rng, bad):
    ift = ck.state["ift"]
    dom, shape, dist = gen_rg(ck, rng, lo=2, hi=8, cap=128)
    new_shape = tuple(int(rng.integers(1, s + 1)) for s in shape)
    if rng.integers(0, 3) == 0:           # factors dividing the shape
        new_shape = tuple(int(pick(rng, [k for k in range(1, s + 1) if s % k == 0])) for s in shape)
    lead, trail, space = (), (), 0
    full = dom
    if rng.integers(0, 3) == 0:
        other = ift.UnstructuredDomain(int(rng.integers(1, 4)))
        if rng.integers(0, 2):
            full, lead, space = ift.DomainTuple.make((other, dom)), other.shape, 1
        else:
            full, trail, space = ift.DomainTuple.make((dom, other)), other.shape, 0
    op = ift.RegriddingOperator(full, new_shape, space=space)
    A = kron_on_axes([lin_matrix_1d(a, b) for a, b in zip(shape, new_shape)], shape, lead, trail)
    M = dense(op, op.TIMES)
    cmp_matrix(ck, bad, "matrix", M, A, 1e-12, "regrid_checks",
               "RegriddingOperator != linear interpolation onto the coarser grid")
    MT = dense(op, op.ADJOINT_TIMES)
    cmp_matrix(ck, bad, "adjoint", MT, A.T, 1e-12, "adjoint_matrix_checks",
               "RegriddingOperator adjoint != transposed matrix")
    # target geometry: same total length
    tg = op.target[space]
    ck.hit("regrid_checks")
    exp_d = dist * np.array(shape) / np.array(new_shape)
    if tuple(tg.shape) != new_shape or not np.allclose(tg.distances, exp_d, rtol=1e-13):
        bad("target", "RegriddingOperator target geometry differs from documented",
            observed=[list(tg.shape), list(tg.distances)], expected=[list(new_shape), exp_d.tolist()])
    desc = dict(fam="regrid", shape=shape, new_shape=new_shape, space=space, lead=lead, trail=trail)
    ck.note(desc, len(shape) >= 2 and new_shape != shape, "regrid")


def pad_matrix_1d(n, m, central):
    P = np.zeros((m, n))
    if not central:
        P[np.arange(n), np.arange(n)] = 1
        return P
    if m == n:
        return np.eye(n)
    nyq = n // 2
    for i in range(nyq + 1):                  # non-negative "frequencies" stay at the start
        P[i, i] = 1
    for t in range(1, nyq + 1):               # negative ones stay at the end (the Nyquist entry of
        P[m - t, n - t] = 1                   # an even axis appears at both +N/2 and -N/2: documented)
    return P


def case_padder(ck, rng, bad):
    ift = ck.state["ift"]
    harmonic = bool(rng.integers(0, 2))
    dom0, shape, dist = gen_rg(ck, rng, lo=1, hi=7, cap=100)
    dom = ift.RGSpace(shape, distances=tuple(dist), harmonic=harmonic)
    new_shape = tuple(int(s + pick(rng, [0, 1, 1, 2, 3, s, s + 1])) for s in shape)
    central = bool(rng.integers(0, 2))
    lead, trail, space, full = (), (), 0, dom
    if rng.integers(0, 3) == 0:
        other = ift.UnstructuredDomain(int(rng.integers(1, 4)))
        if rng.integers(0, 2):
            full, lead, space = ift.DomainTuple.make((other, dom)), other.shape, 1
        else:
            full, trail, space = ift.DomainTuple.make((dom, other)), other.shape, 0
    op = ift.FieldZeroPadder(full, new_shape, space=space, central=central)
    A = kron_on_axes([pad_matrix_1d(a, b, central) for a, b in zip(shape, new_shape)], shape, lead, trail)
    cplx = bool(rng.integers(0, 3) == 0)
    M = dense(op, op.TIMES, cplx, cplx)
    Aexp = np.kron(np.eye(2), A) if cplx else A
    cmp_matrix(ck, bad, "matrix", M, Aexp, 0.0, "padder_checks",
               "FieldZeroPadder != embedding into zeros at the documented offset")
    MT = dense(op, op.ADJOINT_TIMES, cplx, cplx)
    cmp_matrix(ck, bad, "adjoint", MT, Aexp.T, 0.0, "adjoint_matrix_checks",
               "FieldZeroPadder adjoint != crop (transposed embedding)")
    tg = op.target[space]
    ck.hit("padder_checks")
    if tuple(tg.shape) != new_shape or not np.allclose(tg.distances, dist, rtol=1e-13) \
            or tg.harmonic != harmonic:
        bad("target", "FieldZeroPadder target geometry differs from documented")
    desc = dict(fam="padder", shape=shape, new_shape=new_shape, central=central, space=space,
                lead=lead, trail=trail, cplx=cplx)
    par = {s % 2 for s in shape}
    ck.note(desc, len(shape) >= 2 and new_shape != shape and (len(par) == 2 or central), "padder")


def case_mask(ck, rng, bad):
    ift = ck.state["ift"]
    from vf.clgen import gen_domain_tuple
    dom, ddesc = gen_domain_tuple(rng, nsp=(1, 1, 2), maxsize=48, kinds=("RG", "RG", "U", "HP"))
    n = dom.size
    mode = pick(rng, ["partial", "partial", "partial", "none", "all", "one"])
    p = rng.uniform(0.1, 0.9)
    fl = rng.uniform(size=dom.shape) < p
    if mode == "none":
        fl[...] = False
    elif mode == "all":
        fl[...] = True
    elif mode == "one":
        fl[...] = False
        fl.reshape(-1)[int(rng.integers(0, n))] = True
    dt = pick(rng, ["bool", "int", "float", "float_any"])
    if dt == "bool":
        fa = fl
    elif dt == "int":
        fa = fl.astype(np.int64) * rng.integers(1, 5, dom.shape)
    elif dt == "float":
        fa = fl.astype(np.float64)
    else:
        fa = np.where(fl, rng.uniform(0.1, 3, dom.shape) * rng.choice([-1, 1], dom.shape), 0.0)
    op = ift.MaskOperator(ift.makeField(dom, fa))
    keep = np.flatnonzero(~fl.reshape(-1))
    A = np.zeros((keep.size, n))
    A[np.arange(keep.size), keep] = 1
    ck.hit("mask_checks")
    if op.target.shape != (keep.size,):
        bad("target", "MaskOperator target size != number of unflagged pixels",
            observed=list(op.target.shape), expected=int(keep.size))
    else:
        cplx = bool(rng.integers(0, 3) == 0)
        Aexp = np.kron(np.eye(2), A) if cplx else A
        M = dense(op, op.TIMES, cplx, cplx)
        cmp_matrix(ck, bad, "matrix", M, Aexp, 0.0, "mask_checks",
                   "MaskOperator output != unflagged pixels in row-major order")
        MT = dense(op, op.ADJOINT_TIMES, cplx, cplx)
        cmp_matrix(ck, bad, "adjoint", MT, Aexp.T, 0.0, "adjoint_matrix_checks",
                   "MaskOperator adjoint != scatter back with zeros at flagged pixels")
    desc = dict(fam="mask", dom=ddesc, mode=mode, nflag=int(fl.sum()), dtype=dt)
    ck.note(desc, len(dom.shape) >= 2 and 0 < fl.sum() < n, "mask")


# ------------------------------------------------------------------------------------------
def case_sampling_los(ck, rng, bad):
    jft, jnp = lazy_jax(ck)
    nd = int(rng.integers(1, 4))
    shape = tuple(int(x) for x in rng.integers(2, 7, nd))
    dist = np.array([rfloat(rng, 0.05, 20, log=True) for _ in shape])
    N = np.array(shape)
    npts = int(pick(rng, [3, 5, 16, 50]))
    nlos = int(rng.integers(1, 5))
    ext = N * dist
    bc = pick(rng, ["both", "both", "start_single", "end_single"])
    start = rng.uniform(0.0, 1.0, (nlos, nd)) * ext
    end = rng.uniform(0.0, 1.0, (nlos, nd)) * ext
    outside = rng.integers(0, 5) == 0
    if outside:
        end[0] = ext * rng.uniform(1.05, 1.5, nd)
    s_arg, e_arg = start, end
    if bc == "start_single":
        start = np.broadcast_to(start[0], (nlos, nd)).copy()
        s_arg = start[0]
    elif bc == "end_single":
        end = np.broadcast_to(end[0], (nlos, nd)).copy()
        e_arg = end[0]
        if nlos == 1:
            e_arg = end
    op = jft.SamplingCartesianGridLOS(s_arg, e_arg, shape=shape, distances=tuple(dist),
                                      n_sampling_points=npts)
    kind = pick(rng, ["random", "const", "linear"])
    if kind == "random":
        x = rng.standard_normal(shape)
    elif kind == "const":
        x = np.full(shape, float(rng.standard_normal()))
    else:
        g = np.stack(np.meshgrid(*[np.arange(s, dtype=float) for s in shape], indexing="ij"))
        cf = rng.standard_normal(nd + 1)
        x = cf[0] + np.tensordot(cf[1:], g, axes=1)
    r = np.asarray(op(jnp.asarray(x)))
    # oracle: midpoint rule over multilinear interpolation in index coordinates
    l2i = (N - 1) / N / dist
    ex = np.zeros(nlos)
    for i in range(nlos):
        a, b = start[i] * l2i, end[i] * l2i
        acc = 0.0
        for k in range(npts):
            p = a + (b - a) * (k + 0.5) / npts
            if np.any(p < 0) or np.any(p > N - 1):
                acc = np.nan
                break
            fl = np.minimum(np.floor(p).astype(int), N - 2) if np.all(N >= 2) else np.floor(p).astype(int)
            fr = p - fl
            v = 0.0
            for corner in range(2 ** nd):
                bits = np.array([(corner >> q) & 1 for q in range(nd)])
                w = np.prod(np.where(bits == 1, fr, 1 - fr))
                if w != 0:
                    v += w * x[tuple(fl + bits)]
            acc += v
        ex[i] = acc * np.linalg.norm(end[i] - start[i]) / npts
    ck.hit("sampling_los_checks", nlos)
    sc = np.max(np.abs(x)) * np.max(np.linalg.norm(end - start, axis=1)) + 1e-300
    okn = np.array_equal(np.isnan(r), np.isnan(ex))
    if r.shape != ex.shape or not okn or np.nanmax(np.abs(r - ex), initial=0.0) > 1e-10 * sc:
        bad("value", "SamplingCartesianGridLOS != midpoint-rule sum of the multilinearly "
            "interpolated field", observed=np.asarray(r).tolist(), expected=ex.tolist())
    if kind == "const" and not outside:
        ck.hit("sampling_los_const")
        exc = x.reshape(-1)[0] * np.linalg.norm(end - start, axis=1)
        if np.max(np.abs(r - exc)) > 1e-10 * sc:
            bad("const", "SamplingCartesianGridLOS of a constant field != constant * length")
    desc = dict(fam="sampling_los", shape=shape, dist=dist.tolist(), npts=npts, nlos=nlos, bc=bc,
                field=kind, outside=bool(outside))
    ck.note(desc, nd >= 2 and kind != "const", "sampling_los")


FAMS = (["los"] * 5 + ["los_sigma"] * 2 + ["nufft"] * 3 + ["gridder"] * 2 + ["varnufft"] + ["interp"] * 4
        + ["regrid"] * 3 + ["padder"] * 3 + ["mask"] * 3 + ["sampling_los"] * 2)


def case(ck, i):
    rng = ck.rng()
    # families are dealt round-robin over the case index (seed-dependent offset) so that every
    # family is observed even if only a few dozen cases fit into the budget
    fam = FAMS[(i * 11 + int(ck.rng(777).integers(0, len(FAMS)))) % len(FAMS)]
    bad = Bad(ck, fam)
    if fam == "los":
        case_los(ck, rng, bad)
    elif fam == "los_sigma":
        case_los_sigma(ck, rng, bad)
    elif fam in ("nufft", "gridder", "varnufft"):
        case_nufft(ck, rng, bad, fam)
    elif fam == "interp":
        case_interp(ck, rng, bad)
    elif fam == "regrid":
        case_regrid(ck, rng, bad)
    elif fam == "padder":
        case_padder(ck, rng, bad)
    elif fam == "mask":
        case_mask(ck, rng, bad)
    else:
        case_sampling_los(ck, rng, bad)
