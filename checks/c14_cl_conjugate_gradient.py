"""C14 — Classic conjugate gradient solves positive definite systems.

Monitors: every IterationController class has its ``start``/``check`` wrapped on the live
class (vf.clsolve.attach_controller_monitor); for each CG run the harness sees the exact
sequence of energy objects the controller saw and the status it returned.  A harness-defined
dense LinearOperator logs the modes it is applied in (InversionEnabler clause).

Oracle (dense NumPy, no NIFTy code): value = 1/2 x^H A x - Re b^H x and gradient = A x - b
at the *position* of every observed energy; an independent interval re-implementation of the
documented controller criteria fed with those dense quantities (tie zone = observed deviation
between the library's and the dense value); dense residuals for exact-termination and
InversionEnabler clauses.
"""
import numpy as np

from vf import clsolve as cs

META = dict(
    id="C14", level="exploration",
    title="Classic conjugate gradient solves positive definite systems",
    technique=("wrapped IterationController.start/check event trace + dense re-evaluation of every "
               "observed QuadraticEnergy and an independent interval re-implementation of the "
               "controller criteria"),
    rule=("case = HPD matrix (n in 1..40, real/complex, prescribed spectrum: cond 1..1e6, "
          "geometric/uniform/log-uniform/clustered) x rhs x start (zero/random/near/exact solution) x "
          "preconditioner (none/Jacobi/approximate inverse/exact inverse) x controller class "
          "(GradientNorm abs/rel, GradInfNorm, DeltaEnergy, AbsDeltaEnergy; level 1-3; limits incl. 0, 1) "
          "x nreset in {1,2,5,20} x call path (ConjugateGradient directly, InversionEnabler "
          "inverse_times / adjoint_inverse_times, exact-termination run, non-HPD input). "
          "non-trivial: n >= 3 and >= 2 CG iterations observed; distinct = descriptor"),
    assumptions=["matrices are presented through a harness-defined dense LinearOperator (public "
                 "operator interface) or MatrixProductOperator; preconditioners are HPD by construction",
                 "StochasticAbsDeltaEnergyController is not exercised (not meaningful for CG)",
                 "controller decisions inside the tie zone (dense value +- observed deviation of the "
                 "library's own value, relative padding 1e-12) are not judged; the run is still judged "
                 "on all other clauses",
                 "ERROR is only required to be absent for HPD input; non-HPD input is run through the "
                 "same oracles but may return ERROR",
                 "monotonic energy decrease and absence of ERROR are only judged while the dense residual is "
                 ">= 1e-8 (|A| max|x| + |b|): once CG has converged numerically (e.g. start at the exact "
                 "solution with an unattainable tolerance) its steps are rounding noise; iterates that "
                 "overflow in that phase end the judgement of the run (observed: CG on a 1x1 system driven "
                 "on by a level-3 DeltaEnergyController blows up to inf after the exact solve)"],
    need=["energy_consistency_checks", "controller_decisions", "converged_claims_verified",
          "inversion_enabler_solutions", "nstep_termination_checks", "cg_runs", "controller_reuse_runs"],
    quick=dict(cases=800, workers=6, budget_s=80),
    thorough=dict(cases=50000, workers=16, budget_s=700),
    design_ref="DESIGN.md §5 C14",
    level_text=("generated HPD systems / controller configurations, every controller event of the real "
                "ConjugateGradient re-evaluated densely; exploration, not exhaustive"),
    level_note=("trusts numpy.linalg for dense algebra; conditioning bounded by 1e6 and tolerances for "
                "value/gradient consistency are 1e-9 of the natural scale (|A| max|x| + |b|); operators "
                "larger than 40 unknowns and device arrays are out of reach"),
)

CONV, CONT, ERR = cs.CONVERGED, cs.CONTINUE, cs.ERROR


def init(ck):
    import nifty.cl as ift
    ck.state["ift"] = ift
    rec = cs.Recorder()
    cs.attach_controller_monitor(rec)
    ck.state["rec"] = rec
    ck.state["DenseOp"] = cs.dense_op_class()
    import logging
    logging.getLogger("NIFTy8").setLevel(logging.CRITICAL)
    try:
        ift.logger.setLevel(logging.CRITICAL)
    except Exception:
        pass


# ----------------------------------------------------------------- generators ---
def gen_system(rng, ck):
    n = int(rng.choice([1, 2, 3, 4, 5, 6, 8, 10, 12, 16, 20, 25, 32, 40]))
    cplx = bool(rng.integers(0, 2))
    cond = float(rng.choice([1.0, 3.0, 10.0, 1e2, 1e3, 1e4, 1e6]))
    kind = str(rng.choice(["geom", "unif", "logunif", "clust2", "clust3", "clust5"]))
    scale = float(10.0 ** rng.integers(-3, 4))
    A, ev = cs.gen_hpd(rng, n, cplx, cond, kind, scale)
    return n, cplx, cond, kind, scale, A, ev


def gen_domain(ift, rng, n):
    """a domain with n pixels (sometimes 2-D, sometimes an RGSpace with distances)"""
    t = int(rng.integers(0, 3))
    if t == 0:
        return ift.DomainTuple.make(ift.UnstructuredDomain(n)), "U"
    if t == 1:
        return ift.DomainTuple.make(ift.RGSpace(n, distances=0.37)), "RG"
    for a in (4, 3, 2):
        if n % a == 0 and n // a > 1:
            return ift.DomainTuple.make(ift.RGSpace((a, n // a))), "RG2"
    return ift.DomainTuple.make(ift.UnstructuredDomain(n)), "U"


def gen_ctrl_spec(rng, n, r0, r0inf, E0, Estar, force_limit=None):
    kind = str(rng.choice(["gradnorm", "gradnorm", "gradinf", "deltaE", "absdeltaE"]))
    level = int(rng.choice([1, 1, 2, 3]))
    if force_limit is not None:
        limit = force_limit
    else:
        limit = int(rng.choice([0, 1, 2, 3, n, 2 * n + 2, 120, 120, 120, 120]))
    spec = dict(kind=kind, level=level, limit=limit)
    u = float(rng.uniform(0.5, 9.0))
    if kind == "gradnorm":
        which = int(rng.integers(0, 3))
        if which in (0, 2):
            spec["tol_abs"] = float(max(r0, 1e-30) * 10.0 ** (-u))
        if which in (1, 2):
            spec["tol_rel"] = float(10.0 ** (-float(rng.uniform(0.5, 9.0))))
    elif kind == "gradinf":
        den = max(abs(Estar), 1e-30)
        spec["tol"] = float(max(r0inf, 1e-30) / den * 10.0 ** (-u))
    elif kind == "deltaE":
        spec["tol"] = float(10.0 ** (-float(rng.uniform(1.0, 12.0))))
    else:
        spec["tol"] = float(max(abs(E0 - Estar), 1e-30) * 10.0 ** (-float(rng.uniform(1.0, 12.0))))
    return spec


def gen_precond(ift, ck, rng, dom, A, cplx, kind):
    """HPD preconditioner operator P ~ A^-1 (applied in TIMES mode by CG)"""
    n = A.shape[0]
    DenseOp = ck.state["DenseOp"]
    if kind == "none":
        return None, None
    if kind == "jacobi":
        d = 1.0 / np.real(np.diagonal(A))
        return ift.DiagonalOperator(ift.makeField(dom, d.reshape(dom.shape))), np.diag(d)
    Ainv = np.linalg.inv(A)
    if kind == "exact":
        P = 0.5 * (Ainv + Ainv.conj().T)
    else:
        B, _ = cs.gen_hpd(rng, n, cplx, 3.0, "unif")
        P = B @ Ainv @ B.conj().T           # HPD, same conditioning class, not the inverse
        P = 0.5 * (P + P.conj().T)
    return DenseOp(dom, P), P


# -------------------------------------------------------------------- oracles ---
def dense_energy(A, b, x):
    Ax = A @ x
    q = np.vdot(x, Ax)
    l = np.vdot(b, x)
    return 0.5 * q.real - l.real, Ax - b, 0.5 * abs(q) + abs(l)


class RunJudge:
    """judges one CG run from its controller events"""

    def __init__(self, ck, A, b, cplx, shadow, ctrl_kind, nreset, site):
        self.ck, self.A, self.b, self.cplx = ck, A, b, cplx
        self.shadow, self.ctrl_kind, self.nreset, self.site = shadow, ctrl_kind, nreset, site
        self.normA = float(np.linalg.norm(A, 2))
        self.normb = cs.nrm(b)
        self.xmax = 0.0
        self.Ed = []
        self.res = []
        self.seen = set()
        self.last_shadow = None
        self.judged_all = True
        self.nonfinite = False

    def viol(self, key, what, **w):
        if key in self.seen:
            return
        self.seen.add(key)
        self.ck.violation(key, what, **w)

    def vec(self, f):
        v = cs.fvec(f)
        return v.astype(np.complex128) if self.cplx else v

    def energy_event(self, k, energy, how):
        """dense re-evaluation of one observed energy; returns the interval dict"""
        ck = self.ck
        x = self.vec(energy.position)
        with np.errstate(all="ignore"):
            finite = bool(np.all(np.isfinite(x)) and np.isfinite(cs.nrm(x)) and
                          np.all(np.isfinite(self.A @ x)) and np.isfinite(np.vdot(x, self.A @ x)))
        if not finite or self.nonfinite:
            # overflowing iterates: only tolerated after numerical convergence (noise-driven breakdown)
            S = self.normA * self.xmax + self.normb + 1e-300
            if not self.nonfinite:
                self.nonfinite = True
                ck.hit("nonfinite_iterates_runs")
                if not (self.res and min(self.res) < 1e-8 * S):
                    self.viol(f"cg-nonfinite-iterate:{self.site}",
                              f"iterate {k} is not finite although the residual never came near the "
                              "attainable accuracy")
            return None
        self.xmax = max(self.xmax, cs.nrm(x))
        Ed, gd, Emag = dense_energy(self.A, self.b, x)
        S = self.normA * self.xmax + self.normb + 1e-300
        Escale = 0.5 * self.normA * self.xmax ** 2 + self.normb * self.xmax + 1e-300
        gobs = self.vec(energy.gradient)
        if not self.cplx and np.iscomplexobj(gobs):
            gobs = gobs.real
        delta = cs.nrm(gobs - gd)
        dinf = float(np.max(np.abs(gobs - gd), initial=0.0))
        Eobs = float(energy.value)
        eps = abs(Eobs - Ed)
        ck.hit("energy_consistency_checks", 2)
        if not (delta <= 1e-9 * S):
            self.viol(f"qe-gradient-vs-position:{self.site}:{how}",
                      f"QuadraticEnergy.gradient seen by the controller at event {k} differs from "
                      f"A x - b at its own position (step produced by '{how}')",
                      event=k, deviation=delta, scale=S, nreset=self.nreset)
        if not (eps <= 1e-9 * Escale):
            self.viol(f"qe-value-vs-position:{self.site}:{how}",
                      f"QuadraticEnergy.value seen by the controller at event {k} differs from "
                      f"1/2 x^H A x - Re b^H x at its own position",
                      event=k, observed=Eobs, expected=Ed, scale=Escale)
        gno = float(energy.gradient_norm)
        if abs(gno - cs.nrm(gobs)) > 1e-12 * (cs.nrm(gobs) + 1e-300) + 1e-300:
            self.viol(f"qe-gradient-norm:{self.site}", "gradient_norm differs from the norm of gradient",
                      observed=gno, expected=cs.nrm(gobs))
        gn = cs.nrm(gd)
        gi = float(np.max(np.abs(gd), initial=0.0))
        self.Ed.append((Ed, Escale))
        self.res.append(gn)
        return dict(gn=cs._pad(max(gn - delta, 0.0), gn + delta),
                    ginf=cs._pad(max(gi - dinf, 0.0), gi + dinf),
                    E=cs._pad(Ed - eps, Ed + eps))

    def how(self, k):
        if k == 0:
            return "start"
        return "recompute" if (k % self.nreset == 0) else "update"

    def run(self, events):
        ck = self.ck
        nev = 0
        for k, ev in enumerate(events):
            q = self.energy_event(k, ev["energy"], self.how(k))
            nev += 1
            if q is None:
                self.judged_all = False
                continue
            exp_meth = "start" if k == 0 else "check"
            if ev["meth"] != exp_meth:
                self.viol(f"controller-protocol:{self.site}",
                          f"event {k} was controller.{ev['meth']}, expected {exp_meth}")
            st = ev["status"]
            if st not in (CONV, CONT, ERR):
                self.viol(f"controller-status:{self.ctrl_kind}", f"controller returned {st!r}")
            sh = self.shadow.feed(ev["meth"], q)
            self.last_shadow = sh
            if sh is None:
                if self.judged_all:
                    ck.hit("controller_tie_runs")
                self.judged_all = False
            else:
                ck.hit("controller_decisions")
                if st != sh:
                    if st == CONV:
                        self.viol(f"controller-decision:{self.ctrl_kind}:converged-without-criterion",
                                  f"{self.ctrl_kind} controller reported CONVERGED at event {k} although "
                                  "neither its criterion (re-evaluated densely, with its convergence "
                                  "level) nor its iteration limit is met",
                                  event=k, quantities={a: list(b) for a, b in q.items()},
                                  counter=self.shadow.cc, itcount=self.shadow.it)
                    elif st == CONT:
                        self.viol(f"controller-decision:{self.ctrl_kind}:continue-despite-criterion",
                                  f"{self.ctrl_kind} controller returned CONTINUE at event {k} although "
                                  "its criterion / iteration limit is met",
                                  event=k, quantities={a: list(b) for a, b in q.items()},
                                  counter=self.shadow.cc, itcount=self.shadow.it)
                    else:
                        self.viol(f"controller-decision:{self.ctrl_kind}:error",
                                  f"controller returned ERROR at event {k}")
                elif st == CONV:
                    ck.hit("converged_claims_verified")
            if st != CONT and k != len(events) - 1:
                self.viol(f"cg-ignores-controller:{self.site}",
                          f"the iteration went on after the controller returned status {st} at event {k}")
        return nev

    def monotone(self):
        """energies must not increase from one controller event to the next — judged only while the
        dense residual is well above the attainable accuracy (>= 1e-8 of |A| max|x| + |b|): once CG
        has converged numerically its further steps are driven by rounding noise"""
        S = self.normA * self.xmax + self.normb + 1e-300
        for k in range(1, len(self.Ed)):
            if min(self.res[k - 1], self.res[k]) < 1e-8 * S:
                break
            (e0, s0), (e1, s1) = self.Ed[k - 1], self.Ed[k]
            self.ck.hit("monotone_checks")
            if e1 > e0 + 1e-10 * max(s0, s1):
                self.viol(f"cg-energy-increase:{self.site}",
                          f"quadratic energy increased between controller events {k-1} and {k}",
                          before=e0, after=e1)
                break


def judge_return(J, events, energy, status, hpd, ic):
    """clauses about what ConjugateGradient returned"""
    ck = J.ck
    if status not in (CONV, ERR):
        J.viol(f"cg-status:{J.site}", f"ConjugateGradient returned status {status!r}")
        return
    if status == ERR:
        if hpd:
            last = events[-1]["status"] if events else None
            S = J.normA * J.xmax + J.normb + 1e-300
            if J.res and min(J.res) < 1e-8 * S:
                # numerically converged already: the iteration runs on rounding noise (e.g. the search
                # direction cancels to 0 exactly) — not judged, like monotonicity
                ck.hit("cg_error_at_noise_floor")
            elif last != ERR:
                J.viol(f"cg-error-on-hpd:{J.site}",
                       "ConjugateGradient returned ERROR for an HPD system with HPD preconditioner",
                       events=len(events))
        return
    # CONVERGED
    if not events:
        J.viol(f"cg-no-controller-call:{J.site}", "CONVERGED without consulting the controller")
        return
    last = events[-1]
    # the returned energy must be consistent with its own position as well
    if J.energy_event(len(events), energy, "returned") is None:
        return
    J.Ed.pop()
    res = J.res.pop()
    if last["status"] == CONV:
        if energy is not last["energy"]:
            xr, xl = J.vec(energy.position), J.vec(last["energy"].position)
            if not np.array_equal(xr, xl):
                J.viol(f"cg-returns-other-iterate:{J.site}",
                       "returned energy is not the one the controller accepted")
        return
    # CG's own exit (gamma == 0): the residual must vanish
    ck.hit("cg_own_exit")
    S = J.normA * J.xmax + J.normb + 1e-300
    if res > 1e-9 * S:
        J.viol(f"cg-converged-without-controller:{J.site}",
               "ConjugateGradient returned CONVERGED although the controller said CONTINUE and the "
               "dense residual is not zero", residual=res, scale=S)


def controller_crash(ck, ic, exc, desc, spec, path, n):
    """a controller raised ZeroDivisionError (energy value exactly 0, e.g. zero start position)"""
    import traceback
    tb = traceback.extract_tb(exc.__traceback__)
    inside = any("iteration_controllers" in fr.filename for fr in tb)
    where = type(ic).__name__ if inside else "other"
    ck.hit("controller_crashes")
    ck.violation(f"controller-crash:ZeroDivisionError:{where}",
                 f"{type(ic).__name__} raised ZeroDivisionError while judging an energy whose value is "
                 "exactly 0 (zero start position)", start=desc.get("start"), path=path)
    ck.note(desc, nontrivial=False, klass=f"{path}:{spec['kind']}")


# ----------------------------------------------------------------------- case ---
def case(ck, i):
    ift = ck.state["ift"]
    rec = ck.state["rec"]
    DenseOp = ck.state["DenseOp"]
    rng = ck.rng()
    n, cplx, cond, skind, scale, A, ev = gen_system(rng, ck)
    path = str(rng.choice(["cg"] * 10 + ["ie_inv"] * 2 + ["ie_adj"] * 2 + ["nstep"] * 3
                          + ["nonhpd"]))
    dom, dkind = gen_domain(ift, rng, n)
    nreset = int(rng.choice([1, 2, 5, 20]))
    desc = dict(n=n, cplx=cplx, cond=cond, spec=skind, scale=scale, path=path, dom=dkind,
                nreset=nreset)
    hpd = True
    A_hpd = A
    if path == "nonhpd":
        sgn = np.ones(n)
        if rng.integers(0, 2) == 0 or n == 1:
            sgn[:] = -1.0                     # negative definite
        else:
            sgn[rng.permutation(n)[: max(1, n // 2)]] = -1.0
        U = cs.rand_unitary(rng, n, cplx)
        A = (U * (ev * sgn)) @ U.conj().T
        A = 0.5 * (A + A.conj().T)
        hpd = False
        desc["signs"] = int(np.sum(sgn < 0))
    if path == "nstep":
        m = int(rng.integers(1, 7))
        m = min(m, n)
        cond = float(rng.choice([1.0, 3.0, 10.0, 100.0])) if m > 1 else 1.0
        A, ev = cs.gen_hpd(rng, n, cplx, cond, f"clust{m}" if m > 1 else "geom", scale)
        if m == 1:
            A = np.eye(n) * scale + 0 * A
            ev = np.full(n, scale)
        desc.update(distinct=m, cond=cond)
    b = cs.gen_vec(rng, n, cplx, scale=float(10.0 ** rng.integers(-2, 3)))
    if not cplx:
        A = np.ascontiguousarray(A.real)
    log = []
    usemp = (path in ("cg", "nstep")) and dkind == "U" and rng.integers(0, 4) == 0
    if usemp:
        op = ift.MatrixProductOperator(dom, A)
        desc["op"] = "MatrixProductOperator"
    else:
        op = DenseOp(dom, A, log=log)
        desc["op"] = "DenseOp"
    bf = cs.mkfield(dom, b)
    xstar = np.linalg.solve(A, b)
    Estar = dense_energy(A, b, xstar)[0]

    # ------------------------------------------------------------ start point
    if path in ("ie_inv", "ie_adj"):
        stkind = "zero"
    elif path == "nstep":
        stkind = str(rng.choice(["zero", "random"]))
    else:
        stkind = str(rng.choice(["zero", "zero", "random", "random", "near", "exact"]))
    if stkind == "zero":
        x0 = np.zeros(n, dtype=A.dtype)
    elif stkind == "random":
        x0 = cs.gen_vec(rng, n, cplx, scale=cs.nrm(xstar) / np.sqrt(n) + 1e-3)
    elif stkind == "near":
        x0 = xstar + 1e-4 * cs.gen_vec(rng, n, cplx, scale=cs.nrm(xstar) / np.sqrt(n) + 1e-6)
    else:
        x0 = xstar.copy()
    desc["start"] = stkind
    E0, g0, _ = dense_energy(A, b, x0)
    r0, r0inf = cs.nrm(g0), float(np.max(np.abs(g0)))

    # ------------------------------------------------------------- controller
    if path == "nstep":
        spec = dict(kind="gradnorm", tol_abs=0.0, level=1, limit=desc["distinct"] + 2)
    else:
        spec = gen_ctrl_spec(rng, n, r0, r0inf, E0, Estar)
    ic, shadow = cs.make_controller(ift, spec)
    desc["ctrl"] = spec

    # --------------------------------------------------------- preconditioner
    pk = "none"
    if path in ("cg", "nonhpd"):
        pk = str(rng.choice(["none", "none", "jacobi", "approx", "exact"]))
        if not hpd and pk == "jacobi":
            pk = "none"
    elif path in ("ie_inv", "ie_adj"):
        pk = str(rng.choice(["none", "jacobi", "denseapprox"]))
    desc["precond"] = pk

    site = {"cg": "cg", "nstep": "cg", "nonhpd": "cg-nonhpd", "ie_inv": "inversion-enabler",
            "ie_adj": "inversion-enabler"}[path]
    J = RunJudge(ck, A, b, cplx, shadow, type(ic).__name__, nreset if path not in ("ie_inv", "ie_adj")
                 else 20, site)
    ck.hit("cg_runs")

    if path in ("cg", "nstep", "nonhpd"):
        P, _ = gen_precond(ift, ck, rng, dom, A if hpd else A_hpd, cplx, pk)
        x0f = cs.mkfield(dom, x0)
        rec.begin()
        crashed = None
        try:
            energy0 = ift.QuadraticEnergy(x0f, op, bf)
            out_energy, status = ift.ConjugateGradient(ic, nreset=nreset)(energy0, preconditioner=P)
        except ZeroDivisionError as e:
            crashed = e
        finally:
            events = [e for e in rec.end() if e["t"] == "ctrl" and e["ctrl"] is ic]
        nev = J.run(events)
        if crashed is not None:
            controller_crash(ck, ic, crashed, desc, spec, path, n)
            return
        judge_return(J, events, out_energy, status, hpd, ic)
        if hpd:
            J.monotone()
        iters = max(0, nev - 1)
        desc["iters"] = iters
        if path == "cg" and rng.integers(0, 2) == 0:
            # the same controller object drives a second, unrelated solve (as InversionEnabler and the
            # samplers do on every application): its decisions must again follow the configured criteria,
            # whatever the first solve left behind in the object
            b2 = cs.gen_vec(rng, n, cplx, scale=float(10.0 ** rng.integers(-2, 3)))
            x02 = np.zeros(n, dtype=A.dtype) if rng.integers(0, 2) else \
                cs.gen_vec(rng, n, cplx, scale=cs.nrm(np.linalg.solve(A, b2)) / np.sqrt(n) + 1e-3)
            sh2 = cs.make_controller(ift, spec)[1]
            J2 = RunJudge(ck, A, b2, cplx, sh2, type(ic).__name__ + ":reused", nreset, "cg-reused-controller")
            rec.begin()
            crashed = None
            try:
                e02 = ift.QuadraticEnergy(cs.mkfield(dom, x02), op, cs.mkfield(dom, b2))
                out2, status2 = ift.ConjugateGradient(ic, nreset=nreset)(e02, preconditioner=P)
            except ZeroDivisionError as e:
                crashed = e
            finally:
                events2 = [e for e in rec.end() if e["t"] == "ctrl" and e["ctrl"] is ic]
            J2.run(events2)
            ck.hit("controller_reuse_runs")
            desc["reused"] = True
            if crashed is None:
                judge_return(J2, events2, out2, status2, hpd, ic)
                J2.monotone()
        if path == "nstep" and events:
            m = desc["distinct"]
            if len(events) - 1 >= m and r0 > 0:
                ck.hit("nstep_termination_checks")
                rm = J.res[min(m, len(J.res) - 1)]
                if not (rm <= 1e-6 * r0):
                    J.viol("cg-n-step-termination",
                           f"CG on a matrix with {m} distinct eigenvalues (cond {cond}) did not reduce the "
                           f"residual by 1e-6 within {m} iterations", residual=rm, start_residual=r0)
        ck.note(desc, nontrivial=(n >= 3 and iters >= 2), klass=f"{path}:{spec['kind']}")
        return

    # ------------------------------------------------------ InversionEnabler
    approx = None
    if pk == "jacobi":
        approx = ift.DiagonalOperator(ift.makeField(dom, np.real(np.diagonal(A)).reshape(dom.shape)))
    elif pk == "denseapprox":
        B, _ = cs.gen_hpd(rng, n, cplx, 3.0, "unif")
        M = B @ A @ B.conj().T
        M = 0.5 * (M + M.conj().T)
        if not cplx:
            M = M.real
        approx = DenseOp(dom, M, caps="all")
    ie = ift.InversionEnabler(op, ic, approximation=approx)
    # pass-through modes
    v = cs.gen_vec(rng, n, cplx)
    vf_ = cs.mkfield(dom, v)
    for nm, ref in (("times", A @ v), ("adjoint_times", A.conj().T @ v)):
        got = cs.fvec(getattr(ie, nm)(vf_))
        ck.hit("inversion_enabler_passthrough")
        if cs.nrm(got - ref) > 1e-12 * (cs.nrm(ref) + 1e-300):
            ck.violation(f"inversion-enabler:{nm}:wrong-result", f"InversionEnabler.{nm} differs from A v")
    del log[:]
    rec.begin()
    crashed = None
    try:
        meth = "inverse_times" if path == "ie_inv" else "adjoint_inverse_times"
        xf = getattr(ie, meth)(bf)
    except ZeroDivisionError as e:
        crashed = e
    finally:
        events = [e for e in rec.end() if e["t"] == "ctrl" and e["ctrl"] is ic]
    nev = J.run(events)
    if crashed is not None:
        controller_crash(ck, ic, crashed, desc, spec, path, n)
        return
    J.monotone()
    iters = max(0, nev - 1)
    desc["iters"] = iters
    ck.hit("inversion_enabler_solutions")
    want_mode = ie.TIMES if path == "ie_inv" else ie.ADJOINT_TIMES
    bad = sorted(set(m for m in log if m != want_mode))
    if bad or not log:
        ck.violation(f"inversion-enabler:{meth}:wrong-operator-mode",
                     f"during {meth} the wrapped operator was applied in modes {sorted(set(log))}, "
                     f"expected only {want_mode}", modes=sorted(set(log)))
    x = J.vec(xf)
    if events:
        xl = J.vec(events[-1]["energy"].position)
        if not np.array_equal(x, xl):
            # only legitimate if CG left through its own exact-zero-residual exit
            Aeff = A if path == "ie_inv" else A.conj().T
            S = J.normA * max(J.xmax, cs.nrm(x)) + J.normb
            ck.hit("cg_own_exit")
            if events[-1]["status"] != CONT or cs.nrm(Aeff @ x - b) > 1e-9 * S:
                ck.violation(f"inversion-enabler:{meth}:result-not-last-iterate",
                             "the returned field is neither the position of the last energy the "
                             "controller saw nor an exact solution")
        # the solution quality the controller certified: if the (shadow-verified) last decision was
        # criterion-based convergence of a gradient-norm controller, re-check the residual of the
        # *returned* field against that tolerance directly
        if (events[-1]["status"] == CONV and spec["kind"] == "gradnorm" and J.judged_all
                and shadow.it < (spec["limit"] if spec["limit"] is not None else 10 ** 9)
                and spec["level"] == 1):
            Aeff = A if path == "ie_inv" else A.conj().T
            res = cs.nrm(Aeff @ x - b)
            tols = []
            if spec.get("tol_abs") is not None:
                tols.append(spec["tol_abs"])
            if spec.get("tol_rel") is not None:
                tols.append(spec["tol_rel"] * cs.nrm(b))       # start is 0 -> initial gradient = -b
            S = J.normA * J.xmax + J.normb
            ck.hit("inversion_enabler_residual_vs_tolerance")
            if tols and res > max(tols) * (1 + 1e-9) + 1e-9 * S:
                ck.violation(f"inversion-enabler:{meth}:residual-above-tolerance",
                             "returned solution does not meet the controller tolerance",
                             residual=res, tol=max(tols))
    ck.note(desc, nontrivial=(n >= 3 and iters >= 2), klass=f"{path}:{spec['kind']}")
