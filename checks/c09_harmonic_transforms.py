"""C09 -- Harmonic transforms follow the volume convention and all backends agree.

Observed: dense matrices (by basis probing) of FFTOperator, HartleyOperator,
HarmonicTransformOperator, SHTOperator and HarmonicSmoothingOperator in every
advertised mode, on sub-spaces of product domains; and the raw outputs of the
ducc / SciPy / JAX transform back-ends on the same arrays under both Hartley
conventions (switched through nifty.config.update and always restored).

Oracle: explicit DFT matrices exp(-2 pi i k x / n) (Kronecker products), cas
kernels derived from them, spherical harmonics from scipy.special.sph_harm_y at
independently computed pixel centres, Gaussian kernel exp(-2 pi^2 k^2 sigma^2)
on closed-form k-lengths.  No FFT library is used by the oracle.
"""
import numpy as np

from vf import domains_ref as R

META = dict(
    id="C09", level="exploration",
    title="Harmonic transforms follow the volume convention and all backends agree",
    technique="dense probing of transform operators vs explicit DFT / spherical-harmonic matrices; "
              "3-way back-end comparison under both Hartley conventions",
    rule=("case i -> family i%8 in {FFT, HARTLEY, BACKEND, SHT, FFT, HARTLEY, BACKEND, SMOOTH}; the "
          "Hartley convention of a case is (i//8)%2 (canonical / non-canonical). FFT/HARTLEY: RG grid 1-3-D, "
          "1..8 pixels/axis (<=32 pixels), default/random distances, position or harmonic as operator "
          "domain, default or explicitly written codomain, embedded as sub-space 0..2 of a product "
          "domain with 0-2 small extra factors; all four modes probed densely with complex basis "
          "vectors + one real and one complex random vector + zero-mode = integral. HARTLEY family "
          "also covers HarmonicTransformOperator on RG. BACKEND: arrays of 1-4 axes, transform over any "
          "subset of axes, ducc vs SciPy vs JAX (quick tier: JAX in half of these cases) for hartley "
          "(real input) and ducc vs SciPy for "
          "fftn/ifftn (real and complex input), each against the explicit DFT. SHT: LMSpace lmax<=6, "
          "mmax<=lmax to GLSpace (default / custom nlat,nlon) or HPSpace nside 1-2, as SHTOperator or "
          "HarmonicTransformOperator, optionally inside a product domain. SMOOTH: "
          "HarmonicSmoothingOperator with sigma in {0, 0.2, 1, 3}*pixel distance or the extent, and "
          "create_harmonic_smoothing_operator on RG/LM. non-trivial: >=2-D grid, or sub-space of a "
          "product domain, or non-default distances, or canonical convention; distinct = descriptor"),
    assumptions=["raw hartley back-ends are compared on real input only (the operators transform complex "
                 "input part-wise)",
                 "SHT normalisation as documented in docs/source/user/nifty_cl_volume.rst: HEALPix "
                 "(orthonormal Y_lm, Condon-Shortley phase) convention divided by sqrt(4 pi) per "
                 "transform, real coefficient layout (a_l0; sqrt2 Re a_lm, sqrt2 Im a_lm)",
                 "CPU only; float64/complex128 only"],
    need=["fft_modes", "hartley_modes", "zero_mode_integrals", "backend_hartley_3way", "backend_hartley_jax",
          "backend_fft_2way",
          "sht_matrices", "smoothing_matrices", "canonical_cases", "noncanonical_cases",
          "subspace_transforms"],
    quick=dict(cases=640, workers=8, budget_s=80),
    thorough=dict(cases=16000, workers=16, budget_s=700),
    design_ref="DESIGN.md §5 C09",
    level_text=("generated grids / product domains / conventions, every mode probed densely against an "
                "explicit-matrix oracle; exploration"),
    level_note=("trusts numpy's exp/kron/linalg.inv and scipy.special.sph_harm_y; back-end agreement is "
                "judged at 1e-12 norm-wise, operator matrices at 1e-9"),
)

FAMS = ["FFT", "HARTLEY", "BACKEND", "SHT", "FFT", "HARTLEY", "BACKEND", "SMOOTH"]
CONV = ["canonical_hartley", "non_canonical_hartley"]


def init(ck):
    import nifty.cl as ift
    import nifty.config as ncfg
    from nifty.cl import ducc_dispatch as dd
    ck.state.update(ift=ift, cfg=ncfg, dd=dd)
    ck.state["default_conv"] = ncfg._config["hartley_convention"]


def jax_hartley(ck):
    if "jh" not in ck.state:
        import jax
        jax.config.update("jax_enable_x64", True)
        from nifty.re.correlated_field import hartley
        ck.state["jh"] = hartley
    return ck.state["jh"]


def hartley_matrix(shape, conv):
    F = R.dft_matrix(shape)
    return F.real - F.imag if conv == "canonical_hartley" else F.real + F.imag


def gen_product(rng, rgdesc, ift, maxtot=48):
    """embed the RG space as sub-space `space` of a product domain with small extra factors"""
    nrg = int(np.prod(rgdesc["shape"]))
    nextra = int(rng.integers(0, 3))
    ds = [rgdesc]
    space = 0
    for _ in range(nextra):
        if rng.integers(0, 2):
            e = dict(t="U", shape=[int(rng.integers(1, 4))])
        else:
            e = dict(t="RG", shape=[int(rng.integers(1, 4))], dist=None, harmonic=bool(rng.integers(0, 2)))
        tot = int(np.prod([R.desc_size(d) for d in ds + [e]]))
        if tot > maxtot:
            break
        if rng.integers(0, 2):
            ds.insert(0, e)
            space += 1
        else:
            ds.append(e)
    return ds, space


def big_matrix(M, ds, space):
    shape = R.tuple_shape(ds)
    axes = R.tuple_axes(ds)[space]
    return R.embed_axes(M, shape, axes)


def probe(op, mode, cplx):
    from vf.dense import dense_op
    return dense_op(op, mode, cplx_in=cplx, cplx_out=cplx)


def cmp_mat(ck, got, exp, key, what, rtol=1e-9, **w):
    if got.shape != exp.shape or not R.close(got, exp, rtol=rtol):
        ck.violation(key, what, dev=R.dev(got, exp), scale=float(np.max(np.abs(exp), initial=0.)), **w)
        return False
    return True


def build_target(rng, ift, rgdesc, dom_rg):
    """None, the default codomain object, or the codomain written out explicitly"""
    c = int(rng.integers(0, 3))
    if c == 0:
        return None, "default"
    if c == 1:
        return dom_rg.get_default_codomain(), "get_default_codomain"
    cd = R.rg_codomain_distances(rgdesc)
    return ift.RGSpace(tuple(rgdesc["shape"]), distances=tuple(cd), harmonic=not rgdesc["harmonic"]), "explicit"


MODES = [("TIMES", 1), ("ADJOINT_TIMES", 2), ("INVERSE_TIMES", 4), ("ADJOINT_INVERSE_TIMES", 8)]


# ------------------------------------------------------------ FFT / Hartley ---
def op_case(ck, rng, fam, conv):
    ift = ck.state["ift"]
    from vf.dense import cmat_to_real, real_embed, to_vec, from_vec
    rgdesc = R.gen_rg_desc(rng, maxdim=3, maxn=8, minn=1, maxsize=32)
    ds, space = gen_product(rng, rgdesc, ift)
    dom = R.build_tuple(ds, int(rng.integers(0, 12)))
    tgt, tgtkind = build_target(rng, ift, rgdesc, dom[space])
    sp_arg = None if len(ds) == 1 and rng.integers(0, 2) else space
    shape_rg = tuple(rgdesc["shape"])
    N = int(np.prod(shape_rg))
    Vdom = float(np.prod(R.rg_distances(rgdesc)))
    cls = fam
    if fam == "FFT":
        op = ift.FFTOperator(dom, tgt, sp_arg)
        F = R.dft_matrix(shape_rg)
        M = Vdom * (np.conjugate(F) if rgdesc["harmonic"] else F)
    else:
        if rgdesc["harmonic"] and rng.integers(0, 3) == 0:
            op = ift.HarmonicTransformOperator(dom, tgt, sp_arg)
            cls = "HarmonicTransform"
        else:
            op = ift.HartleyOperator(dom, tgt, sp_arg)
        M = Vdom * hartley_matrix(shape_rg, conv)
    # expected target domain
    cd = R.rg_codomain_distances(rgdesc)
    tsp = op.target[space]
    ok = isinstance(tsp, ift.RGSpace) and tsp.harmonic == (not rgdesc["harmonic"]) and \
        tsp.shape == shape_rg and R.close(tsp.distances, cd, rtol=1e-10) and \
        all(op.target[j] is not None and op.target[j] == dom[j] for j in range(len(ds)) if j != space) and \
        op.domain is dom
    if not ok:
        ck.violation(f"{cls}:target-domain", "operator target is not the partner grid with distances 1/(n d) "
                     "(other sub-domains unchanged)", got=str(op.target), rg=rgdesc, space=space)
        return None
    Mb = big_matrix(M, ds, space)
    Minv = np.linalg.inv(M)
    mats = {1: Mb, 2: np.conjugate(Mb).T, 4: big_matrix(Minv, ds, space),
            8: np.conjugate(big_matrix(Minv, ds, space)).T}
    modes = MODES if cls != "HarmonicTransform" else MODES[:2]
    if cls == "HarmonicTransform":
        for nm, m in MODES[2:]:
            try:
                op.apply(ift.full(op._dom(m), 1.), m)
                ck.violation("HarmonicTransform:unadvertised-mode", "HarmonicTransformOperator applies an "
                             "inverse mode it does not advertise", mode=nm)
            except (NotImplementedError, ValueError):
                pass
    if op.capability != sum(m for _, m in modes):
        ck.violation(f"{cls}:capability", "capability differs from the documented modes", got=op.capability)
    w = dict(rg=rgdesc, space=space, ds=[d["t"] for d in ds], target=tgtkind, conv=conv if fam != "FFT" else None)
    for nm, m in modes:
        got = probe(op, m, True)
        exp = cmat_to_real(mats[m]) if fam == "FFT" else real_embed(mats[m].real)
        ck.hit("fft_modes" if fam == "FFT" else "hartley_modes")
        cmp_mat(ck, got, exp, f"{cls}:{nm}", f"{cls} {nm} differs from the explicit "
                f"{'DFT' if fam == 'FFT' else 'cas'} matrix with the documented volume factor", **w)
        # result domain identity and real-input path
        din, dout = op._dom(m), op._tgt(m)
        xr = rng.standard_normal(din.shape)
        fr = ift.makeField(din, xr.copy())
        yr = op.apply(fr, m)
        expv = (mats[m] @ xr.reshape(-1)).reshape(dout.shape)
        good = yr.domain is dout
        if fam == "FFT":
            good &= R.close(yr.asnumpy(), expv, rtol=1e-9) and np.iscomplexobj(yr.asnumpy())
        else:
            good &= R.close(yr.asnumpy(), expv.real, rtol=1e-9) and not np.iscomplexobj(yr.asnumpy())
        if not good:
            ck.violation(f"{cls}:{nm}:real-input", f"{cls} {nm} on a real field: wrong values, dtype or "
                         "result domain", dev=R.dev(yr.asnumpy(), expv), dtype=str(yr.dtype), **w)
    if len(ds) > 1:
        ck.hit("subspace_transforms")
    # zero mode of TIMES(x) = integral of x over the transformed space
    din = op.domain
    x = rng.standard_normal(din.shape) + (1j * rng.standard_normal(din.shape) if fam == "FFT" else 0)
    fx = ift.makeField(din, x.copy())
    y = op(fx).asnumpy()
    axes = R.tuple_axes(ds)[space]
    idx = [slice(None)] * len(din.shape)
    for a in axes:
        idx[a] = 0
    integ_ref = x.sum(axis=axes) * Vdom
    integ_nifty = fx.integrate(spaces=space).asnumpy()
    ck.hit("zero_mode_integrals")
    if not (R.close(y[tuple(idx)], integ_ref, ref=np.abs(x).sum(axis=axes) * Vdom, rtol=1e-9) and
            R.close(integ_nifty, integ_ref, ref=np.abs(x).sum(axis=axes) * Vdom, rtol=1e-9)):
        ck.violation(f"{cls}:zero-mode", "zero mode of the transform is not the integral of the input field",
                     got=R.small(y[tuple(idx)]), exp=R.small(integ_ref), **w)
    nontriv = len(shape_rg) >= 2 or len(ds) > 1 or rgdesc["dist"] is not None or \
        (fam != "FFT" and conv == "canonical_hartley")
    ck.note(dict(fam=cls, rg=rgdesc, ds=ds, space=space, target=tgtkind, conv=conv), nontrivial=nontriv,
            klass=cls + ("-sub" if len(ds) > 1 else ""))


# ------------------------------------------------------------------ back-ends ---
def dft_axes(a, axes, sign=-1, norm=1.0):
    """explicit DFT over the given axes (matrix product per axis)"""
    out = np.asarray(a, dtype=complex)
    for ax in axes:
        n = out.shape[ax]
        k = np.arange(n)
        F1 = np.exp(sign * 2j * np.pi * np.outer(k, k) / n)
        out = np.moveaxis(np.tensordot(F1, out, axes=([1], [ax])), 0, ax)
    return out * norm


def backend_case(ck, rng, conv, with_jax=True):
    ift, dd = ck.state["ift"], ck.state["dd"]
    nd = int(rng.integers(1, 5))
    for _ in range(50):
        shape = tuple(int(x) for x in rng.integers(1, 9, nd))
        if np.prod(shape) <= 600:
            break
    else:
        shape = (4,) * nd
    c = int(rng.integers(0, 3))
    if c == 0:
        axes = None
        axl = tuple(range(nd))
    else:
        k = int(rng.integers(1, nd + 1))
        axl = tuple(int(x) for x in rng.permutation(nd)[:k])
        if c == 1:
            axl = tuple(sorted(axl))
        axes = axl
    x = rng.standard_normal(shape)
    z = x + 1j * rng.standard_normal(shape)
    Fx = dft_axes(x, axl)
    want = Fx.real - Fx.imag if conv == "canonical_hartley" else Fx.real + Fx.imag
    res = {}
    res["ducc"] = dd.hartley(ift.AnyArray(x.copy()), axes=axes).val
    res["scipy"] = dd._scipy_hartley(ift.AnyArray(x.copy()), axes=axes).val
    if with_jax:
        res["jax"] = np.asarray(jax_hartley(ck)(x.copy(), axes=axes))
        ck.hit("backend_hartley_jax")
    w = dict(shape=shape, axes=axes, conv=conv)
    for nm, v in res.items():
        ck.hit("backend_hartley_3way")
        if v.shape != want.shape or np.iscomplexobj(v) or v.dtype != np.float64 or \
                not R.close(v, want, rtol=1e-12):
            ck.violation(f"backend:hartley:{nm}", f"{nm} Hartley transform differs from Re{'-' if conv == 'canonical_hartley' else '+'}Im "
                         f"of the explicit DFT under the {conv} convention", dev=R.dev(v, want),
                         dtype=str(v.dtype), **w)
    for a, b in (("ducc", "scipy"), ("ducc", "jax"), ("scipy", "jax")):
        if a not in res or b not in res:
            continue
        if res[a].shape == res[b].shape and not R.close(res[a], res[b], rtol=1e-12):
            ck.violation(f"backend:hartley:{a}-vs-{b}", f"{a} and {b} Hartley transforms disagree",
                         dev=R.dev(res[a], res[b]), **w)
    ntot = int(np.prod([shape[a] for a in axl]))
    for inp, tag in ((x, "real"), (z, "complex")):
        fw = dft_axes(inp, axl)
        bw = dft_axes(inp, axl, sign=+1, norm=1.0 / ntot)
        for fname, want2 in (("fftn", fw), ("ifftn", bw)):
            outs = {}
            outs["ducc"] = getattr(dd, fname)(ift.AnyArray(inp.copy()), axes=axes).val
            outs["scipy"] = getattr(dd, "_scipy_" + fname)(ift.AnyArray(inp.copy()), axes=axes).val
            for nm, v in outs.items():
                ck.hit("backend_fft_2way")
                if v.shape != want2.shape or not R.close(v, want2, rtol=1e-12):
                    ck.violation(f"backend:{fname}:{nm}", f"{nm} {fname} differs from the explicit DFT "
                                 f"({'forward, unnormalised' if fname == 'fftn' else 'backward, 1/N'})",
                                 dev=R.dev(v, want2), input=tag, **w)
    ck.note(dict(fam="BACKEND", shape=shape, axes=axes, conv=conv),
            nontrivial=(nd >= 2 or conv == "canonical_hartley"), klass="BACKEND")


# ------------------------------------------------------------------------ SHT ---
def sht_case(ck, rng):
    ift = ck.state["ift"]
    lmax = int(rng.integers(0, 7))
    mmax = int(rng.integers(0, lmax + 1)) if rng.integers(0, 2) else None
    mm = lmax if mmax is None else mmax
    lm = ift.LMSpace(lmax, mmax)
    c = int(rng.integers(0, 4))
    if c == 0:
        tgt, tdesc = None, dict(t="GL", nlat=lmax + 1, nlon=2 * mm + 1, how="default")
        theta, phi = R.gl_angles(lmax + 1, 2 * mm + 1)
    elif c in (1, 2):
        nlat = int(rng.integers(1, 9))
        nlon = int(rng.integers(1, 13)) if rng.integers(0, 2) else None
        tgt = ift.GLSpace(nlat, nlon)
        nl = nlon if nlon is not None else 2 * nlat - 1
        tdesc = dict(t="GL", nlat=nlat, nlon=nl, how="custom")
        theta, phi = R.gl_angles(nlat, nl)
    else:
        nside = int(rng.integers(1, 3))
        tgt = ift.HPSpace(nside)
        tdesc = dict(t="HP", nside=nside)
        theta, phi = R.hp_angles(nside)
    extra = int(rng.integers(0, 3))       # 0: none, 1: before, 2: after
    ne = int(rng.integers(1, 3))
    if extra == 0:
        dom, space = ift.DomainTuple.make(lm), 0
    elif extra == 1:
        dom, space = ift.DomainTuple.make((ift.UnstructuredDomain(ne), lm)), 1
    else:
        dom, space = ift.DomainTuple.make((lm, ift.RGSpace(ne))), 0
    sp_arg = None if extra == 0 and rng.integers(0, 2) else space
    cls = "SHTOperator" if rng.integers(0, 2) else "HarmonicTransformOperator"
    op = getattr(ift, cls)(dom, tgt, sp_arg)
    T = R.sht_matrix(lmax, mm, theta, phi)
    tsp = op.target[space]
    if tsp.size != T.shape[0] or (tgt is not None and tsp != tgt) or dom[space].size != T.shape[1]:
        ck.violation("sht:target-domain", "SHT target / domain sizes differ from the description",
                     got=str(op.target), tdesc=tdesc, lmax=lmax, mmax=mmax)
        return
    pre = ne if extra == 1 else 1
    post = ne if extra == 2 else 1
    Tb = np.kron(np.kron(np.eye(pre), T), np.eye(post))
    w = dict(lmax=lmax, mmax=mmax, tdesc=tdesc, extra=extra, cls=cls)
    got = probe(op, op.TIMES, False)
    ck.hit("sht_matrices", 2)
    cmp_mat(ck, got, Tb, "sht:TIMES", "synthesis of unit a_lm is not the documented real spherical "
            "harmonic (orthonormal Y_lm / sqrt(4 pi)) at the pixel centres", **w)
    gota = probe(op, op.ADJOINT_TIMES, False)
    cmp_mat(ck, gota, Tb.T, "sht:ADJOINT_TIMES", "SHT adjoint is not the transpose of the synthesis matrix", **w)
    if op.capability != (op.TIMES | op.ADJOINT_TIMES):
        ck.violation("sht:capability", "SHT advertises modes other than TIMES/ADJOINT_TIMES", got=op.capability)
    # complex input is transformed part-wise
    z = rng.standard_normal(dom.shape) + 1j * rng.standard_normal(dom.shape)
    y = op(ift.makeField(dom, z.copy()))
    expz = (Tb @ z.reshape(-1)).reshape(op.target.shape)
    if y.domain is not op.target or not R.close(y.asnumpy(), expz, rtol=1e-9):
        ck.violation("sht:complex-input", "SHT of a complex field is not the part-wise transform",
                     dev=R.dev(y.asnumpy(), expz), **w)
    # quadrature exactness on a sufficient Gauss-Legendre grid: T^t W T = 1/(4 pi)
    if tdesc["t"] == "GL" and tdesc["nlat"] >= lmax + 1 and tdesc["nlon"] >= 2 * mm + 1:
        wq = R.gl_dvol(tdesc["nlat"], tdesc["nlon"])
        G = got.T @ np.kron(np.kron(np.eye(pre), np.diag(wq)), np.eye(post)) @ got
        ck.hit("sht_quadrature")
        cmp_mat(ck, G * 4 * np.pi, np.eye(G.shape[0]), "sht:gl-quadrature", "adjoint(weight(times(a))) is not "
                "a/(4 pi) for band-limited input on a sufficient Gauss-Legendre grid", **w)
    ck.note(dict(fam="SHT", **w), nontrivial=True, klass="SHT-" + tdesc["t"])


# --------------------------------------------------------------------- smoothing ---
def smooth_case(ck, rng):
    ift = ck.state["ift"]
    if rng.integers(0, 4) == 0:
        # sugar.create_harmonic_smoothing_operator: diagonal kernel on a harmonic space
        hdesc = R.gen_harmonic_desc(rng, maxdim=2, maxn=6, maxl=4, maxsize=30)
        hd = R.build(hdesc, 0)
        sig = float([0.0, 0.3, 1.0, 2.5][int(rng.integers(0, 4))])
        dom = ift.DomainTuple.make((ift.UnstructuredDomain(2), hd))
        op = ift.create_harmonic_smoothing_operator(dom, 1, sig)
        k = R.klengths_of(hdesc).reshape(-1)
        kern = np.exp(-2 * np.pi ** 2 * k ** 2 * sig ** 2) if hdesc["t"] == "RG" else \
            np.exp(-0.5 * k * (k + 1) * sig ** 2)
        got = probe(op, op.TIMES, False)
        ck.hit("smoothing_matrices")
        cmp_mat(ck, got, np.kron(np.eye(2), np.diag(kern)), "smooth:harmonic-kernel",
                "create_harmonic_smoothing_operator is not the diagonal Gaussian kernel on the k-lengths",
                hdesc=hdesc, sigma=sig)
        ck.note(dict(fam="SMOOTH-K", hdesc=hdesc, sigma=sig), nontrivial=True, klass="SMOOTH-K")
        return
    rgdesc = R.gen_rg_desc(rng, maxdim=3, maxn=7, minn=1, maxsize=40, harmonic=False)
    ds, space = gen_product(rng, rgdesc, ift, maxtot=60)
    dom = R.build_tuple(ds, int(rng.integers(0, 12)))
    dist = R.rg_distances(rgdesc)
    ext = [n * d for n, d in zip(rgdesc["shape"], dist)]
    sc = int(rng.integers(0, 5))
    sig = [0.0, 0.2 * min(dist), 1.0 * max(dist), 3.0 * np.mean(dist), max(ext)][sc]
    sig = float(sig)
    sp_arg = None if len(ds) == 1 and rng.integers(0, 2) else space
    op = ift.HarmonicSmoothingOperator(dom, sig, sp_arg)
    shape_rg = tuple(rgdesc["shape"])
    k = R.rg_klengths(shape_rg, R.rg_codomain_distances(rgdesc)).reshape(-1)
    kern = np.exp(-2 * np.pi ** 2 * k ** 2 * sig ** 2)
    F = R.dft_matrix(shape_rg)
    S = np.linalg.inv(F) @ np.diag(kern) @ F
    if np.max(np.abs(S.imag)) > 1e-12:
        raise AssertionError("oracle: smoothing matrix not real")
    S = S.real
    Sb = big_matrix(S, ds, space)
    w = dict(rg=rgdesc, sigma=sig, sigma_class=sc, space=space, ds=[d["t"] for d in ds])
    if op.domain is not dom or op.target is not dom:
        ck.violation("smooth:domain", "smoothing operator is not an endomorphism of the given domain", **w)
        return
    got = probe(op, op.TIMES, False)
    ck.hit("smoothing_matrices")
    if sig == 0.:
        cmp_mat(ck, got, np.eye(got.shape[0]), "smooth:sigma0", "smoothing with sigma=0 is not the identity", **w)
    else:
        cmp_mat(ck, got, Sb, "smooth:TIMES", "HarmonicSmoothingOperator is not the convolution with the "
                "documented Gaussian exp(-2 pi^2 k^2 sigma^2)", **w)
        # a Gaussian convolution preserves integrals and constants
        one = op(ift.full(dom, 1.)).asnumpy()
        if not R.close(one, np.ones(dom.shape), rtol=1e-9):
            ck.violation("smooth:constant", "smoothing changes a constant field", dev=R.dev(one, 1.), **w)
    if len(ds) > 1:
        ck.hit("subspace_transforms")
    ck.note(dict(fam="SMOOTH", **w), nontrivial=True, klass="SMOOTH")


def case(ck, i):
    rng = ck.rng()
    # family = i % 8: with 8 (or 16) workers only the BACKEND workers pay for importing JAX
    fam = FAMS[i % len(FAMS)]
    conv = CONV[(i // len(FAMS)) % 2]
    cfg = ck.state["cfg"]
    import warnings
    cfg.update("hartley_convention", conv)
    try:
        if cfg._config["hartley_convention"] != conv:
            ck.violation("config:update", "nifty.config.update did not set the hartley convention")
        ck.hit("canonical_cases" if conv == "canonical_hartley" else "noncanonical_cases")
        with warnings.catch_warnings():
            warnings.simplefilter("ignore")
            if fam in ("FFT", "HARTLEY"):
                op_case(ck, rng, fam, conv)
            elif fam == "BACKEND":
                # JAX costs an import of ~10-30 s per worker and ~0.1-1 s compilation per new shape:
                # quick tier uses it in every other pair of BACKEND cases (both conventions)
                backend_case(ck, rng, conv, with_jax=ck.thorough() or (i // 8) % 4 < 2)
            elif fam == "SHT":
                sht_case(ck, rng)
            else:
                smooth_case(ck, rng)
    finally:
        cfg.update("hartley_convention", ck.state["default_conv"])
