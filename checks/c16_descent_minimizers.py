"""C16 — Classic descent minimisers are monotone and their line search is sound.

Monitors (attached from the harness to the live classes, vf.clsolve):
  * IterationController.start/check        -> the accepted iterates of every minimiser run,
  * LineSearch.perform_line_search/_zoom   -> (energy, pk, f_k_minus_1) -> (new energy, success),
  * DescentMinimizer.get_descent_direction / reset -> directions and history resets.

Oracle: an independently written NumPy mirror of every generated energy (value and analytic
gradient on the flat parameter vector; the analytic gradients are verified against central finite
differences of the value formulas at worker start) evaluates phi(0), phi'(0), phi(alpha), phi'(alpha) for
the strong Wolfe conditions and the monotonicity of accepted steps; a dense BFGS inverse-Hessian
recursion (NumPy) and the respective other class give the reference direction for L_BFGS /
VL_BFGS from the same (position, gradient) history.
"""
import numpy as np

from vf import clsolve as cs

META = dict(
    id="C16", level="exploration",
    title="Classic descent minimisers are monotone and their line search is sound",
    technique=("wrapped controller / LineSearch / get_descent_direction event traces of real minimiser "
               "runs, judged with an independent NumPy mirror of the energy (closed-form gradients, self-tested "
               "against finite differences) and a dense BFGS recursion"),
    rule=("case = generated smooth energy E(x) = F(Bx + c) + mu/2 |x|^2 on 1-8 parameters (Field or "
          "2-key MultiField position; F in {convex quadratic, least squares through tanh / sin / exp / "
          "cubic, cyclic Rosenbrock, double-well quartic, trigonometric + quadratic, log-sum-exp}) built "
          "from NIFTy operators behind EnergyAdapter, x minimiser (SteepestDescent, RelaxedNewton, "
          "NewtonCG, L_BFGS, VL_BFGS, NonlinearCG x 4 beta rules) x line-search parameters (c1 in "
          "[1e-6, 0.3], c2 in (c1, 0.99], max_step_size, preferred initial step, iteration caps) x "
          "controller, <= 30 iterations; plus direct perform_line_search calls along perturbed descent "
          "directions of random length and synthetic (position, gradient) histories for the L-BFGS twins. "
          "non-trivial: >= 3 accepted steps and >= 1 line search that entered _zoom; distinct = descriptor"),
    assumptions=["NonlinearCG is included although it is not a DescentMinimizer subclass (its line search "
                 "parameters are fixed by the class)",
                 "RelaxedNewton needs an invertible metric: a harness subclass of EnergyAdapter wraps the "
                 "library metric in InversionEnabler (tight controller)",
                 "Wolfe inequalities are judged with slack 1e-10 x (sum of magnitudes of the energy's terms) "
                 "resp. 1e-10 x (magnitudes of the gradient's additive parts) |pk|: the library compares its own "
                 "floats, the mirror's differ by rounding; if |phi'(0)| is below that slack the line search is "
                 "not judged (flat direction)",
                 "NewtonCG raising ValueError('Cannot find descent direction') is a violation unless the gradient "
                 "at the failing iterate is below 1e-12 of its rounding scale or below 1e-30 of the energy's magnitude "
                 "(numerically flat point, curvature underflows -> skipped)",
                 "L-BFGS direction comparisons use the relative tolerance 1e-9 + 10 x (change of the dense "
                 "reference under a 1e-13 relative perturbation of the history) and are skipped if that "
                 "exceeds 1e-5 or a used pair has non-positive curvature"],
    need=["accepted_step_checks", "line_searches_seen", "wolfe_checks", "zoom_line_searches",
          "lbfgs_direction_vs_dense", "lbfgs_twin_comparisons", "status_checks"],
    quick=dict(cases=600, workers=6, budget_s=80),
    thorough=dict(cases=16000, workers=16, budget_s=700),
    design_ref="DESIGN.md §5 C16",
    level_text=("generated energies x minimisers x line-search parameters; every accepted step, every line "
                "search result and every (V)L-BFGS direction of the real code is re-judged independently; "
                "exploration, not exhaustive"),
    level_note=("trusts numpy and the hand-derived mirror gradients (self-tested by finite differences); energies are smooth with bounded terms; <= 8 parameters, "
                "<= 30 iterations per run; napprox > 1 (random probing preconditioner) of NewtonCG not covered"),
    max_skip_fraction=0.5,
)

CONV, CONT, ERR = cs.CONVERGED, cs.CONTINUE, cs.ERROR
FAMS = ["quad", "lsq_tanh", "lsq_sin", "lsq_exp", "lsq_cubic", "rosen", "quartic", "trig", "lse"]
HAS_METRIC = {"quad", "lsq_tanh", "lsq_sin", "lsq_exp", "lsq_cubic", "rosen", "quartic"}


def init(ck):
    import nifty.cl as ift
    ck.state.update(ift=ift)
    rec = cs.Recorder()
    cs.attach_controller_monitor(rec)
    cs.attach_linesearch_monitor(rec)
    cs.attach_direction_monitor(rec)
    ck.state["rec"] = rec
    ck.state["DenseLin"] = cs.dense_lin_class()
    import logging
    try:
        ift.logger.setLevel(logging.CRITICAL)
    except Exception:
        pass

    class InvEnergyAdapter(ift.EnergyAdapter):
        """EnergyAdapter whose metric supports inverse_times (needed by RelaxedNewton)"""
        @property
        def metric(self):
            ic = ift.GradientNormController(tol_rel_gradnorm=1e-12, iteration_limit=200)
            return ift.InversionEnabler(self._metric, ic)

        def at(self, position):
            return InvEnergyAdapter(position, self._op, want_metric=self._want_metric,
                                    nanisinf=self._nanisinf)
    ck.state["InvEnergyAdapter"] = InvEnergyAdapter
    selftest_gradients(ck)


# ------------------------------------------------------------------- energies ---
def gen_energy(ck, rng):
    """returns dict(op=NIFTy energy operator, dom, mirror terms function, desc, has_metric)"""
    ift = ck.state["ift"]
    DenseLin = ck.state["DenseLin"]
    fam = FAMS[int(rng.integers(0, len(FAMS)))]
    multi = bool(rng.integers(0, 3) == 0)
    if multi:
        m = int(rng.integers(1, 5))
        P = 2 * m
    else:
        P = int(rng.integers(1, 9))
        m = P
    if fam == "rosen" and m < 2:
        fam = "lsq_tanh"

    def wellcond(k):
        U = cs.rand_unitary(rng, k, False)
        V = cs.rand_unitary(rng, k, False)
        s = np.exp(rng.uniform(-0.7, 0.7, k))
        return (U * s) @ V.T
    udom = ift.DomainTuple.make(ift.UnstructuredDomain(m))
    if multi:
        A1, A2 = wellcond(m), wellcond(m) * float(rng.uniform(0.3, 1.0))
        B = np.hstack([A1, A2])
        xdom = ift.MultiDomain.make({"a": udom, "b": udom})
        lin = DenseLin(udom, udom, A1).ducktape("a") + DenseLin(udom, udom, A2).ducktape("b")
    else:
        B = wellcond(m)
        xdom = udom if rng.integers(0, 2) else ift.DomainTuple.make(ift.RGSpace(m, distances=0.5))
        lin = DenseLin(xdom, udom, B)
    c = np.round(rng.standard_normal(m) * 0.5, 3)
    u = ift.Adder(ift.makeField(udom, c)) @ lin
    d = np.round(rng.standard_normal(m), 3)
    a = np.round(rng.uniform(0.3, 1.5, m), 3)
    q = float(np.round(rng.uniform(0.2, 1.0), 3))
    mu = float(rng.choice([0.0, 0.3, 1.0])) if not multi else float(rng.choice([0.3, 1.0]))
    if fam in ("trig", "lse") and mu == 0.0:
        mu = 0.3
    dF = ift.makeField(udom, d)
    aF = ift.makeField(udom, a)
    G = ift.GaussianEnergy
    if fam == "quad":
        lh = G(data=dF) @ u
    elif fam == "lsq_tanh":
        lh = G(data=dF) @ u.ptw("tanh")
    elif fam == "lsq_sin":
        lh = G(data=dF) @ u.ptw("sin")
    elif fam == "lsq_exp":
        lh = G(data=dF) @ (0.5 * u).ptw("exp")
    elif fam == "lsq_cubic":
        lh = G(data=dF) @ (u + 0.3 * u ** 3)
    elif fam == "rosen":
        S = np.roll(np.eye(m), 1, axis=1)            # (S u)_i = u_{i+1 mod m}
        r1 = 3.0 * (DenseLin(udom, udom, S) @ u - u ** 2)
        lh = G(domain=udom) @ r1 + G(data=ift.full(udom, 1.)) @ u
    elif fam == "quartic":
        lh = 0.5 * (G(data=aF) @ (u ** 2))
    elif fam == "trig":
        lh = ift.VdotOperator(aF) @ u.ptw("cos") + (0.5 * q) * (ift.Squared2NormOperator(u.target) @ u)
    elif fam == "lse":
        lh = u.ptw("exp").sum().ptw("log") + (0.5 * q) * (ift.Squared2NormOperator(u.target) @ u)
    has_metric = fam in HAS_METRIC
    how = "none"
    if mu == 1.0 and has_metric:
        op = ift.StandardHamiltonian(lh)
        how = "StandardHamiltonian"
    elif mu > 0:
        op = lh + mu * G(domain=xdom)
        how = "scaled prior"
    else:
        op = lh

    par = dict(fam=fam, B=B, c=c, d=d, a=a, q=q, mu=mu)
    desc = dict(fam=fam, P=P, multi=multi, mu=mu, prior=how, xdom=type(xdom).__name__)
    return dict(op=op, xdom=xdom, par=par, desc=desc, has_metric=has_metric, P=P, fam=fam, mu=mu)


def fam_terms(xp, fam, uu, d, a, q):
    """list of arrays whose total sum is F(u) (xp = numpy)"""
    if fam == "quad":
        return [0.5 * (uu - d) ** 2]
    if fam == "lsq_tanh":
        return [0.5 * (xp.tanh(uu) - d) ** 2]
    if fam == "lsq_sin":
        return [0.5 * (xp.sin(uu) - d) ** 2]
    if fam == "lsq_exp":
        return [0.5 * (xp.exp(0.5 * uu) - d) ** 2]
    if fam == "lsq_cubic":
        return [0.5 * (uu + 0.3 * uu ** 3 - d) ** 2]
    if fam == "rosen":
        return [0.5 * (3.0 * (xp.roll(uu, -1) - uu ** 2)) ** 2, 0.5 * (uu - 1.0) ** 2]
    if fam == "quartic":
        return [0.25 * (uu ** 2 - a) ** 2]
    if fam == "trig":
        return [a * xp.cos(uu), 0.5 * q * uu ** 2]
    if fam == "lse":
        mx = xp.max(uu)
        return [xp.reshape(mx + xp.log(xp.sum(xp.exp(uu - mx))), (1,)), 0.5 * q * uu ** 2]
    raise ValueError(fam)


def fam_grad(fam, uu, d, a, q):
    """analytic dF/du (NumPy)"""
    if fam == "quad":
        return uu - d
    if fam == "lsq_tanh":
        t = np.tanh(uu)
        return (t - d) * (1 - t ** 2)
    if fam == "lsq_sin":
        return (np.sin(uu) - d) * np.cos(uu)
    if fam == "lsq_exp":
        e = np.exp(0.5 * uu)
        return (e - d) * 0.5 * e
    if fam == "lsq_cubic":
        return (uu + 0.3 * uu ** 3 - d) * (1 + 0.9 * uu ** 2)
    if fam == "rosen":
        r1 = 3.0 * (np.roll(uu, -1) - uu ** 2)
        return 3.0 * np.roll(r1, 1) - 6.0 * uu * r1 + (uu - 1.0)
    if fam == "quartic":
        return (uu ** 2 - a) * uu
    if fam == "trig":
        return -a * np.sin(uu) + q * uu
    if fam == "lse":
        e = np.exp(uu - np.max(uu))
        return e / np.sum(e) + q * uu
    raise ValueError(fam)


def fam_grad_mag(fam, uu, d, a, q):
    """sum of magnitudes of the additive parts of dF/du (rounding scale of the gradient)"""
    au, ad = np.abs(uu), np.abs(d)
    if fam == "quad":
        return au + ad
    if fam == "lsq_tanh":
        t = np.tanh(uu)
        return (np.abs(t) + ad) * np.abs(1 - t ** 2)
    if fam == "lsq_sin":
        return (np.abs(np.sin(uu)) + ad) * np.abs(np.cos(uu))
    if fam == "lsq_exp":
        e = np.exp(0.5 * uu)
        return (e + ad) * 0.5 * e
    if fam == "lsq_cubic":
        return (au + 0.3 * au ** 3 + ad) * (1 + 0.9 * uu ** 2)
    if fam == "rosen":
        r1 = 3.0 * (np.roll(au, -1) + uu ** 2)
        return 3.0 * np.roll(r1, 1) + 6.0 * au * r1 + au + 1.0
    if fam == "quartic":
        return (uu ** 2 + a) * au
    if fam == "trig":
        return np.abs(a * np.sin(uu)) + q * au
    if fam == "lse":
        e = np.exp(uu - np.max(uu))
        return e / np.sum(e) + q * au
    raise ValueError(fam)


def selftest_gradients(ck):
    """analytic gradients == central finite differences of fam_terms (once per worker)"""
    rng = np.random.default_rng(12345)
    for fam in FAMS:
        for m in (2, 5):
            u = rng.standard_normal(m)
            d, a, q = rng.standard_normal(m), rng.uniform(0.3, 1.5, m), 0.7
            f = lambda uu: sum(np.sum(t) for t in fam_terms(np, fam, uu, d, a, q))
            h = 1e-6
            gn = np.array([(f(u + h * e) - f(u - h * e)) / (2 * h) for e in np.eye(m)])
            ga = fam_grad(fam, u, d, a, q)
            if not np.allclose(gn, ga, rtol=1e-6, atol=1e-7):
                raise AssertionError(f"harness self-test: analytic gradient of family {fam} is wrong")


class Mirror:
    """independent NumPy evaluation of E(x) = F(Bx + c) + mu/2 |x|^2: value, gradient, magnitude"""

    def __init__(self, ck, par):
        self.p = par
        self.cache = {}
        self.gmag = {}

    def grad_scale(self, x):
        """norm of the sum of magnitudes of the gradient's additive parts at x"""
        self(x)
        return self.gmag[x.tobytes()]

    def __call__(self, x):
        key = x.tobytes()
        if key not in self.cache:
            p = self.p
            uu = p["B"] @ x + p["c"]
            ts = fam_terms(np, p["fam"], uu, p["d"], p["a"], p["q"]) + [0.5 * p["mu"] * x ** 2]
            v = float(sum(np.sum(t) for t in ts))
            mag = float(sum(np.sum(np.abs(t)) for t in ts))
            g = p["B"].T @ fam_grad(p["fam"], uu, p["d"], p["a"], p["q"]) + p["mu"] * x
            gm = np.abs(p["B"]).T @ fam_grad_mag(p["fam"], uu, p["d"], p["a"], p["q"]) + p["mu"] * np.abs(x)
            self.gmag[key] = cs.nrm(gm)
            self.cache[key] = (v, g, mag)
        return self.cache[key]


# ----------------------------------------------------------------- generators ---
def gen_linesearch(ift, rng):
    c1 = float(10.0 ** rng.uniform(-6, np.log10(0.3)))
    c2 = float(rng.uniform(c1, 0.99))
    if c2 <= c1:
        c2 = min(0.99, c1 * 1.5)
    mss = float(rng.choice([1e30, 1e30, 10.0, 1.0, 0.1]))
    pis = rng.choice([None, None, 1.0, 0.1, 5.0])
    pis = None if pis is None else float(pis)
    mi = int(rng.choice([100, 100, 5]))
    mz = int(rng.choice([100, 100, 3]))
    ls = ift.LineSearch(preferred_initial_step_size=pis, c1=c1, c2=c2, max_step_size=mss,
                        max_iterations=mi, max_zoom_iterations=mz)
    return ls, dict(c1=c1, c2=c2, max_step=mss, pref=pis, maxit=mi, maxzoom=mz)


def gen_controller(ift, rng, g0, E0):
    k = int(rng.integers(0, 4))
    lim = int(rng.integers(4, 31))
    lvl = int(rng.choice([1, 1, 2]))
    if k == 0:
        ic = ift.GradientNormController(tol_abs_gradnorm=float(g0 * 10.0 ** rng.uniform(-8, -1)),
                                        convergence_level=lvl, iteration_limit=lim)
        d = "GradientNorm/abs"
    elif k == 1:
        ic = ift.GradientNormController(tol_rel_gradnorm=float(10.0 ** rng.uniform(-8, -1)),
                                        convergence_level=lvl, iteration_limit=lim)
        d = "GradientNorm/rel"
    elif k == 2:
        ic = ift.DeltaEnergyController(float(10.0 ** rng.uniform(-10, -2)), convergence_level=lvl,
                                       iteration_limit=lim)
        d = "DeltaEnergy"
    else:
        ic = ift.AbsDeltaEnergyController(float((abs(E0) + 1) * 10.0 ** rng.uniform(-10, -2)),
                                          convergence_level=lvl, iteration_limit=lim)
        d = "AbsDeltaEnergy"
    return ic, dict(ctrl=d, limit=lim, level=lvl)


MINIS = ["SteepestDescent", "RelaxedNewton", "NewtonCG", "L_BFGS", "VL_BFGS", "NonlinearCG"]


# -------------------------------------------------------------------- oracles ---
def _bfgs(pairs, g):
    n = g.size
    s, y = pairs[-1]
    H = np.eye(n) * (s @ y) / (y @ y)
    for s, y in pairs:
        rho = 1.0 / (s @ y)
        V = np.eye(n) - rho * np.outer(s, y)
        H = V @ H @ V.T + rho * np.outer(s, s)
    return -H @ g


def dense_bfgs_direction(points, g, m):
    """-H g with H the BFGS inverse Hessian from the last <= m curvature pairs of ``points``
    (list of (x, grad)), H0 = (s.y / y.y) I of the newest pair.  Returns (p, tol): tol is the
    relative comparison tolerance 1e-9 + 10 x (observed change of p under a 1e-13 relative random
    perturbation of the history), i.e. rounding amplified by the conditioning of the recursion;
    tol = inf if a pair has non-positive curvature or the recursion is too ill-conditioned."""
    pairs = []
    for (x0, g0), (x1, g1) in zip(points[:-1], points[1:]):
        pairs.append((x1 - x0, g1 - g0))
    pairs = pairs[-m:] if m > 0 else []
    if not pairs:
        return -g, 1e-12
    for s, y in pairs:
        if not (s @ y > 1e-10 * cs.nrm(s) * cs.nrm(y)) or not np.isfinite(s @ y):
            return -g, float("inf")
    p = _bfgs(pairs, g)
    prng = np.random.default_rng(7)
    pert = [(s * (1 + 1e-13 * prng.standard_normal(s.size)), y * (1 + 1e-13 * prng.standard_normal(y.size)))
            for s, y in pairs]
    p2 = _bfgs(pert, g * (1 + 1e-13 * prng.standard_normal(g.size)))
    sens = cs.nrm(p2 - p) / (cs.nrm(p) + 1e-300)
    tol = 1e-9 + 10.0 * sens
    if not np.all(np.isfinite(p)) or tol > 1e-5:
        tol = float("inf")
    return p, tol


class Judge:
    def __init__(self, ck, mirror, tag):
        self.ck, self.mirror, self.tag = ck, mirror, tag
        self.seen = set()

    def viol(self, key, what, **w):
        if key in self.seen:
            return
        self.seen.add(key)
        self.ck.violation(key, what, **w)

    def energy_vs_mirror(self, energy, where):
        x = cs.fvec(energy.position).astype(np.float64)
        v, g, mag = self.mirror(x)
        self.ck.hit("energy_vs_mirror")
        ev = float(energy.value)
        if np.isfinite(ev) and abs(ev - v) > 1e-9 * (mag + 1e-300):
            self.viol(f"energy-value-vs-mirror:{self.tag}",
                      f"energy.value differs from the independent mirror at its position ({where})",
                      observed=ev, expected=v)
        go = cs.fvec(energy.gradient).astype(np.float64)
        if np.all(np.isfinite(go)) and cs.nrm(go - g) > 1e-8 * (cs.nrm(g) + mag + 1e-300):
            self.viol(f"energy-gradient-vs-mirror:{self.tag}",
                      f"energy.gradient differs from autodiff of the mirror at its position ({where})",
                      dev=cs.nrm(go - g), scale=cs.nrm(g))
        return x, v, g, mag

    def line_search(self, ev, lsdesc):
        """judge one recorded perform_line_search call"""
        ck = self.ck
        ck.hit("line_searches_seen")
        if ev["zoom"]:
            ck.hit("zoom_line_searches")
        if ev["out"] is None:
            return None
        new_energy, success = ev["out"]
        ls = ev["ls"]
        c1, c2, mss = ls.c1, ls.c2, ls.max_step_size
        if success not in (True, False):
            self.viol("linesearch-success-type", f"success flag is {success!r}")
        if not success:
            ck.hit("line_search_failures")
            return False
        x, f0, g0, mag0 = self.energy_vs_mirror(ev["energy"], "line search start")
        p = cs.fvec(ev["pk"]).astype(np.float64)
        xn, fa, ga, maga = self.energy_vs_mirror(new_energy, "line search result")
        pp = float(p @ p)
        dphi0 = float(g0 @ p)
        if pp == 0:
            return True
        alpha = float((xn - x) @ p) / pp
        ck.hit("wolfe_checks")
        if ev["zoom"]:
            ck.hit("wolfe_checks_after_zoom")
        kind = "zoom" if ev["zoom"] else "bracket"
        # the step is along pk
        if cs.nrm(xn - x - alpha * p) > 1e-10 * (cs.nrm(x) + cs.nrm(xn) + abs(alpha) * cs.nrm(p)) + 1e-300:
            self.viol(f"linesearch-step-not-along-pk:{kind}",
                      "successful line search returned a point that is not on the search line")
        if not (alpha > 0):
            self.viol(f"linesearch-nonpositive-step:{kind}", "successful line search with step <= 0",
                      alpha=alpha)
        # rounding scale of directional derivatives: the library's and the mirror's gradients agree up to
        # 1e-10 x (magnitudes of the gradient's additive parts), not relative to the (possibly cancelling)
        # gradient itself
        slack_g = 1e-10 * (self.mirror.grad_scale(x) + self.mirror.grad_scale(xn)) * cs.nrm(p) + 1e-300
        if dphi0 > slack_g:
            self.viol(f"linesearch-success-on-ascent-direction:{kind}",
                      "success although pk is not a descent direction", dphi0=dphi0)
            return True
        if dphi0 >= -slack_g:
            ck.hit("wolfe_ties_flat_direction")      # phi'(0) is rounding noise: inequalities not decidable
            return True
        slack_f = 1e-10 * (mag0 + maga) + 1e-10 * abs(c1 * alpha * dphi0) + 1e-300
        if not (fa <= f0 + c1 * alpha * dphi0 + slack_f):
            self.viol(f"wolfe-sufficient-decrease:{kind}",
                      "line search reported success but phi(alpha) > phi(0) + c1 alpha phi'(0)",
                      alpha=alpha, phi0=f0, phia=fa, dphi0=dphi0, c1=c1,
                      excess=fa - (f0 + c1 * alpha * dphi0), ls=lsdesc)
        dphia = float(ga @ p)
        if not (abs(dphia) <= c2 * abs(dphi0) + slack_g):
            self.viol(f"wolfe-curvature:{kind}",
                      "line search reported success but |phi'(alpha)| > c2 |phi'(0)|",
                      alpha=alpha, dphi0=dphi0, dphia=dphia, c2=c2, ls=lsdesc)
        if alpha > mss * (1 + 1e-12):
            self.viol(f"linesearch-exceeds-max-step:{kind}", "step longer than max_step_size",
                      alpha=alpha, max_step=mss)
        return True

    def accepted_steps(self, events, mini):
        """events: controller events of one run"""
        ck = self.ck
        prev = None
        n = 0
        for k, ev in enumerate(events):
            x, v, g, mag = self.energy_vs_mirror(ev["energy"], "controller event")
            if k == 0 and ev["meth"] != "start":
                self.viol(f"controller-protocol:{mini}", "first controller call is not start()")
            if ev["status"] not in (CONV, CONT, ERR):
                self.viol(f"controller-status:{mini}", f"controller returned {ev['status']!r}")
            if prev is not None:
                n += 1
                ck.hit("accepted_step_checks")
                Eo, Ep = float(ev["energy"].value), float(prev[0])
                if Eo > Ep:
                    self.viol(f"accepted-step-increases-energy:{mini}",
                              f"the energy handed to controller.check at step {k} is larger than the "
                              "previous accepted energy", before=Ep, after=Eo)
                if v > prev[1] + 1e-10 * (mag + prev[2]):
                    self.viol(f"accepted-step-increases-mirror-energy:{mini}",
                              f"independent energy at accepted step {k} is larger than at the previous one",
                              before=prev[1], after=v)
            prev = (ev["energy"].value, v, mag)
        return n


def judge_lbfgs(ck, J, events, mini, mname, m):
    """directions of a live L_BFGS / VL_BFGS run vs dense BFGS and vs the other class"""
    ift = ck.state["ift"]
    other = ift.VL_BFGS if mname == "L_BFGS" else ift.L_BFGS
    twin = other(ift.GradientNormController(iteration_limit=1), max_history_length=m)
    twin.reset()
    points = []
    for ev in events:
        if ev.get("mini") is not mini:
            continue
        if ev["t"] == "reset":
            points = []
            twin.reset()
            continue
        if ev["t"] != "dir":
            continue
        e = ev["energy"]
        x = cs.fvec(e.position).astype(np.float64)
        g = cs.fvec(e.gradient).astype(np.float64)
        points.append((x, g))
        points = points[-(m + 1):]
        p = cs.fvec(ev["p"]).astype(np.float64)
        pt = cs.fvec(twin.get_descent_direction(e)).astype(np.float64)
        pref, tol = dense_bfgs_direction(points, g, m)
        if not np.isfinite(tol):
            ck.hit("lbfgs_comparisons_skipped_illconditioned")
            continue
        sc = cs.nrm(pref) + 1e-300
        ck.hit("lbfgs_direction_vs_dense")
        if not (cs.nrm(p - pref) <= tol * sc):
            J.viol(f"lbfgs-direction:{mname}:live",
                   f"{mname}.get_descent_direction differs from the dense BFGS recursion on the same history",
                   rel_dev=cs.nrm(p - pref) / sc, npairs=len(points) - 1, maxhist=m)
        ck.hit("lbfgs_twin_comparisons")
        if not (cs.nrm(p - pt) <= tol * sc):
            J.viol("lbfgs-twins-disagree:live",
                   "L_BFGS and VL_BFGS give different directions from the same history",
                   rel_dev=cs.nrm(p - pt) / sc, npairs=len(points) - 1, maxhist=m)


class FakeEnergy:
    def __init__(self, position, gradient):
        self.position, self.gradient = position, gradient


def case_twins(ck, rng):
    """synthetic (position, gradient) histories fed to both classes"""
    ift = ck.state["ift"]
    n = int(rng.integers(1, 9))
    m = int(rng.integers(1, 7))
    steps = int(rng.integers(2, 14))
    multi = bool(rng.integers(0, 3) == 0) and n % 2 == 0
    if multi:
        u = ift.UnstructuredDomain(n // 2)
        dom = ift.MultiDomain.make({"a": u, "b": u})
    else:
        dom = ift.DomainTuple.make(ift.UnstructuredDomain(n))
    H, _ = cs.gen_hpd(rng, n, False, float(rng.choice([1.0, 5.0, 50.0])), "logunif",
                      float(10.0 ** rng.integers(-2, 3)))
    nonlin = float(rng.choice([0.0, 0.05]))
    reset_at = int(rng.integers(2, steps)) if (steps > 3 and rng.integers(0, 3) == 0) else -1
    desc = dict(path="twins", n=n, maxhist=m, steps=steps, multi=multi, nonlin=nonlin, reset_at=reset_at)
    ic = ift.GradientNormController(iteration_limit=1)
    A, Bm = ift.L_BFGS(ic, max_history_length=m), ift.VL_BFGS(ic, max_history_length=m)
    A.reset()
    Bm.reset()
    x = rng.standard_normal(n)
    points = []
    J = Judge(ck, None, "twins")
    ncmp = 0
    for k in range(steps):
        g = H @ x + nonlin * np.sin(x) * np.diagonal(H)
        if k == reset_at:
            A.reset()
            Bm.reset()
            points = []
        points.append((x.copy(), g.copy()))
        points = points[-(m + 1):]
        fe = FakeEnergy(cs.mkfield(dom, x), cs.mkfield(dom, g))
        pa = cs.fvec(A.get_descent_direction(fe)).astype(np.float64)
        pb = cs.fvec(Bm.get_descent_direction(fe)).astype(np.float64)
        pref, tol = dense_bfgs_direction(points, g, m)
        if not np.isfinite(tol):
            ck.hit("lbfgs_comparisons_skipped_illconditioned")
            pref = -g
        else:
            sc = cs.nrm(pref) + 1e-300
            ck.hit("lbfgs_twin_comparisons")
            ck.hit("lbfgs_direction_vs_dense", 2)
            ncmp += 1
            if not (cs.nrm(pa - pb) <= tol * sc):
                J.viol("lbfgs-twins-disagree:synthetic",
                       "L_BFGS and VL_BFGS give different directions from the same history",
                       rel_dev=cs.nrm(pa - pb) / sc, step=k, maxhist=m)
            if not (cs.nrm(pa - pref) <= tol * sc):
                J.viol("lbfgs-direction:L_BFGS:synthetic",
                       "L_BFGS direction differs from the dense BFGS recursion", step=k, maxhist=m,
                       rel_dev=cs.nrm(pa - pref) / sc)
            if not (cs.nrm(pb - pref) <= tol * sc):
                J.viol("lbfgs-direction:VL_BFGS:synthetic",
                       "VL_BFGS direction differs from the dense BFGS recursion", step=k, maxhist=m,
                       rel_dev=cs.nrm(pb - pref) / sc)
        # next point: a quasi-Newton-like step of random length plus noise
        x = x + float(rng.uniform(0.2, 1.5)) * pref + 0.05 * rng.standard_normal(n) * cs.nrm(pref) / np.sqrt(n)
    ck.note(desc, nontrivial=(steps > m + 1 and ncmp >= 3), klass="twins")


def case(ck, i):
    ift = ck.state["ift"]
    rec = ck.state["rec"]
    rng = ck.rng()
    if i % 6 == 5:
        return case_twins(ck, rng)
    en = gen_energy(ck, rng)
    mirror = Mirror(ck, en["par"])
    mname = MINIS[int(rng.integers(0, len(MINIS)))]
    if mname in ("RelaxedNewton", "NewtonCG") and not en["has_metric"]:
        mname = str(rng.choice(["SteepestDescent", "L_BFGS", "VL_BFGS", "NonlinearCG"]))
    if mname == "RelaxedNewton" and en["mu"] == 0.0:
        mname = "NewtonCG"
    xs = float(rng.choice([0.3, 1.0, 3.0]))
    x0 = np.round(rng.standard_normal(en["P"]) * xs, 4)
    pos = cs.mkfield(en["xdom"], x0)
    want_metric = mname in ("RelaxedNewton", "NewtonCG")
    EA = ck.state["InvEnergyAdapter"] if mname == "RelaxedNewton" else ift.EnergyAdapter
    energy = EA(pos, en["op"], want_metric=want_metric)
    J = Judge(ck, mirror, en["fam"])
    _, f0, g0, _ = J.energy_vs_mirror(energy, "start")
    ls, lsd = gen_linesearch(ift, rng)
    ic, icd = gen_controller(ift, rng, cs.nrm(g0) + 1e-12, f0)
    desc = dict(en["desc"], mini=mname, ls=lsd, x0scale=xs, **icd)
    m = None
    if mname == "SteepestDescent":
        mini = ift.SteepestDescent(ic, line_searcher=ls)
    elif mname == "RelaxedNewton":
        mini = ift.RelaxedNewton(ic, line_searcher=ls if rng.integers(0, 2) else None)
    elif mname == "NewtonCG":
        mini = ift.NewtonCG(ic, line_searcher=ls if rng.integers(0, 2) else None,
                            nreset=int(rng.choice([20, 3])), max_cg_iterations=int(rng.choice([200, 5])))
    elif mname in ("L_BFGS", "VL_BFGS"):
        m = int(rng.integers(1, 7))
        mini = getattr(ift, mname)(ic, line_searcher=ls, max_history_length=m)
        desc["maxhist"] = m
    else:
        beta = str(rng.choice(["Polak-Ribiere", "Fletcher-Reeves", "Hestenes-Stiefel", "5.49"]))
        mini = ift.NonlinearCG(ic, beta_heuristics=beta)
        desc["beta"] = beta
    rec.begin()
    raised = None
    try:
        out_energy, status = mini(energy)
    except ValueError as e:
        if "descent direction" not in str(e):
            raise
        raised = e
    finally:
        events = rec.end()
    cev = [e for e in events if e["t"] == "ctrl" and e["ctrl"] is ic]
    nacc = J.accepted_steps(cev, mname)
    if raised is not None:
        # NewtonCG raises instead of returning ERROR when its inner CG fails.  At a numerically flat point
        # (gradient / metric underflow) the Newton system is degenerate: the case is inconclusive there.
        last = cev[-1]["energy"] if cev else energy
        gn = float(last.gradient_norm)
        xl = cs.fvec(last.position).astype(np.float64)
        gs = mirror.grad_scale(xl)
        if gn <= 1e-12 * gs or gn <= 1e-30 * (mirror(xl)[2] + 1e-300):
            ck.note(dict(desc, accepted=nacc), nontrivial=False, klass=f"{mname}:{en['fam']}")
            ck.skip("NewtonCG at a numerically flat point (gradient below rounding scale)")
            return
        J.viol(f"minimizer-raises:{mname}:ValueError",
               f"{mname} raised '{raised}' instead of returning CONVERGED or ERROR", gradient_norm=gn)
        ck.note(dict(desc, accepted=nacc), nontrivial=False, klass=f"{mname}:{en['fam']}")
        return
    ck.hit("status_checks")
    if status not in (CONV, ERR):
        J.viol(f"minimizer-status:{mname}", f"{mname} returned status {status!r}")
    # the returned energy is never worse than the start
    _, fo, _, mago = J.energy_vs_mirror(out_energy, "returned")
    if fo > f0 + 1e-10 * (mago + abs(f0)):
        J.viol(f"minimizer-returns-higher-energy:{mname}",
               "the returned energy is higher than the start energy", start=f0, returned=fo)
    nzoom = 0
    nsucc = 0
    for ev in events:
        if ev["t"] == "ls":
            r = J.line_search(ev, lsd if ev["ls"] is ls else "class default")
            nzoom += 1 if ev["zoom"] else 0
            nsucc += 1 if r else 0
    if m is not None:
        judge_lbfgs(ck, J, events, mini, mname, m)
    # ---- direct line searches along perturbed descent directions from points of the run
    pts = [e["energy"] for e in cev][:3] or [energy]
    for k in range(3):
        e0 = pts[int(rng.integers(0, len(pts)))]
        if rng.integers(0, 2):
            xx = cs.fvec(e0.position).astype(np.float64) + 0.3 * rng.standard_normal(en["P"])
            e0 = ift.EnergyAdapter(cs.mkfield(en["xdom"], xx), en["op"])
        g = cs.fvec(e0.gradient).astype(np.float64)
        if cs.nrm(g) == 0:
            continue
        pk = -(g + 0.5 * rng.standard_normal(en["P"]) * cs.nrm(g) / np.sqrt(en["P"]))
        if pk @ g >= 0:
            pk = -g
        pk = pk / cs.nrm(pk) * float(10.0 ** rng.uniform(-3, 3))
        fkm1 = None if rng.integers(0, 2) else float(e0.value + abs(e0.value) * rng.uniform(0.0, 0.5) + 0.1)
        ls2, lsd2 = gen_linesearch(ift, rng)
        rec.begin()
        try:
            ls2.perform_line_search(e0, cs.mkfield(en["xdom"], pk), fkm1)
        finally:
            ev2 = rec.end()
        for ev in ev2:
            if ev["t"] == "ls":
                ck.hit("direct_line_searches")
                r = J.line_search(ev, lsd2)
                nzoom += 1 if ev["zoom"] else 0
    desc["accepted"] = nacc
    ck.note(desc, nontrivial=(nacc >= 3 and nzoom >= 1), klass=f"{mname}:{en['fam']}")
