"""C13 — Gaussian sampling from covariance operators has the right covariance.

Monitor: ``nifty.cl.random.Random.normal`` (the only source of normal deviates in nifty.cl)
is replaced from the harness by a *scripted* source.  With script xi = e_j the value of
``op.draw_sample(from_inverse)`` is column j of the matrix L with sample = L xi; xi = 0 gives
the mean.  L L^T (real representation; complex samples as [Re, Im]) is compared exactly with
the covariance the operator stands for, which the oracle computes with NumPy from the
*ingredients* the operator was generated from (diagonals, factors, bun matrices), never from
NIFTy's own sampling code.  Operators that are not covariances (no sampling dtype, not
Hermitian PSD, singular for inverse draws) must raise.
"""
import numpy as np

from vf import clsolve as cs

META = dict(
    id="C13", level="exploration",
    title="Gaussian sampling from covariance operators has the right covariance",
    technique=("scripted white noise (Random.normal replaced by basis-vector source) -> exact L with "
               "sample = L xi; L L^T vs dense NumPy covariance built from the generator's ingredients"),
    rule=("case = generated operator tree over domains of <= 8 pixels: ScalingOperator (positive / zero / "
          "negative / complex factor), DiagonalOperator (positive / semi-definite / indefinite / complex, "
          "partial spaces, every _trafo via .inverse/.adjoint views — also of semi-definite diagonals, alone "
          "and as cheese / block of Sandwich / BlockDiagonal operators), SandwichOperator (dense rectangular, "
          "invertible dense, diagonal, Hartley, chained and scaling buns; real and complex), "
          "BlockDiagonalOperator, SumOperator (incl. negated summands), SamplingEnabler (both "
          "start_from_zero, with/without approximation), InversionEnabler, OperatorAdapter inverses / "
          "adjoints; sampling dtype float64 / complex128 / None; forward and inverse draws. "
          "non-trivial: a sample was compared and the covariance is non-diagonal, or the draw is an "
          "inverse draw, or the dtype is complex; distinct = descriptor"),
    assumptions=["matrices of library bun operators (HartleyOperator) are obtained by dense probing of "
                 "that operator; all other reference matrices are built with NumPy from generated numbers",
                 "a refusal (RuntimeError / ValueError / NotImplementedError / TypeError) is demanded for "
                 "non-covariances and tolerated for valid covariances outside the kinds the statement "
                 "enumerates (e.g. complex-typed diagonal with real positive entries); for the enumerated "
                 "kinds built from positive real ingredients a refusal is a violation",
                 "the oracle keeps the matrix of the operator and of its inverse separately (either may not "
                 "exist): a draw whose covariance needs the inverse of a singular operator (exact zero on a "
                 "diagonal) must raise and never return inf/nan; a singular but finite PSD covariance must be "
                 "sampled (zero-variance pixels exactly 0)",
                 "CG-based draws (SamplingEnabler) use GradientNormController(tol_rel 1e-10) and are compared "
                 "to 1e-7; everything else to 1e-9 (norm-wise)",
                 "Monte-Carlo smoke run (unscripted RNG, 300 draws, exact chi-square acceptance region with "
                 "p = 2e-13 per pixel variance) only confirms that scripting does not change the draw path"],
    need=["covariance_comparisons", "zero_mean_checks", "linearity_checks", "refusals_expected",
          "inverse_draws_compared", "complex_draws_compared", "cg_draws_compared", "mc_smoke_checks",
          "refusals_singular_inverse", "semidef_inverse_view_draws_compared"],
    quick=dict(cases=1200, workers=6, budget_s=80),
    thorough=dict(cases=60000, workers=16, budget_s=600),
    design_ref="DESIGN.md §5 C13",
    level_text=("generated covariance-operator trees; exact covariance of the real draw_sample code via "
                "scripted noise; exploration of operator kinds x dtypes x directions, not exhaustive"),
    level_note=("Gaussianity itself follows from linearity in the library's normal deviates (checked: affine "
                "with zero offset); trusts numpy.linalg; domains <= 8 pixels; device arrays not covered"),
)

REFUSE = (RuntimeError, ValueError, NotImplementedError, TypeError)


def init(ck):
    import nifty.cl as ift
    ck.state["ift"] = ift
    ck.state["DenseOp"] = cs.dense_op_class()
    ck.state["DenseLin"] = cs.dense_lin_class()
    ck.state["sn"] = cs.ScriptedNormal()
    from scipy.stats import chi2
    ck.state["chi2_bounds"] = (float(chi2.ppf(1e-13, 300)), float(chi2.isf(1e-13, 300)))
    import logging
    try:
        ift.logger.setLevel(logging.CRITICAL)
    except Exception:
        pass


def safe_inv(M):
    """(inverse, unclear): inverse is None if M is None or singular (smallest singular value <= 1e-12 of the
    largest); unclear=True if it is merely badly conditioned (< 1e-6)"""
    if M is None:
        return None, False
    M = np.asarray(M, dtype=np.complex128)
    if M.size == 0:
        return M, False
    sv = np.linalg.svd(M, compute_uv=False)
    if not np.all(np.isfinite(sv)) or sv.min() <= 1e-12 * max(sv.max(), 1e-300):
        return None, False
    return np.linalg.inv(M), bool(sv.min() < 1e-6 * sv.max())


class Cov:
    """generated operator + what the oracle knows about it: ``Mc`` = matrix of the operator (None if it
    does not exist as a finite matrix, e.g. the inverse view of a diagonal with an exact zero), ``Mi`` =
    matrix of its inverse (None if the operator is singular)"""

    def __init__(self, op, Mc, cpx, dt_ok, must, desc, cg=False, Mi="auto"):
        self.op, self.cpx, self.dt_ok = op, np.asarray(cpx, dtype=bool), dt_ok
        self.Mc = None if Mc is None else np.asarray(Mc)
        self.unclear = False
        if isinstance(Mi, str):
            Mi, self.unclear = safe_inv(self.Mc)
        self.Mi = Mi
        self.must = dict(must)          # {from_inverse: bool}  sampling is demanded
        self.desc, self.cg = desc, cg
        self.flag = None                # special mechanism tag (e.g. negated summand)

    @property
    def n(self):
        return len(self.cpx)

    def view(self, how):
        """apply .inverse / .adjoint views (how: 'inverse', 'adjoint', 'inverse.adjoint', ...)"""
        op = self.op
        for w in how.split("."):
            op = getattr(op, w)
            if w == "inverse":
                self.Mc, self.Mi = self.Mi, self.Mc
                self.must = {False: self.must[True], True: self.must[False]}
            else:
                self.Mc = None if self.Mc is None else self.Mc.conj().T
                self.Mi = None if self.Mi is None else self.Mi.conj().T
        self.op = op
        return self


# -------------------------------------------------------------------- domains ---
def gen_dom(ift, rng, maxsize=8, single=False):
    for _ in range(20):
        nsp = 1 if (single or rng.integers(0, 4)) else 2
        sps, ds = [], []
        for _ in range(nsp):
            t = int(rng.integers(0, 3))
            if t == 0:
                n = int(rng.integers(1, 7))
                sps.append(ift.UnstructuredDomain(n)); ds.append(["U", n])
            elif t == 1:
                n = int(rng.integers(1, 7))
                dist = float(np.round(np.exp(rng.uniform(-1, 1)), 3))
                sps.append(ift.RGSpace(n, distances=dist)); ds.append(["RG", n, dist])
            else:
                a, b = int(rng.integers(1, 4)), int(rng.integers(1, 4))
                sps.append(ift.RGSpace((a, b))); ds.append(["RG2", a, b])
        dom = ift.DomainTuple.make(tuple(sps))
        if 1 <= dom.size <= maxsize:
            return dom, ds
    return ift.DomainTuple.make(ift.UnstructuredDomain(3)), [["U", 3]]


def pick_dtype(rng, allow_none=True):
    r = int(rng.integers(0, 10))
    if r < 5:
        return np.float64, "f"
    if r < 9 or not allow_none:
        return np.complex128, "c"
    return None, "none"


# --------------------------------------------------------------------- leaves ---
def leaf_scaling(ift, rng, dom, dt=None, good=False):
    if dt is None:
        dtype, dn = pick_dtype(rng, allow_none=not good)
    else:
        dtype, dn = dt
    kinds = ["pos"] * 6 + (["zero", "neg", "complex", "poscomplex", "npfloat", "int"] if not good else [])
    k = kinds[int(rng.integers(0, len(kinds)))]
    if k == "pos":
        f = float(np.round(np.exp(rng.uniform(-1.2, 1.2)), 4))
    elif k == "npfloat":
        f = np.float64(np.round(np.exp(rng.uniform(-1.2, 1.2)), 4))
    elif k == "int":
        f = int(rng.integers(2, 5))
    elif k == "zero":
        f = 0.0
    elif k == "neg":
        f = -float(np.round(np.exp(rng.uniform(-1.2, 1.2)), 4))
    elif k == "complex":
        f = complex(np.round(np.exp(rng.uniform(-1, 1)), 3), np.round(rng.uniform(0.2, 1.0), 3))
    else:
        f = complex(np.round(np.exp(rng.uniform(-1, 1)), 3), 0.0)
    op = ift.ScalingOperator(dom, f, sampling_dtype=dtype)
    n = dom.size
    Mc = np.eye(n) * f
    okreal = k in ("pos", "npfloat", "int", "zero")
    must = {False: okreal and dtype is not None, True: okreal and k != "zero" and dtype is not None}
    return Cov(op, Mc, np.full(n, dn == "c"), dtype is not None, must,
               dict(t="scaling", f=k, dt=dn))


def leaf_diag(ift, rng, dom, dt=None, good=False):
    if dt is None:
        dtype, dn = pick_dtype(rng, allow_none=not good)
    else:
        dtype, dn = dt
    kinds = ["pos"] * 6 + (["semidef", "indef", "complex", "poscomplex"] if not good else [])
    k = kinds[int(rng.integers(0, len(kinds)))]
    # diagonal on all spaces or (if two spaces) on one of them
    spaces = None
    ddom = dom
    if len(dom) == 2 and rng.integers(0, 2):
        sp = int(rng.integers(0, 2))
        spaces = sp
        ddom = ift.DomainTuple.make(dom[sp])
    shp = ddom.shape
    d = np.round(np.exp(rng.uniform(-1.1, 1.1, shp)), 4)
    if k == "semidef":
        idx = rng.permutation(d.size)[: max(1, d.size // 3)]
        d.reshape(-1)[idx] = 0.0
    elif k == "indef":
        idx = rng.permutation(d.size)[: max(1, d.size // 3)]
        d.reshape(-1)[idx] *= -1.0
    elif k == "complex":
        d = d + 1j * np.round(rng.uniform(0.2, 1.0, shp), 3)
    elif k == "poscomplex":
        d = d.astype(np.complex128)
    diag = ift.makeField(ddom, d)
    if spaces is None:
        op = ift.DiagonalOperator(diag, sampling_dtype=dtype)
        full = d.reshape(-1)
    else:
        op = ift.DiagonalOperator(diag, domain=dom, spaces=spaces, sampling_dtype=dtype)
        s0, s1 = dom[0].size, dom[1].size
        if spaces == 0:
            full = np.repeat(d.reshape(-1), s1)
        else:
            full = np.tile(d.reshape(-1), s0)
    Mc = np.diag(full)
    okreal = k in ("pos", "semidef")
    must = {False: okreal and dtype is not None, True: k == "pos" and dtype is not None}
    c = Cov(op, Mc, np.full(dom.size, dn == "c"), dtype is not None, must,
            dict(t="diag", d=k, dt=dn, partial=spaces is not None))
    # views of the same diagonal (DiagonalOperator keeps them as _trafo); for a semi-definite diagonal the
    # inverse view has no finite matrix, but its *inverse* draw is the perfectly valid diagonal itself
    vw = str(rng.choice(["none", "none", "none", "inverse", "adjoint.inverse", "adjoint", "inverse.inverse"]))
    if k == "semidef" and rng.integers(0, 2):
        vw = str(rng.choice(["inverse", "adjoint.inverse", "inverse.adjoint"]))
    if vw != "none":
        c.view(vw)
        c.desc["view"] = vw
    return c


def leaf(ift, rng, dom, dt=None, good=False):
    if rng.integers(0, 3) == 0:
        return leaf_scaling(ift, rng, dom, dt, good)
    return leaf_diag(ift, rng, dom, dt, good)


# ----------------------------------------------------------------------- buns ---
def probe_matrix(ift, op, cplx):
    """dense complex-linear matrix of a library operator by probing TIMES"""
    n, m = op.domain.size, op.target.size
    M = np.zeros((m, n), dtype=np.complex128 if cplx else np.float64)
    for j in range(n):
        e = np.zeros(n, dtype=M.dtype)
        e[j] = 1.0
        M[:, j] = cs.fvec(op(cs.mkfield(op.domain, e)))
    return M


def gen_bun(ck, ift, rng, dom, cplx):
    """returns (bun operator, matrix B (k x n), invertible-capability flag, descriptor)"""
    n = dom.size
    kinds = ["dense", "dense", "denseinv", "diag", "chain", "scaling"]
    if len(dom) == 1 and isinstance(dom[0], ift.RGSpace) and len(dom.shape) == 1 and not dom[0].harmonic:
        kinds += ["hartley", "hartley"]
    k = kinds[int(rng.integers(0, len(kinds)))]
    DenseOp, DenseLin = ck.state["DenseOp"], ck.state["DenseLin"]

    def rnd(shape):
        a = rng.standard_normal(shape)
        if cplx:
            a = a + 1j * rng.standard_normal(shape)
        return np.round(a, 3)

    def wellcond(n):
        U = cs.rand_unitary(rng, n, cplx)
        V = cs.rand_unitary(rng, n, cplx)
        s = np.exp(rng.uniform(-0.8, 0.8, n))
        return (U * s) @ V.conj().T
    if k == "dense":
        kk = int(rng.integers(1, 7))
        tgt = ift.DomainTuple.make(ift.UnstructuredDomain(kk))
        B = rnd((kk, n))
        return DenseLin(dom, tgt, B), B, False, dict(bun="dense", k=kk)
    if k == "denseinv":
        B = wellcond(n)
        return DenseOp(dom, B, caps="all"), B, True, dict(bun="denseinv")
    if k == "diag":
        d = np.exp(rng.uniform(-0.8, 0.8, dom.shape)) * np.where(rng.integers(0, 2, dom.shape), 1, -1)
        if cplx:
            d = d * np.exp(1j * rng.uniform(0, 2 * np.pi, dom.shape))
        return ift.DiagonalOperator(ift.makeField(dom, d)), np.diag(d.reshape(-1)), True, dict(bun="diag")
    if k == "chain":
        B1 = wellcond(n)
        d = np.exp(rng.uniform(-0.8, 0.8, dom.shape))
        op = DenseOp(dom, B1, caps="all") @ ift.DiagonalOperator(ift.makeField(dom, d))
        return op, B1 @ np.diag(d.reshape(-1)), True, dict(bun="chain")
    if k == "scaling":
        c = float(np.round(rng.uniform(0.5, 2.0), 3)) * (-1 if rng.integers(0, 2) else 1)
        if cplx and rng.integers(0, 2):
            c = c * np.exp(1j * float(np.round(rng.uniform(0.3, 2.5), 3)))
        return ift.ScalingOperator(dom, c), np.eye(n) * c, True, dict(bun="scaling")
    H = ift.HartleyOperator(dom)
    return H, probe_matrix(ift, H, cplx), True, dict(bun="hartley")


# ----------------------------------------------------------------- composites ---
def gen_sandwich(ck, ift, rng, dom=None, dt=None, good=False):
    if dom is None:
        dom, _ = gen_dom(ift, rng)
    if dt is None:
        dt = pick_dtype(rng, allow_none=False)
    cplx = dt[1] == "c"
    bun, B, inv, bd = gen_bun(ck, ift, rng, dom, cplx)
    tgt = bun.target
    r = int(rng.integers(0, 6))
    if r == 0:
        # cheese None: identity with the given sampling dtype (possibly None -> must refuse)
        sdt = dt if (good or rng.integers(0, 4)) else (None, "none")
        op = ift.SandwichOperator.make(bun, None, sampling_dtype=sdt[0])
        ch = Cov(None, np.eye(tgt.size), np.full(tgt.size, sdt[1] == "c"), sdt[0] is not None,
                 {False: sdt[0] is not None, True: sdt[0] is not None}, dict(t="none", dt=sdt[1]))
    else:
        # a complex bun needs a complex sampling dtype (or none at all -> must refuse); with a real bun
        # the cheese may carry any dtype
        if good or rng.integers(0, 5):
            cdt = dt
        elif cplx:
            cdt = (None, "none")
        else:
            cdt = None
        ch = leaf(ift, rng, tgt, dt=cdt, good=good)
        op = ift.SandwichOperator.make(bun, ch.op)
    Mc = None if ch.Mc is None else B.conj().T @ ch.Mc @ B
    Mi = "auto"
    if Mc is None:
        # cheese without a finite matrix (inverse view of a semi-definite diagonal): the sandwich is only
        # defined through its inverse  B^-1 C^-1 B^-H  (square invertible bun)
        Mi = None
        if ch.Mi is not None and B.shape[0] == B.shape[1]:
            Bi, _ = safe_inv(B)
            Mi = None if Bi is None else Bi @ ch.Mi @ Bi.conj().T
    cpx = np.full(dom.size, bool(ch.cpx.any()))
    must = {False: ch.must[False], True: ch.must[True] and inv}
    c = Cov(op, Mc, cpx, ch.dt_ok, must, dict(t="sandwich", cheese=ch.desc, **bd), Mi=Mi)
    return c


def gen_block(ck, ift, rng):
    keys = ["a", "b", "c"][: int(rng.integers(2, 4))]
    doms, parts = {}, {}
    for k in keys:
        d, _ = gen_dom(ift, rng, maxsize=4, single=True)
        doms[k] = d
    md = ift.MultiDomain.make(doms)
    n = sum(md[k].size for k in md.keys())
    Mc = np.zeros((n, n), dtype=np.complex128)
    Mi = np.zeros((n, n), dtype=np.complex128)
    unclear = False
    cpx = np.zeros(n, dtype=bool)
    o = 0
    descs = []
    must = {False: True, True: True}
    dt_ok = True
    ops = {}
    for k in md.keys():
        if rng.integers(0, 3) == 0:
            c = gen_sandwich(ck, ift, rng, dom=md[k], good=bool(rng.integers(0, 4)))
        else:
            c = leaf(ift, rng, md[k], good=bool(rng.integers(0, 4)))
        s = md[k].size
        if Mc is not None and c.Mc is not None:
            Mc[o:o + s, o:o + s] = c.Mc
        else:
            Mc = None
        if Mi is not None and c.Mi is not None:
            Mi[o:o + s, o:o + s] = c.Mi
        else:
            Mi = None
        unclear = unclear or c.unclear
        cpx[o:o + s] = c.cpx
        o += s
        ops[k] = c.op
        descs.append(c.desc)
        dt_ok = dt_ok and c.dt_ok
        for fi in (False, True):
            must[fi] = must[fi] and c.must[fi]
    op = ift.BlockDiagonalOperator(md, ops)
    cov = Cov(op, Mc, cpx, dt_ok, must, dict(t="block", parts=descs), Mi=Mi)
    cov.unclear = unclear
    return cov


def gen_sum(ck, ift, rng):
    dom, _ = gen_dom(ift, rng)
    dt = pick_dtype(rng, allow_none=False)
    nt = int(rng.integers(2, 4))
    terms = []
    for j in range(nt):
        if j == 0 or rng.integers(0, 2):
            terms.append(gen_sandwich(ck, ift, rng, dom=dom, dt=dt, good=True))
        else:
            terms.append(leaf(ift, rng, dom, dt=dt, good=True))
    neg = [False] * nt
    negated = False
    if rng.integers(0, 6) == 0:
        # A - eps*B : still a covariance if eps is small and A is positive definite
        j = nt - 1
        small = leaf_diag(ift, rng, dom, dt=dt, good=True)
        sc = 1e-3
        small = Cov(small.op.scale(sc) if hasattr(small.op, "scale") else small.op, small.Mc * sc,
                    small.cpx, small.dt_ok, small.must, small.desc)
        terms[j] = small
        neg[j] = True
        negated = True
    op = None
    Mc = np.zeros((dom.size, dom.size), dtype=np.complex128)
    for c, ng in zip(terms, neg):
        op = (c.op if not ng else -c.op) if op is None else (op - c.op if ng else op + c.op)
        Mc = Mc + (-c.Mc if ng else c.Mc)
    dt_ok = all(c.dt_ok for c in terms)
    must = {False: all(c.must[False] for c in terms) and not negated, True: False}
    cov = Cov(op, Mc, np.full(dom.size, dt[1] == "c"), dt_ok, must,
              dict(t="sum", terms=[c.desc for c in terms], neg=neg, cls=type(op).__name__))
    if negated:
        cov.flag = "negated-summand"
    return cov


def gen_sampling_enabler(ck, ift, rng):
    dom, _ = gen_dom(ift, rng, maxsize=6)
    dt = pick_dtype(rng, allow_none=False)
    lh = gen_sandwich(ck, ift, rng, dom=dom, dt=dt, good=True)
    pr = leaf(ift, rng, dom, dt=dt, good=True)
    ic = ift.GradientNormController(tol_rel_gradnorm=1e-10, iteration_limit=300)
    A = lh.Mc + pr.Mc
    approx = None
    if rng.integers(0, 2):
        approx = ift.DiagonalOperator(ift.makeField(dom, np.real(np.diagonal(A)).reshape(dom.shape)))
    sfz = bool(rng.integers(0, 2))
    op = ift.SamplingEnabler(lh.op, pr.op, ic, approximation=approx, start_from_zero=sfz)
    c = Cov(op, A, np.full(dom.size, dt[1] == "c"), True, {False: lh.must[False] and pr.must[False],
                                                             True: lh.must[False] and pr.must[True]},
            dict(t="sampling_enabler", lh=lh.desc, prior=pr.desc, approx=approx is not None, sfz=sfz),
            cg=True)
    return c


def gen_cov(ck, ift, rng):
    r = int(rng.integers(0, 20))
    if r < 3:
        dom, _ = gen_dom(ift, rng)
        c = leaf_scaling(ift, rng, dom)
    elif r < 7:
        dom, _ = gen_dom(ift, rng)
        c = leaf_diag(ift, rng, dom)
    elif r < 12:
        c = gen_sandwich(ck, ift, rng)
    elif r < 14:
        c = gen_block(ck, ift, rng)
    elif r < 17:
        c = gen_sum(ck, ift, rng)
    else:
        c = gen_sampling_enabler(ck, ift, rng)
    # wrappers
    if c.desc["t"] in ("sandwich", "sum") and rng.integers(0, 6) == 0:
        ic = ift.GradientNormController(tol_rel_gradnorm=1e-10, iteration_limit=300)
        c.op = ift.InversionEnabler(c.op, ic)
        c.desc = dict(t="inversion_enabler", inner=c.desc)
    if rng.integers(0, 3) == 0:
        which = str(rng.choice(["inverse", "adjoint", "inverse.adjoint", "inverse.inverse"]))
        inner = c.desc
        if "inverse" in which and inner.get("t") == "scaling" and inner.get("f") == "zero":
            which = "adjoint"        # ScalingOperator(0).inverse cannot even be constructed (1/0)
        c.view(which)
        c.desc = dict(t="adapter", how=which, inner=inner, cls=type(c.op).__name__)
    return c


# -------------------------------------------------------------------- oracles ---
def realrep(z):
    z = np.asarray(z)
    return np.concatenate([z.real, z.imag]) if np.iscomplexobj(z) else np.concatenate([z, 0 * z])


def expected_cov(Mc, cpx):
    """real covariance of [Re z; Im z] for z with 'covariance operator' Mc; entries with a real
    sampling dtype have no imaginary part"""
    n = Mc.shape[0]
    Mc = np.asarray(Mc, dtype=np.complex128)
    C = np.block([[Mc.real, -Mc.imag], [Mc.imag, Mc.real]])
    idx = n + np.where(~cpx)[0]
    C[idx, :] = 0
    C[:, idx] = 0
    return C


def validity(Mc, cpx):
    """'valid' (a finite Hermitian PSD covariance compatible with the sampling dtypes) or 'invalid'"""
    if Mc is None:
        return "invalid"           # the requested covariance needs the inverse of a singular operator
    Mc = np.asarray(Mc, dtype=np.complex128)
    if not np.all(np.isfinite(Mc)):
        return "invalid"
    sc = max(np.max(np.abs(Mc), initial=0.0), 1e-300)
    if np.max(np.abs(Mc - Mc.conj().T), initial=0.0) > 1e-9 * sc:
        return "invalid"
    # a real sampling dtype cannot carry a complex covariance
    if np.max(np.abs(Mc.imag[np.ix_(~cpx, ~cpx)]), initial=0.0) > 1e-9 * sc:
        return "invalid"
    ev = np.linalg.eigvalsh(0.5 * (Mc + Mc.conj().T))
    if ev.size and np.min(ev) < -1e-9 * sc:
        return "invalid"
    return "valid"


def has_semidef_inverse_view(desc):
    """does the operator tree contain a semi-definite diagonal seen through an inverse view?"""
    if isinstance(desc, dict):
        if desc.get("t") == "diag" and desc.get("d") == "semidef" and \
                str(desc.get("view", "")).split(".").count("inverse") % 2 == 1:
            return True
        if desc.get("t") == "adapter" and desc.get("how", "").split(".").count("inverse") % 2 == 1 and \
                isinstance(desc.get("inner"), dict) and desc["inner"].get("t") == "diag" and \
                desc["inner"].get("d") == "semidef" and \
                str(desc["inner"].get("view", "")).split(".").count("inverse") % 2 == 0:
            return True
        return any(has_semidef_inverse_view(v) for v in desc.values())
    if isinstance(desc, (list, tuple)):
        return any(has_semidef_inverse_view(v) for v in desc)
    return False


def short(desc):
    t = desc.get("t")
    if t == "adapter":
        return "adapter(" + short(desc["inner"]) + ")"
    if t == "inversion_enabler":
        return "inversion_enabler(" + short(desc["inner"]) + ")"
    return str(t)


def case(ck, i):
    ift = ck.state["ift"]
    sn = ck.state["sn"]
    rng = ck.rng()
    c = gen_cov(ck, ift, rng)
    from_inverse = bool(rng.integers(0, 2))
    desc = dict(op=c.desc, from_inverse=from_inverse)
    kl = short(c.desc) + (":inv" if from_inverse else ":fwd")
    op = c.op
    n = c.n

    # effective covariance of this draw: the operator, or its inverse; None = does not exist (needs the
    # inverse of a singular operator, e.g. of a zero on a diagonal) -> the draw must be refused
    Meff = c.Mi if from_inverse else c.Mc
    val = validity(Meff, c.cpx)
    if not c.dt_ok:
        val = "invalid"
    elif Meff is not None and c.unclear:
        val = "unclear"
    mech = short(c.desc)

    def draw():
        return op.draw_sample(from_inverse=from_inverse)

    # ---- xi = 0 : mean, request pattern
    try:
        s0, N = sn.run(None, draw)
        refused = None
    except REFUSE as e:
        refused = e
    if refused is not None:
        ck.hit("refusals_seen")
        if val == "invalid":
            ck.hit("refusals_expected")
            if c.dt_ok and Meff is None:
                ck.hit("refusals_singular_inverse")
        elif val == "valid" and c.must[from_inverse]:
            ck.violation(f"unexpected-refusal:{mech}:{'inverse' if from_inverse else 'forward'}",
                         f"draw_sample(from_inverse={from_inverse}) raised {type(refused).__name__} for a "
                         "valid covariance of an enumerated kind", error=str(refused)[:200])
        else:
            ck.hit("refusals_tolerated")
        ck.note(desc, nontrivial=False, klass=kl + ":refused")
        return
    if not np.all(np.isfinite(cs.fvec(s0).astype(np.complex128))):
        ck.hit("nonfinite_samples")
        ck.violation(f"nonfinite-sample:{mech}:{'inverse' if from_inverse else 'forward'}",
                     f"draw_sample(from_inverse={from_inverse}) returned inf/nan instead of refusing")
        ck.note(desc, nontrivial=False, klass=kl + ":nonfinite")
        return
    if val == "invalid":
        why = ("no sampling dtype" if not c.dt_ok else
               "the requested covariance needs the inverse of a singular operator" if Meff is None else
               "not a Hermitian positive (semi-)definite covariance")
        key = f"sample-from-non-covariance:{mech}:{'inverse' if from_inverse else 'forward'}"
        if c.flag:
            key = "wrong-covariance:sum:" + c.flag
        ck.violation(key, f"draw_sample(from_inverse={from_inverse}) returned a sample although the operator "
                     f"cannot be a covariance ({why})")
        ck.note(desc, nontrivial=False, klass=kl + ":should-refuse")
        return
    if val == "unclear":
        ck.skip("covariance nearly singular")
        ck.note(desc, nontrivial=False, klass=kl)
        return

    # ---- domain / dtype of the sample
    if s0.domain is not op.domain:
        ck.violation(f"sample-domain:{mech}", "sample lives on a different domain than the operator")
    v0 = cs.fvec(s0)
    ck.hit("zero_mean_checks")
    if np.max(np.abs(v0), initial=0.0) != 0.0:
        ck.violation(f"nonzero-mean:{mech}", "with all normal deviates equal to 0 the sample is not 0",
                     maxabs=float(np.max(np.abs(v0))))
    if N == 0:
        if np.max(np.abs(Meff), initial=0.0) > 0:
            ck.violation(f"no-noise-consumed:{mech}", "draw_sample did not request any normal deviate")
        ck.note(desc, nontrivial=False, klass=kl)
        return
    if N > 64:
        ck.skip("too many deviates")
        return
    # ---- columns of L
    L = np.zeros((2 * n, N))
    for j in range(N):
        e = np.zeros(N)
        e[j] = 1.0
        sj, Nj = sn.run(e, draw)
        if Nj != N:
            ck.violation(f"draw-count-varies:{mech}", "number of requested deviates depends on their values",
                         first=N, now=Nj)
        L[:, j] = realrep(cs.fvec(sj).astype(np.complex128))
    # ---- linearity
    xi = rng.standard_normal(N)
    sx, _ = sn.run(xi, draw)
    vx = realrep(cs.fvec(sx).astype(np.complex128))
    tol = 1e-7 if c.cg else 1e-9
    ck.hit("linearity_checks")
    ref = L @ xi
    sc = max(np.max(np.abs(ref), initial=0.0), np.max(np.abs(vx), initial=0.0), 1e-300)
    if np.max(np.abs(ref - vx)) > (1e-6 if c.cg else 1e-9) * sc:
        ck.violation(f"not-linear-in-noise:{mech}", "sample is not a linear function of the normal deviates",
                     dev=float(np.max(np.abs(ref - vx)) / sc))
    # ---- covariance
    C = L @ L.T
    Cexp = expected_cov(Meff, c.cpx)
    sc = max(np.max(np.abs(C), initial=0.0), np.max(np.abs(Cexp), initial=0.0), 1e-300)
    dev = float(np.max(np.abs(C - Cexp)) / sc)
    ck.hit("covariance_comparisons")
    if from_inverse:
        ck.hit("inverse_draws_compared")
    if c.cpx.any():
        ck.hit("complex_draws_compared")
    if c.cg and from_inverse:
        ck.hit("cg_draws_compared")
    ck.hit("compared:" + short(c.desc))
    if has_semidef_inverse_view(c.desc):
        ck.hit("semidef_inverse_view_draws_compared")
    if not (dev <= tol):
        key = f"wrong-covariance:{mech}:{'inverse' if from_inverse else 'forward'}"
        if c.flag:
            key = "wrong-covariance:sum:" + c.flag
        ck.violation(key, f"L L^T of draw_sample(from_inverse={from_inverse}) differs from the "
                     f"{'inverse of the ' if from_inverse else ''}operator", rel_dev=dev,
                     got_diag=np.round(np.diagonal(C)[:6], 6).tolist(),
                     exp_diag=np.round(np.diagonal(Cexp)[:6], 6).tolist())
    # ---- Monte-Carlo smoke run with the library's own RNG (cheap operators only)
    if not c.cg and i % 5 == 0:
        K = 300
        acc = np.zeros(2 * n)
        with ift.random.Context(int(rng.integers(0, 2 ** 31))):
            for _ in range(K):
                acc += realrep(cs.fvec(draw()).astype(np.complex128)) ** 2
        var = acc / K
        dv = np.diagonal(C)
        ck.hit("mc_smoke_checks", len(dv))
        # K*var/sigma^2 ~ chi^2_K exactly (zero-mean Gaussian): two-sided bound at 1e-13 per comparison
        lo, hi = ck.state["chi2_bounds"]
        bad = (K * var < lo * dv - 1e-300) | (K * var > hi * dv + 1e-300)
        if np.any(bad):
            ck.violation(f"mc-smoke:{mech}", "sample variances of unscripted draws are outside the exact "
                         "chi-square acceptance region (p < 2e-13) around the scripted covariance",
                         observed=var[bad][:4].tolist(), expected=dv[bad][:4].tolist())
    offdiag = np.max(np.abs(Cexp - np.diag(np.diagonal(Cexp))), initial=0.0) > 1e-12 * sc
    ck.note(desc, nontrivial=bool(offdiag or from_inverse or c.cpx.any()), klass=kl)
