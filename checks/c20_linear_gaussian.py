"""C20 — Linear Gaussian problems: Wiener filter and VI give the exact posterior.

For generated linear models d = R xi + n (standard-normal prior, Gaussian noise) the real
routes — JAX ``wiener_filter_posterior`` in signal and in data space, classic
``WienerFilterCurvature``, MAP and MGVI through the classic and the JAX ``optimize_kl`` —
must all return the closed-form posterior mean  m = (1 + R^T N^-1 R)^-1 R^T N^-1 d, and
with scripted white noise the linear map  L  generating their samples must satisfy
L L^T = D = (1 + R^T N^-1 R)^-1  exactly ("sample covariances converge to" becomes an
equality of the generating map).
"""
import numpy as np

from vf import vihelp as vh

META = dict(
    id="C20", level="exploration",
    title="Linear Gaussian problems: Wiener filter and VI give the exact posterior",
    technique="dense closed-form posterior vs five real inference routes; scripted white noise",
    rule=("case = generated linear model (1-3 latent keys, 2-6 latent x 1-6 data dims; full, "
          "rank-deficient, zero-row responses; diagonal noise 1e-2..1e2 or dense noise; random data) x "
          "route (JAX wiener_filter_posterior signal/data space with lmap/smap/vmap and "
          "model_is_linear True/False; classic WienerFilterCurvature inverse_times + draw_sample; "
          "classic optimize_kl MAP / MGVI; JAX optimize_kl MAP / MGVI) x start (random / exact mean). "
          "non-trivial: >=2 latent dims and R not a multiple of the identity; distinct = distinct "
          "descriptor"),
    assumptions=["solvers configured to full convergence (CG resnorm/gradnorm 1e-11, Newton xtol 1e-12); "
                 "comparison at 1e-7 relative (solver-limited), scripted covariances at 1e-8",
                 "posterior covariance condition number <= 1e6 (else skipped)",
                 "a JAX draw whose CG reports info != 0 is skipped",
                 "classic WienerFilterCurvature with diagonal noise only (needs N.inverse.draw_sample)",
                 "classic minimisers are judged only when the gradient norm NIFTy itself reports at the "
                 "returned point is below 1e-9 (GradientNormController also reports CONVERGED on its "
                 "iteration limit); otherwise the case is skipped",
                 "real-valued models only: the DESIGN mutant 'forward_lin_T without conjugation' is "
                 "equivalent on them",
                 "JAX cases are not started with < 30 s of budget left (counted as skipped)"],
    need=["wf_signal_mean", "wf_data_mean", "wf_cov", "curvature_mean", "curvature_cov",
          "cl_map_mean", "cl_mgvi_mean", "cl_mgvi_cov", "re_map_mean", "re_mgvi_mean", "re_mgvi_cov"],
    quick=dict(cases=700, workers=8, budget_s=75),
    thorough=dict(cases=10000, workers=16, budget_s=780),
    design_ref="DESIGN.md §5 C20",
    level_text=("every generated model is pushed through the real routes and compared with the dense "
                "closed form; exploration of models x routes, not exhaustive"),
    level_note="trusts NumPy's dense solve/inverse for the closed forms and jax.random.split",
    max_skip_fraction=0.3,
)

TOL_MEAN = 1e-7
TOL_COV = 1e-8
CGKW = dict(resnorm=1e-11, miniter=0, maxiter=300)


def init(ck):
    import logging
    import nifty.cl as ift
    ck.state["ift"] = ift
    ift.logger.setLevel(logging.CRITICAL)


FAMS = ["curv", "cl_map", "cl_mgvi", "wf_sig", "wf_dat", "re_map", "re_mgvi"]


def case(ck, i):
    return vh.run_case(ck, _case, i)


def _case(ck, i):
    rng = ck.rng()
    u = rng.uniform()
    if i < 7:
        fam = ["re_mgvi", "wf_sig", "wf_dat", "re_map", "curv", "cl_mgvi", "cl_map"][i]
    elif u < 0.30:
        fam = "curv"
    elif u < 0.55:
        fam = "cl_map"
    elif u < 0.86:
        fam = "cl_mgvi"
    elif u < 0.905:
        fam = "wf_sig"
    elif u < 0.95:
        fam = "wf_dat"
    elif u < 0.97:
        fam = "re_map"
    else:
        fam = "re_mgvi"
    m = vh.gen_model(rng, linear=True, allow_prod=False,
                     noise_kinds=("diag",) if fam == "curv" else ("diag", "diag", "dense"),
                     mat_kinds=("full", "full", "lowrank", "zerorow", "scaledid"))
    mir = vh.Mirror(m)
    R, D, mean, mean_d = mir.posterior()
    mult_id = (R.shape[0] == R.shape[1] and np.allclose(R, R[0, 0] * np.eye(R.shape[0])))
    nontriv = mir.n >= 2 and not mult_id and bool(np.any(R != 0))
    cond = np.linalg.cond(D)
    if cond > 1e6 or mir.cond_N > 1e6:
        ck.note(dict(model=vh.model_brief(m), fam=fam), nontrivial=False, klass=fam)
        raise vh.SkipCase("posterior covariance condition number > 1e6")
    # the two closed forms of the mean must agree (oracle self-check, skip if ill-conditioned)
    if vh.relerr(mean, mean_d) > 1e-9:
        ck.note(dict(model=vh.model_brief(m), fam=fam), nontrivial=False, klass=fam)
        raise vh.SkipCase("closed forms of the posterior mean disagree beyond 1e-9 (ill-conditioned)")
    start_at_mean = bool(rng.integers(0, 4) == 0)
    x0 = mean.copy() if start_at_mean else rng.standard_normal(mir.n)
    seed = int(rng.integers(0, 2**31))
    desc = dict(model=vh.model_brief(m), fam=fam, start_at_mean=start_at_mean, seed=seed)
    if fam.startswith("cl") or fam == "curv":
        return case_cl(ck, rng, fam, m, mir, D, mean, x0, seed, desc, nontriv)
    return case_re(ck, rng, fam, m, mir, D, mean, x0, seed, desc, nontriv)


def _recording(ift, base):
    """harness subclass of a NIFTy minimiser that records the gradient norm NIFTy itself reports
    for the energy it returns (the driver hides the minimiser's status)"""
    cache = _recording.__dict__.setdefault("cache", {})
    if base not in cache:
        class Rec(base):
            def __call__(self, energy):
                e, st = super().__call__(energy)
                self.final_gradnorm = float(e.gradient_norm)
                return e, st
        Rec.__name__ = "Recording" + base.__name__
        cache[base] = Rec
    return cache[base]


def _claimed_convergence(ck, mini, what):
    """iterative minimisers are judged by the criterion they claim: GradientNormController also
    returns CONVERGED on its iteration limit, so the gradient norm that NIFTy itself computed at
    the returned point is compared with the configured tolerance; above it -> inconclusive case"""
    g = getattr(mini, "final_gradnorm", None)
    if g is None or not g <= 1e-9:
        ck.hit("minimiser_not_converged")
        raise vh.SkipCase(f"{what}: minimiser stopped before its own gradient tolerance")


def _cmp_mean(ck, key, what, got, mean, hit, atol=0.0):
    """atol: absolute slack implied by the criterion an iterative minimiser claims — a gradient
    norm <= g_tol at the returned point bounds the distance to the minimum by g_tol/lambda_min and
    the posterior precision 1 + R^T N^-1 R has lambda_min >= 1"""
    ck.hit(hit)
    sc = max(np.max(np.abs(mean)), 1e-3)
    adev = float(np.max(np.abs(np.asarray(got) - mean)))
    dev = adev / sc
    if not adev <= TOL_MEAN * sc + atol:
        ck.violation(key, what, reldev=dev, got=vh.small(got, 10), expected=vh.small(mean, 10))


def _cmp_cov(ck, key, what, L, D, hit):
    ck.hit(hit)
    dev = float(np.max(np.abs(L @ L.T - D)) / np.max(np.abs(D)))
    if not dev <= TOL_COV:
        ck.violation(key, what, reldev=dev, LLt=vh.small(L @ L.T), expected=vh.small(D))


# =====================================================================================
# classic routes
# =====================================================================================
def case_cl(ck, rng, fam, m, mir, D, mean, x0, seed, desc, nontriv):
    ift = ck.state["ift"]
    sc = vh.get_clscript(ck, ift)
    b = vh.build_cl(ift, m, rg=bool(rng.integers(0, 2)))
    dom = b["dom"]
    zero = ift.full(dom, 0.)
    ic = ift.GradientNormController(tol_abs_gradnorm=1e-11, iteration_limit=300)

    if fam == "curv":
        ck.note(desc, nontrivial=nontriv, klass=fam)
        Rop = b["signal"]
        if not isinstance(Rop, ift.LinearOperator):
            raise RuntimeError("harness: linear model did not give a LinearOperator")
        ddom = b["ddom"]
        Nop = ift.DiagonalOperator(ift.makeField(ddom, np.diag(mir.N).copy()), sampling_dtype=float)
        Sop = ift.ScalingOperator(dom, 1., float)
        d = ift.makeField(ddom, mir.d)
        curv = ift.WienerFilterCurvature(Rop, Nop, Sop, iteration_controller=ic,
                                         iteration_controller_sampling=ic)
        j = Rop.adjoint_times(Nop.inverse_times(d))
        got = vh.cl_vec(mir, curv.inverse_times(j))
        _cmp_mean(ck, "mean-mismatch:cl:WienerFilterCurvature",
                  "WienerFilterCurvature.inverse_times(R^T N^-1 d) differs from the exact posterior "
                  "mean", got, mean, "curvature_mean")
        # the curvature itself is the inverse posterior covariance
        ck.hit("curvature_apply")
        Minv = np.linalg.inv(D)
        cols = np.stack([vh.cl_vec(mir, curv(vh.cl_field(ift, dom, mir, e))) for e in np.eye(mir.n)], 1)
        if not vh.relerr(cols, Minv) <= 1e-9:
            ck.violation("curvature-matrix-mismatch:cl:WienerFilterCurvature",
                         "WienerFilterCurvature times is not 1 + R^T N^-1 R",
                         got=vh.small(cols), expected=vh.small(Minv))
        # a larger, worse conditioned problem of the same kind: the CG behind inverse_times needs more
        # iterations than its residual-reset period (20), which the small generated models never reach
        if rng.integers(0, 4) == 0:
            nb = int(rng.integers(30, 46))
            mb = nb             # MatrixProductOperator on a whole domain takes square matrices only
            Rb = rng.standard_normal((mb, nb)) * np.exp(rng.uniform(-1.5, 1.5, nb))[None, :]
            sig2 = np.exp(rng.uniform(-2.0, 0.5, mb))
            db = rng.standard_normal(mb)
            domb = ift.DomainTuple.make(ift.UnstructuredDomain(nb))
            Rbop = ift.MatrixProductOperator(domb, Rb)
            Nb = ift.DiagonalOperator(ift.makeField(Rbop.target, sig2), sampling_dtype=float)
            jb = Rbop.adjoint_times(Nb.inverse_times(ift.makeField(Rbop.target, db)))
            jn = float(np.linalg.norm(jb.asnumpy()))
            icb = ift.GradientNormController(tol_abs_gradnorm=1e-8 * jn, iteration_limit=3000)
            curvb = ift.WienerFilterCurvature(Rbop, Nb, ift.ScalingOperator(domb, 1., float), iteration_controller=icb)
            gotb = curvb.inverse_times(jb).asnumpy()
            Lamb = np.eye(nb) + Rb.T @ (Rb / sig2[:, None])
            meanb = np.linalg.solve(Lamb, Rb.T @ (db / sig2))
            if int(getattr(icb, "_itcount", 0)) > 20:
                ck.hit("curvature_big_cg_beyond_reset")
            # |grad| <= 1e-8 |j| at the returned point bounds the error by that (lambda_min >= 1)
            _cmp_mean(ck, "mean-mismatch:cl:WienerFilterCurvature:long-cg",
                      "WienerFilterCurvature.inverse_times on a 30-45 dimensional problem (CG beyond its "
                      "residual-reset period) differs from the exact posterior mean", gotb, meanb,
                      "curvature_mean_big", atol=1e-6 * jn)
        # curvature without sampling controller gives the same mean
        curv2 = ift.WienerFilterCurvature(Rop, Nop, Sop, iteration_controller=ic)
        got2 = vh.cl_vec(mir, curv2.inverse_times(j))
        _cmp_mean(ck, "mean-mismatch:cl:WienerFilterCurvature",
                  "WienerFilterCurvature (no sampling controller) inverse_times differs from the exact "
                  "posterior mean", got2, mean, "curvature_mean")

        def run():
            return curv.draw_sample(from_inverse=True)

        with ift.random.Context(seed):
            sc.record()
            run()
            W = sum(sc.calls)
            sc.off()
            L, off, _ = vh.cl_residual_map(ift, sc, run, W, 1, lambda res, j_: vh.cl_vec(mir, res))
        if np.max(np.abs(off)) > 1e-12:
            ck.violation("offset-nonzero:cl:WienerFilterCurvature", "zero white noise gives a non-zero "
                         "sample", offset=vh.small(off, 15))
        _cmp_cov(ck, "covariance-mismatch:cl:WienerFilterCurvature",
                 "scripted-noise covariance of WienerFilterCurvature.draw_sample(from_inverse=True) "
                 "differs from the exact posterior covariance", L, D, "curvature_cov")
        return

    pos = vh.cl_field(ift, dom, mir, x0)
    mgvi = fam == "cl_mgvi"
    ns = int(rng.integers(1, 4)) if mgvi else 0
    mini_kind = ["newton", "newton", "lbfgs"][int(rng.integers(0, 3))]
    niter = int(rng.integers(1, 3))
    desc = dict(desc, ns=ns, mini=mini_kind, niter=niter)
    ck.note(desc, nontrivial=nontriv, klass=fam)

    minis = []

    def minimizer():
        ctrl = ift.GradientNormController(tol_abs_gradnorm=1e-10, iteration_limit=400)
        mm = _recording(ift, ift.NewtonCG if mini_kind == "newton" else ift.L_BFGS)(ctrl)
        minis.append(mm)
        return mm

    def run():
        return ift.optimize_kl(b["lh"], niter, ns, minimizer(), ic if mgvi else None,
                               initial_position=pos, output_directory=None,
                               return_final_position=True, plot_energy_history=False,
                               plot_minisanity_history=False)

    if not mgvi:
        with ift.random.Context(seed):
            sl, mpos = run()
        got = vh.cl_vec(mir, mpos)
        _claimed_convergence(ck, minis[-1], mini_kind)
        _cmp_mean(ck, f"mean-mismatch:cl:optimize_kl:map:{mini_kind}",
                  "classic optimize_kl MAP result differs from the exact posterior mean", got, mean,
                  "cl_map_mean", atol=3e-9)
        it = [vh.cl_vec(mir, f) for f in sl.local_iterator()]
        if len(it) != 1 or not np.array_equal(it[0], got):
            ck.violation("map-sample-list:cl:optimize_kl", "MAP sample list is not the single final "
                         "position")
        return

    # MGVI: residual map through the driver (scripted), mean from every scripted run
    def extract(res, j_):
        items = list(res[0].at(zero).local_iterator())
        return vh.cl_vec(mir, items[2 * j_])

    with ift.random.Context(seed):
        sc.record()
        run()
        tot = sum(sc.calls)
        sc.off()
        if tot % (ns * niter) != 0:
            raise RuntimeError("harness: scripted request count not divisible")
        W = tot // (ns * niter)
        if niter == 1:
            L, off, raws = vh.cl_residual_map(ift, sc, run, W, ns, extract)
        else:
            # only the last iteration's samples are returned; script zeros for earlier iterations
            L, off, raws = _residual_map_last_iter(ift, sc, run, W, ns, niter, extract)
    if len(minis) != len(raws) + 1:
        raise RuntimeError("harness: one minimiser per driver run expected")
    for (todo, res), mm in zip(raws, minis[1:]):
        got = vh.cl_vec(mir, res[1])
        _claimed_convergence(ck, mm, mini_kind)
        _cmp_mean(ck, f"mean-mismatch:cl:optimize_kl:mgvi:{mini_kind}",
                  "classic optimize_kl MGVI mean (mirrored samples, full convergence) differs from the "
                  "exact posterior mean", got, mean, "cl_mgvi_mean", atol=3e-9)
    if np.max(np.abs(off)) > 1e-12:
        ck.violation("offset-nonzero:cl:optimize_kl", "zero white noise gives a non-zero residual",
                     offset=vh.small(off, 15))
    _cmp_cov(ck, "covariance-mismatch:cl:optimize_kl:mgvi",
             "scripted-noise covariance of the classic optimize_kl MGVI samples differs from the exact "
             "posterior covariance", L, D, "cl_mgvi_cov")


def _residual_map_last_iter(ift, sc, run, W, ns, niter, extract):
    """like vh.cl_residual_map but the driver draws ns samples in each of niter iterations and
    returns only the last iteration's samples; earlier iterations get zero noise."""
    cols, raws, offset, k = {}, [], None, 0
    pre = W * ns * (niter - 1)
    while k < W or offset is None:
        buf = np.zeros(W * ns * niter)
        todo = []
        for j in range(ns):
            if offset is None and j == 0:
                todo.append(None)
                continue
            if k < W:
                buf[pre + j * W + k] = 1.0
                todo.append(k)
                k += 1
            else:
                todo.append(None)
        sc.play(buf)
        res = run()
        consumed = sc.pos
        sc.off()
        if consumed != W * ns * niter:
            raise RuntimeError(f"harness: scripted numbers consumed {consumed} != {W * ns * niter}")
        raws.append((todo, res))
        for j, kk in enumerate(todo):
            v = extract(res, j)
            if kk is None:
                if offset is None:
                    offset = v
            else:
                cols[kk] = v
    return np.stack([cols[i] for i in range(W)], axis=1), offset, raws


# =====================================================================================
# JAX routes
# =====================================================================================
def case_re(ck, rng, fam, m, mir, D, mean, x0, seed, desc, nontriv):
    if not (ck.i is not None and ck.i < 7):
        ck.note(desc, nontrivial=False, klass=fam)
        vh.jax_budget_guard(ck)
    jax, jnp, jft, rs = vh.get_jax(ck)
    r = vh.build_re(jax, jnp, jft, m)
    lh = r["lh"]
    nd, n = mir.nd, mir.n
    W = nd + n
    nk = W + 1
    key = jax.random.PRNGKey(seed)

    if fam in ("wf_sig", "wf_dat"):
        sig = fam == "wf_sig"
        rmap, cgname = [("lmap", "cg"), ("smap", "static_cg"), ("vmap", "static_cg")][
            int(rng.integers(0, 3))]
        lin_flag = bool(rng.integers(0, 3) != 0)
        with_samples = bool(sig or rng.integers(0, 2))
        desc = dict(desc, rmap=rmap, cg=cgname, model_is_linear=lin_flag, samples=with_samples)
        ck.note(desc, nontrivial=nontriv, klass=f"{fam}:{rmap}")
        cg = getattr(jft.conjugate_gradient, cgname)
        ks = jax.random.split(key, nk)
        table, _ = vh.re_basis_table(jax, ks, nd, n)
        Ncov = jnp.asarray(mir.N)
        kw = dict(key=key, n_samples=nk if with_samples else 0, residual_map=rmap,
                  draw_linear_kwargs=dict(cg=cg, cg_kwargs=dict(CGKW)), signal_space=sig,
                  model_is_linear=lin_flag)
        if not sig:
            kw["noise_covariance"] = lambda x: Ncov @ x
        position = None if lin_flag else vh.re_pos(jft, jnp, mir, x0)
        try:
            rs.set_table(table)
            smp, (info, sinfo) = jft.wiener_filter_posterior(lh, position, **kw)
        finally:
            rs.off()
        if info is not None and int(info) != 0:
            raise vh.SkipCase("JAX CG (mean) reported info != 0")
        got = vh.re_vec(mir, smp.pos)
        _cmp_mean(ck, f"mean-mismatch:re:wiener_filter_posterior:{'signal' if sig else 'data'}-space",
                  "wiener_filter_posterior mean differs from the exact posterior mean", got, mean,
                  "wf_signal_mean" if sig else "wf_data_mean")
        if with_samples:
            if not np.all(np.asarray(sinfo) == 0):
                raise vh.SkipCase("JAX CG (samples) reported info != 0")
            A = vh.re_vec(mir, smp._samples, batch=2 * nk)
            if not np.array_equal(A[1::2], -A[0::2]):
                ck.violation("mirror-not-negative:re:wiener_filter_posterior",
                             "mirrored sample is not the exact negative of its partner")
            if np.max(np.abs(A[0::2][W])) > 1e-12:
                ck.violation("offset-nonzero:re:wiener_filter_posterior", "zero white noise gives a "
                             "non-zero residual")
            L = A[0::2][:W].T
            _cmp_cov(ck, "covariance-mismatch:re:wiener_filter_posterior",
                     "scripted-noise covariance of the wiener_filter_posterior samples differs from "
                     "the exact posterior covariance", L, D, "wf_cov")
        return

    # optimize_kl
    mgvi = fam == "re_mgvi"
    ck.note(dict(desc, ns=nk if mgvi else 0), nontrivial=nontriv, klass=fam)
    pos = vh.re_pos(jft, jnp, mir, x0)
    klkw = dict(minimize_kwargs=dict(name=None, xtol=1e-12, maxiter=12,
                                     cg_kwargs=dict(name=None, absdelta=None, resnorm=1e-12,
                                                    miniter=0, maxiter=300)))
    if mgvi:
        key1, sk = jax.random.split(key, 2)                  # OptimizeVI.update
        ks = jax.random.split(sk, nk)                        # draw_samples, *_resample
        table, _ = vh.re_basis_table(jax, ks, nd, n)
    try:
        if mgvi:
            rs.set_table(table)
        smp, st = jft.optimize_kl(lh, pos, key=key, n_total_iterations=1,
                                  n_samples=nk if mgvi else 0,
                                  draw_linear_kwargs=dict(cg_name=None, cg_kwargs=dict(CGKW)),
                                  kl_kwargs=klkw, sample_mode="linear_resample", odir=None)
    finally:
        rs.off()
    got = vh.re_vec(mir, smp.pos)
    if not mgvi:
        _cmp_mean(ck, "mean-mismatch:re:optimize_kl:map",
                  "JAX optimize_kl MAP result differs from the exact posterior mean", got, mean,
                  "re_map_mean")
        return
    if not np.all(np.asarray(st.sample_state) == 0):
        raise vh.SkipCase("JAX CG (samples) reported info != 0")
    if not np.array_equal(np.asarray(smp.keys), np.asarray(ks)):
        raise RuntimeError("harness: optimize_kl derived other sample keys than predicted")
    _cmp_mean(ck, "mean-mismatch:re:optimize_kl:mgvi",
              "JAX optimize_kl MGVI mean differs from the exact posterior mean", got, mean,
              "re_mgvi_mean")
    A = vh.re_vec(mir, smp._samples, batch=2 * nk)
    if not np.array_equal(A[1::2], -A[0::2]):
        ck.violation("mirror-not-negative:re:optimize_kl", "mirrored sample is not the exact negative "
                     "of its partner")
    L = A[0::2][:W].T
    _cmp_cov(ck, "covariance-mismatch:re:optimize_kl:mgvi",
             "scripted-noise covariance of the JAX optimize_kl MGVI samples differs from the exact "
             "posterior covariance", L, D, "re_mgvi_cov")
