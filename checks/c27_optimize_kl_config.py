"""C27 — The classic VI driver accepts every documented configuration.

Workload: a pairwise covering array (greedy, generated from VERIF_SEED, coverage
verified by the harness) over the documented option values of
``nifty.cl.optimize_kl`` on a small 2-key model, plus random rows and
*sequences of two calls in one process* (the driver keeps module globals).
Monitors: RNG-stack monitor (depth, top generator identity, next draws against
a twin) around every call, callback recorder, directory observer (files present
/ files touched by a later call that has no output directory), result-shape and
constants oracles.
"""
import os
import shutil
import tempfile
import itertools

import numpy as np

FACTORS = [
    ("outdir", [False, True]),
    ("sanity_checks", [True, False]),
    ("save_strategy", ["latest", "all"]),
    ("plot_energy_history", [False, True]),
    ("plot_minisanity_history", [False, True]),
    ("constants", ["none", "b", "callable"]),
    ("point_estimates", ["none", "b", "callable"]),
    ("n_samples", [2, 0, "callable"]),
    ("controller", ["set", "none"]),
    ("nonlinear", ["none", "newton"]),
    ("transitions", ["none", "returns_none", "average"]),
    ("inspect", ["none", "one_arg", "two_arg"]),
    ("terminate", ["none", "stop_at_1"]),
    ("fresh", [True, "callable"]),
    ("dry_run", [False, True]),
    ("return_final_position", [False, True]),
    ("resume", [False, True]),
    ("initial_position", ["none", "given"]),
    ("export", ["none", "one_op"]),
]
NAMES = [f for f, _ in FACTORS]
DEFAULT = {f: v[0] for f, v in FACTORS}

META = dict(
    id="C27", level="exploration",
    title="The classic VI driver accepts every documented configuration",
    technique=("covering-array workload over documented options of the real driver; RNG-stack, callback, "
               "file-system and result-consistency monitors around every call"),
    rule=("case i < |CA|: row i of a greedy pairwise covering array over 19 option factors (valid rows: "
          "controller None only with 0 samples, resume only with an output directory), generated from "
          "VERIF_SEED and verified to cover every coverable value pair; further cases: random valid rows "
          "(even) and two-call sequences in one process, the second call without output directory after "
          "the first one's directory was deleted or kept (odd); thorough adds many more random rows / "
          "sequences. non-trivial: row differs from the defaults in >=3 factors; distinct = option row(s)"),
    assumptions=["initial_index, comm (see C22) and device_id are not varied",
                 "a transition is only applied from iteration 1 on (the first sample list is the empty "
                 "initial one)"],
    need=["calls_completed", "rng_stack_checks", "pairs_covered_checks", "callback_events",
          "directory_observations"],
    quick=dict(cases=90, workers=8, budget_s=80),
    thorough=dict(cases=1500, workers=16, budget_s=800),
    design_ref="DESIGN.md §5 C27",
    level_text=("all value pairs of the documented options are exercised on the real driver with monitors on "
                "the RNG stack, callbacks, files and results; not all higher-order combinations"),
    level_note=("small 2-key model with 3 global iterations; plotting via matplotlib Agg; option values are the "
                "listed representatives only"),
)


def valid(row):
    if row["controller"] == "none" and row["n_samples"] != 0:
        return False
    if row["resume"] and not row["outdir"]:
        return False
    return True


def random_row(rng):
    while True:
        row = {f: vals[int(rng.integers(0, len(vals)))] for f, vals in FACTORS}
        if valid(row):
            return row


def covering_array(seed):
    rng = np.random.default_rng([seed, 27, 999])
    # coverable pairs: those that occur in at least one valid row
    pairs = set()
    for (i, (f1, v1s)), (j, (f2, v2s)) in itertools.combinations(enumerate(FACTORS), 2):
        for a in range(len(v1s)):
            for b in range(len(v2s)):
                row = dict(DEFAULT)
                row[f1], row[f2] = v1s[a], v2s[b]
                # try to complete to a valid row
                ok = valid(row)
                if not ok:
                    for _ in range(30):
                        r2 = random_row(rng)
                        r2[f1], r2[f2] = v1s[a], v2s[b]
                        if valid(r2):
                            ok = True
                            break
                if ok:
                    pairs.add((i, a, j, b))
    def row_pairs(row):
        idx = [FACTORS[k][1].index(row[NAMES[k]]) for k in range(len(FACTORS))]
        return {(i, idx[i], j, idx[j]) for i, j in itertools.combinations(range(len(FACTORS)), 2)}
    uncovered = set(pairs)
    rows = []
    while uncovered:
        best, bestc = None, -1
        for _ in range(60):
            r = random_row(rng)
            # bias: force one uncovered pair
            p = list(uncovered)[int(rng.integers(0, len(uncovered)))]
            r[NAMES[p[0]]] = FACTORS[p[0]][1][p[1]]
            r[NAMES[p[2]]] = FACTORS[p[2]][1][p[3]]
            if not valid(r):
                continue
            c = len(row_pairs(r) & uncovered)
            if c > bestc:
                best, bestc = r, c
        if best is None or bestc <= 0:
            continue
        rows.append(best)
        uncovered -= row_pairs(best)
    # verification of coverage (monitored, not assumed)
    cov = set()
    for r in rows:
        cov |= row_pairs(r)
    assert pairs <= cov
    return rows, len(pairs)


# ------------------------------------------------------------------ model ---
def init(ck):
    import sys
    import types
    try:
        import mpi4py.MPI  # noqa
    except Exception:
        m = types.ModuleType("mpi4py")
        mm = types.ModuleType("mpi4py.MPI")

        class Intracomm:
            pass
        mm.Intracomm = Intracomm
        m.MPI = mm
        sys.modules["mpi4py"] = m
        sys.modules["mpi4py.MPI"] = mm
    import nifty.cl as ift
    ck.state["ift"] = ift
    ck.state["ca"], ck.state["npairs"] = covering_array(ck.seed)
    ift.logger.setLevel("ERROR") if hasattr(ift.logger, "setLevel") else None


def build_model(ift, rng):
    dom = ift.RGSpace(4)
    A = ift.FieldAdapter(dom, "a")
    B = ift.FieldAdapter(dom, "b")
    sig = A + B.ptw("tanh")
    data = ift.makeField(dom, rng.standard_normal(4))
    lh = ift.GaussianEnergy(data=data, inverse_covariance=ift.ScalingOperator(dom, 4.0, sampling_dtype=np.float64)) @ sig
    return dom, sig, lh


def run_call(ck, ift, row, rng, workdir, tag):
    """executes one optimize_kl call under the monitors; returns dict of observations"""
    dom, sig, lh = build_model(ift, rng)
    total = 3
    obs = dict(row=row, tag=tag)
    odir = os.path.join(workdir, "out_" + tag) if row["outdir"] else None
    cb_log = []

    kw = {}
    kw["sanity_checks"] = row["sanity_checks"]
    kw["save_strategy"] = row["save_strategy"]
    kw["plot_energy_history"] = row["plot_energy_history"]
    kw["plot_minisanity_history"] = row["plot_minisanity_history"]
    kw["constants"] = {"none": [], "b": ["b"], "callable": (lambda i: ["b"] if i == 0 else [])}[row["constants"]]
    kw["point_estimates"] = {"none": [], "b": ["b"],
                             "callable": (lambda i: ["b"] if i < 2 else [])}[row["point_estimates"]]
    nsamp = {2: 2, 0: 0, "callable": (lambda i: 2 if i == 0 else 0)}[row["n_samples"]]
    ctrl = None if row["controller"] == "none" else ift.AbsDeltaEnergyController(1e-4, iteration_limit=8)
    nl = None if row["nonlinear"] == "none" else ift.NewtonCG(
        ift.AbsDeltaEnergyController(1e-3, iteration_limit=2))
    if row["transitions"] == "none":
        kw["transitions"] = None
    elif row["transitions"] == "returns_none":
        kw["transitions"] = lambda i: None
    else:
        kw["transitions"] = lambda i: (None if i == 0 else (lambda sl: sl.average()))
    def bdigest(sl):
        # value of key 'b' of the list's mean (exact for single-sample and residual lists)
        try:
            m = sl.mean if isinstance(sl, ift.ResidualSampleList) else sl.local_item(0)
            return m["b"].asnumpy().tobytes().hex()
        except Exception as e:  # noqa
            return "err:" + type(e).__name__
    if row["inspect"] == "one_arg":
        kw["inspect_callback"] = lambda sl: cb_log.append(("inspect1", type(sl).__name__, sl.n_samples,
                                                           None, bdigest(sl)))
    elif row["inspect"] == "two_arg":
        kw["inspect_callback"] = lambda sl, i: cb_log.append(("inspect2", type(sl).__name__, sl.n_samples, i,
                                                              bdigest(sl)))
    if row["terminate"] == "stop_at_1":
        def term(i):
            cb_log.append(("terminate", i))
            return i >= 1
        kw["terminate_callback"] = term
    kw["fresh_stochasticity"] = True if row["fresh"] is True else (lambda i: i < 2)
    kw["dry_run"] = row["dry_run"]
    kw["return_final_position"] = row["return_final_position"]
    kw["resume"] = row["resume"]
    init_pos = None
    if row["initial_position"] == "given":
        init_pos = ift.MultiField.from_dict({"a": ift.makeField(dom, rng.standard_normal(4) * 0.1),
                                             "b": ift.makeField(dom, rng.standard_normal(4) * 0.1)})
        kw["initial_position"] = init_pos
    if row["export"] == "one_op":
        kw["export_operator_outputs"] = {"sig": sig}
    kw["output_directory"] = odir
    minimizer = ift.NewtonCG(ift.AbsDeltaEnergyController(1e-3, iteration_limit=3))

    R = ift.random
    depth0 = len(R._sseq)
    top0 = R.current_rng()
    twin_state = top0.bit_generator.state
    ck.hit("rng_stack_checks")
    exc = None
    try:
        res = ift.optimize_kl(lh, total, nsamp, minimizer, ctrl, nonlinear_sampling_minimizer=nl, **kw)
    except Exception as e:  # noqa
        import traceback
        exc = e
        obs["exception"] = f"{type(e).__name__}: {e}"
        obs["tb"] = traceback.format_exc()[-1500:]
        res = None
    obs["depth_before"], obs["depth_after"] = depth0, len(R._sseq)
    obs["top_same"] = R.current_rng() is top0
    # twin: the outer generator may legitimately have been used (initial position draw,
    # spawn); what must hold is stack discipline. (State equality is not required.)
    # repair the stack so that later cases are judged on their own
    while len(R._sseq) > depth0:
        R.pop_sseq()
    obs["cb_log"] = cb_log
    obs["odir"] = odir
    obs["result"] = res
    obs["init_pos"] = init_pos
    obs["exc"] = exc
    return obs


def executed_iterations(row):
    if row["dry_run"]:
        return []
    if row["terminate"] == "stop_at_1":
        return [0, 1]
    return [0, 1, 2]


def judge(ck, ift, obs):
    row = obs["row"]
    tag = obs["tag"]
    if obs["exc"] is not None:
        e = obs["exc"]
        import traceback
        fr = None
        for f in traceback.extract_tb(e.__traceback__):
            if "/nifty/" in f.filename:
                fr = f
        where = f"{os.path.basename(fr.filename)}:{fr.name}" if fr else "?"
        ck.violation(f"valid-config-raises:{type(e).__name__}@{where}",
                     f"optimize_kl raised {obs['exception'][:200]} for a documented configuration",
                     row=row, tb=obs["tb"])
        # still judge the RNG stack below
    else:
        ck.hit("calls_completed")
    if obs["depth_after"] != obs["depth_before"] or not obs["top_same"]:
        why = "exception" if obs["exc"] is not None else \
              ("dry_run" if row["dry_run"] else ("terminate_callback" if row["terminate"] != "none" else "other"))
        if obs["exc"] is None:
            ck.violation(f"rng-stack-not-restored:{why}",
                         f"RNG stack depth {obs['depth_before']} -> {obs['depth_after']} "
                         f"(top generator same object: {obs['top_same']}) after optimize_kl ({why})",
                         row=row)
    if obs["exc"] is not None:
        return
    res = obs["result"]
    its = executed_iterations(row)
    # result shape
    if row["return_final_position"]:
        if not (isinstance(res, tuple) and len(res) == 2):
            ck.violation("return-shape", "return_final_position=True did not return (samples, mean)", row=row)
            return
        sl, mean = res
    else:
        if isinstance(res, tuple):
            ck.violation("return-shape", "return_final_position=False returned a tuple", row=row)
            return
        sl, mean = res, None
    if not isinstance(sl, ift.SampleListBase):
        ck.violation("return-type", f"result is {type(sl).__name__}, not a sample list", row=row)
        return
    ck.hit("result_checks")
    # number of samples
    if its:
        last = its[-1]
        ns = row["n_samples"] if row["n_samples"] != "callable" else (2 if last == 0 else 0)
        want = 1 if ns == 0 else 2 * ns
        if sl.n_samples != want:
            ck.violation("n-samples", f"result has {sl.n_samples} samples, expected {want}", row=row)
        if mean is not None:
            avg = sl.average()
            from vf.clgen import maxdev
            for k in avg.keys():
                if maxdev(avg[k].asnumpy(), mean[k].asnumpy()) > 1e-10 and ns == 0:
                    ck.violation("final-position-mismatch", "returned mean differs from the sample list's mean",
                                 row=row, key=k)
    # constants bit-unchanged
    if its and row["constants"] == "b" and obs["init_pos"] is not None and mean is not None \
            and row["transitions"] != "average":
        ck.hit("constants_checks")
        if mean["b"].asnumpy().tobytes() != obs["init_pos"]["b"].asnumpy().tobytes():
            ck.violation("constant-key-changed", "constant key 'b' changed during optimisation", row=row)
    # callbacks
    log = obs["cb_log"]
    ck.hit("callback_events", len(log) + 1)
    insp = [x for x in log if x[0].startswith("inspect")]
    if row["inspect"] != "none":
        if len(insp) != len(its):
            ck.violation("inspect-callback-count",
                         f"inspect callback called {len(insp)} times for {len(its)} executed iterations", row=row)
        if row["inspect"] == "two_arg" and [x[3] for x in insp] != its[:len(insp)]:
            ck.violation("inspect-callback-index", f"inspect callback indices {[x[3] for x in insp]} != {its}",
                         row=row)
    if row["inspect"] != "none" and row["constants"] == "b" and row["transitions"] != "average" and insp:
        ck.hit("constants_checks")
        ds = [x[4] for x in insp]
        if obs["init_pos"] is not None:
            ds = [obs["init_pos"]["b"].asnumpy().tobytes().hex()] + ds
        if len(set(ds)) != 1:
            ck.violation("constant-key-changed", "constant key 'b' changed between iterations "
                         "(observed through the inspect callback)", row=row)
    term = [x[1] for x in log if x[0] == "terminate"]
    if row["terminate"] != "none" and term != its:
        ck.violation("terminate-callback", f"terminate callback saw iterations {term}, expected {its}", row=row)
    # files
    odir = obs["odir"]
    if odir is not None:
        ck.hit("directory_observations")
        pk = os.path.join(odir, "pickle")
        names = sorted(os.listdir(pk)) if os.path.isdir(pk) else []
        if row["dry_run"]:
            bad = [n for n in names if n.startswith(("latest", "iteration_"))]
            if bad or os.path.exists(os.path.join(odir, "last_finished_iteration")):
                ck.violation("dry-run-wrote-results", f"dry run wrote result files {bad}", row=row)
        elif its:
            lf = os.path.join(odir, "last_finished_iteration")
            got = open(lf).read().strip() if os.path.exists(lf) else None
            if got != str(its[-1]):
                ck.violation("last-finished-iteration", f"last_finished_iteration={got}, expected {its[-1]}",
                             row=row)
            if row["save_strategy"] == "latest":
                if not any(n.startswith("latest.") for n in names) or \
                        any(n.startswith("iteration_") for n in names):
                    ck.violation("save-strategy-files", f"strategy latest but files {names}", row=row)
            else:
                for k in its:
                    if not any(n.startswith(f"iteration_{k}.") for n in names):
                        ck.violation("save-strategy-files", f"strategy all: no sample file for iteration {k}: "
                                     f"{names}", row=row)
                        break
                if any(n.startswith("latest") for n in names):
                    ck.violation("save-strategy-files", f"strategy all but 'latest' files {names}", row=row)
            # persisted samples can be loaded and equal the returned ones
            base = os.path.join(pk, "latest" if row["save_strategy"] == "latest" else f"iteration_{its[-1]}")
            try:
                # loader chosen by the class of the returned list (what a user would do); the
                # driver's own resume-time choice is the subject of C25
                if isinstance(sl, ift.ResidualSampleList):
                    sl2 = ift.ResidualSampleList.load(base)
                else:
                    sl2 = ift.SampleList.load(base)
                from vf.clgen import fbytes
                a = [fbytes(s) for s in sl.iterator()]
                b = [fbytes(s) for s in sl2.iterator()]
                ck.hit("persisted_samples_compared")
                if a != b:
                    ck.violation("persisted-samples-differ", "samples loaded from the output directory differ "
                                 "from the returned ones", row=row)
            except Exception as e:  # noqa
                ck.violation(f"persisted-samples-unloadable:{type(e).__name__}",
                             f"cannot load the saved final samples: {e}", row=row)


def snapshot_dir(d):
    out = {}
    for root, _, files in os.walk(d):
        for f in files:
            p = os.path.join(root, f)
            st = os.stat(p)
            out[os.path.relpath(p, d)] = (st.st_size, st.st_mtime_ns)
    return out


def case(ck, i):
    ift = ck.state["ift"]
    rng = ck.rng()
    ca = ck.state["ca"]
    # reset the driver's module globals at case start (replayability); sequences inside a
    # case exercise their persistence
    import nifty.cl.minimization.optimize_kl as okl
    okl._output_directory = None
    okl._save_strategy = None
    workdir = tempfile.mkdtemp(prefix="c27_", dir=os.environ.get("VERIF_SCRATCH", "/tmp"))
    try:
        if i < len(ca):
            rows = [ca[i]]
            kind = "covering"
            ck.hit("pairs_covered_checks", ck.state["npairs"] if i == 0 else 1)
        elif i % 2 == 0:
            rows = [random_row(rng)]
            kind = "random"
        else:
            r1 = random_row(rng)
            r1["outdir"] = True
            r1["dry_run"] = False
            r2 = random_row(rng)
            r2["outdir"] = False
            r2["resume"] = False
            rows = [r1, r2]
            kind = "sequence"
        ndiff = max(sum(1 for f in NAMES if r[f] != DEFAULT[f]) for r in rows)
        ck.note(dict(kind=kind, rows=rows), nontrivial=ndiff >= 3, klass=kind)
        prev_dir = None
        for j, row in enumerate(rows):
            if kind == "sequence" and j == 1 and prev_dir is not None:
                if rng.integers(0, 2):
                    shutil.rmtree(prev_dir, ignore_errors=True)
                    before = None
                else:
                    before = snapshot_dir(prev_dir)
            obs = run_call(ck, ift, row, rng, workdir, f"{j}")
            judge(ck, ift, obs)
            if kind == "sequence" and j == 1 and prev_dir is not None:
                ck.hit("directory_observations")
                if before is None:
                    if os.path.exists(prev_dir):
                        ck.violation("writes-into-previous-output-directory",
                                     "a call without output_directory re-created / wrote into the (deleted) "
                                     "output directory of an earlier call", rows=rows,
                                     files=sorted(snapshot_dir(prev_dir))[:10])
                else:
                    after = snapshot_dir(prev_dir)
                    if after != before:
                        ch = sorted(set(k for k in set(after) | set(before) if after.get(k) != before.get(k)))
                        ck.violation("writes-into-previous-output-directory",
                                     "a call without output_directory modified files in the output directory "
                                     "of an earlier call", rows=rows, files=ch[:10])
            prev_dir = obs["odir"]
    finally:
        shutil.rmtree(workdir, ignore_errors=True)


def parent_pre(pk):
    rows, npairs = covering_array(pk.seed)
    pk.extra["covering_array_rows"] = len(rows)
    pk.extra["value_pairs_covered"] = npairs
    pk.extra["factors"] = {f: [str(v) for v in vals] for f, vals in FACTORS}
