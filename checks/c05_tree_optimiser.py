"""C05 — Operator-tree optimisation preserves semantics.

Generated sum/product/chain trees with shared leaves, shared sub-trees and
structurally equal but distinct copies (vf/mirror.py, total functions only) are
passed to ``optimise_operator``.  The check observes the returned operator's
domain/target, and values and dense Jacobians of the original and the optimised
operator at many random points (not the single self-check point), and pins both
to the independent jax mirror.
"""
import numpy as np

META = dict(
    id="C05", level="exploration",
    title="Operator-tree optimisation preserves semantics",
    technique="differential execution optimised vs original vs independent jax mirror at many "
              "points; dense Jacobians; structure change detected from the operator repr",
    rule=("random SSA programs of _OpSum/_OpProd/_OpChain nodes (4-14 nodes beyond the leaves) "
          "over a MultiDomain with 2-4 keys on one common domain; leaves are FieldAdapters, "
          "linear leaves (scaling, DiagonalOperator, Adder, MatrixProductOperator, reshapes) and "
          "total point-wise nonlinearities; nodes are re-used as operands (same Python object = "
          "shared leaf / shared sub-tree, p=0.5) and definitions are cloned (structurally equal, "
          "distinct objects); 20 (quick) / 100 (thorough) random points per tree. non-trivial: "
          "tree has >= 1 shared leaf or shared sub-tree and the optimiser returned a "
          "structurally different tree (repr differs); distinct = distinct program"),
    assumptions=[
        "all C03 mirror assumptions; only functions defined on all reals are generated because "
        "the optimiser's built-in self-check draws its own standard-normal point",
        "a tree that optimise_operator rejects with its own self-check AssertionError is "
        "skipped (DESIGN note) and counted (selfcheck_rejected*; more than 10% -> INCONCLUSIVE); "
        "any other exception is a violation"],
    need=["trees", "points", "value_cmp", "jac_cmp", "mirror_value_cmp", "mirror_jac_cmp",
          "structure_changed", "shared_subtree_trees", "shared_leaf_trees", "cloned_trees",
          "trees_with_shared_operator_objects", "same_object_above_two_keys",
          "family:same-obj-two-keys", "family:nested-leaf-sharing", "family:leaf-chains-one-key",
          "family:subtree-with-chains-on-top", "family:obj-on-two-subtrees",
          "family:two-groups"],
    quick=dict(cases=240, workers=6, budget_s=75),
    thorough=dict(cases=1500, workers=16, budget_s=780),
    design_ref="DESIGN.md §5 C05",
    level_text=("random trees with explicit sharing, many points per tree, value and dense "
                "Jacobian compared between original, optimised and mirror; exploration"),
    level_note="trusts jax and the mirror; structure change judged from repr()",
    max_skip_fraction=0.1,
)

RTOL = 1e-9


def init(ck):
    import nifty.cl as ift
    import jax
    jax.config.update("jax_enable_x64", True)
    import vf.mirror as mr
    import logging
    import warnings
    ift.logger.setLevel(logging.ERROR)
    warnings.filterwarnings("ignore", message="Operator should be defined on a MultiDomain")
    ck.state["ift"], ck.state["mr"] = ift, mr


def clone_some(rng, prog, p=0.35):
    """replace some operand references by references to a fresh copy of the referenced node's
    definition (same children): structurally equal but distinct objects"""
    nodes = [list(nd) for nd in prog["nodes"]]
    out, remap, ncl = [], {}, 0
    from vf.mirror import Gen
    for i, nd in enumerate(nodes):
        nd = Gen.rename(nd, remap) if nd[0] not in ("var", "vars") else nd
        ch = Gen.children(nd)
        if ch and rng.random() < p:
            j = ch[int(rng.integers(0, len(ch)))]
            out.append(list(out[j]))          # fresh copy of the definition
            new = len(out) - 1
            ncl += 1
            done = [False]

            def sub(v):
                if v == j and not done[0]:
                    done[0] = True
                    return new
                return v
            if nd[0] in ("ptw", "app"):
                nd[2] = sub(nd[2])
            elif nd[0] in ("add", "sub", "mul"):
                nd[1] = sub(nd[1])
                nd[2] = sub(nd[2])
            else:
                nd[1] = sub(nd[1])
        out.append(nd)
        remap[i] = len(out) - 1
    prog = dict(prog)
    prog["nodes"] = out
    return prog, ncl


def same_obj_on_two_keys(prog):
    """is one operator object applied directly to the leaves of two different keys?"""
    seen = {}
    for nd in prog["nodes"]:
        if nd[0] == "app" and prog["nodes"][nd[2]][0] == "var":
            seen.setdefault(nd[1], set()).add(prog["nodes"][nd[2]][1])
    return any(len(v) > 1 for v in seen.values())


def sharing(prog, mr):
    nodes = prog["nodes"]
    refs = {}
    for nd in nodes:
        for j in mr.Gen.children(nd):
            refs[j] = refs.get(j, 0) + 1
    # reachable only
    leaf = sum(1 for j, n in refs.items() if n > 1 and nodes[j][0] == "var")
    # a "leaf" for the optimiser is a chain ending in a FieldAdapter: unary chains over a var
    def unary_chain(j):
        while True:
            ch = mr.Gen.children(nodes[j])
            if not ch:
                return True
            if len(ch) > 1:
                return False
            j = ch[0]
    leafchain = sum(1 for j, n in refs.items() if n > 1 and nodes[j][0] != "var"
                    and unary_chain(j))
    sub = sum(1 for j, n in refs.items() if n > 1 and not unary_chain(j))
    return leaf + leafchain, sub


def case(ck, i):
    I, mr = ck.state["ift"], ck.state["mr"]
    rng = ck.rng()
    cfg = dict(md=True, nkeys=(2, 4), cplx=False, steps=(4, ck.pick(11, 14)), total=True,
               maxdepth=ck.pick(7, 9), same_dt=True, p_share=0.5, p_subst=0., jax=False,
               minbin=0 if rng.integers(0, 40) == 0 else 1, linstart=0.2)
    family = None
    if rng.random() < 0.4:
        g = mr.gen_template(rng)
        if g is not None:
            family = g[3]
            g = g[:3]
    else:
        g = mr.gen_program(rng, **cfg)
    if g is None:
        ck.note(dict(gen="failed"), nontrivial=False, klass="gen-failed")
        ck.skip("generator produced no program")
        return
    prog, _, st = g
    ncl = 0
    if family is None and rng.integers(0, 2):
        prog, ncl = clone_some(rng, prog)
    if family:
        ck.hit("family:" + family)
    if any(nd[0] == "app" for nd in prog["nodes"]):
        ck.hit("trees_with_shared_operator_objects")
        if same_obj_on_two_keys(prog):
            ck.hit("same_object_above_two_keys")
    nleaf, nsub = sharing(prog, mr)
    ck.hit("trees")
    if nleaf:
        ck.hit("shared_leaf_trees")
    if nsub:
        ck.hit("shared_subtree_trees")
    if ncl:
        ck.hit("cloned_trees")
    desc = dict(prog=prog)
    klass = ("leafshare" if nleaf else "") + ("+subtree" if nsub else "") + ("+clones" if ncl
                                                                               else "") or "plain"
    if family:
        klass = "T:" + family

    ops = mr.build_nifty(I, prog)
    F = ops[-1]
    dom = mr.input_domain(I, prog)
    if F.domain is not dom:
        ck.note(desc, nontrivial=False, klass=klass)
        ck.violation("domain:" + mr.first_wrong_domain(I, prog, ops), "operator domain is not the union of its "
                     "parts' domains (C03 mechanism)")
        return
    rep0 = repr(F)
    I.random.push_sseq_from_seed(int(rng.integers(0, 2**31)))
    try:
        with np.errstate(all="ignore"):
            G = I.optimise_operator(F)
    except AssertionError:
        if family:
            # template families optimise fine on the reference tree: a rejection is a regression
            ck.note(desc, nontrivial=False, klass=klass)
            ck.hit("selfcheck_rejected")
            ck.violation(f"family-fails:{family}:AssertionError", "optimise_operator rejects "
                         f"(self-check) a tree of the family '{family}', which it is documented "
                         "to handle and handles on the reference tree")
            return
        # the optimiser's own self-check refused its result (DESIGN: skipped, not judged).
        # Diagnostic only: was the refused result really wrong, or was the self-check spurious?
        ck.note(desc, nontrivial=False, klass=klass)
        ck.hit("selfcheck_rejected")
        try:
            from copy import deepcopy
            G0 = I.operator_tree_optimiser._optimise_operator(deepcopy(F))
            x = {k: np.clip(rng.standard_normal(mr.dt_shape(v[0])), -3.5, 3.5)
                 for k, v in prog["inputs"].items()}
            xf = mr.np_to_field(I, dom, x)
            a, b = mr.field_to_np(I, G0(xf)), mr.field_to_np(I, F(xf))
            ck.hit("selfcheck_rejected:result_really_wrong" if not np.allclose(a, b, 1e-9)
                   else "selfcheck_rejected:result_was_right")
        except Exception:
            ck.hit("selfcheck_rejected:result_unusable")
        ck.skip("optimise_operator rejected the tree with its own self-check")
        return
    except Exception as e:
        if mr.nifty_exc_key(e) is None:
            raise
        # mechanism: exception type + innermost function of the optimiser module on the stack
        fn, tb = "?", e.__traceback__
        while tb is not None:
            if tb.tb_frame.f_code.co_filename.endswith("operator_tree_optimiser.py"):
                fn = tb.tb_frame.f_code.co_name
            tb = tb.tb_next
        ck.note(desc, nontrivial=False, klass=klass)
        ck.hit("optimiser_raised")
        if family:
            ck.violation(f"family-fails:{family}:{type(e).__name__}", "optimise_operator raises "
                         f"{type(e).__name__} on a tree of the family '{family}', which it "
                         f"handles on the reference tree: {str(e)[:150]}")
            return
        inner = mr.nifty_exc_key(e).split("@", 1)[1]
        ck.violation(f"raises:optimise_operator:{type(e).__name__}@{fn}:{inner}",
                     f"optimise_operator raised {type(e).__name__}: {str(e)[:200]}",
                     shared_leaves=nleaf, shared_subtrees=nsub, clones=ncl)
        if repr(F) != rep0:
            ck.violation("original-modified", "optimise_operator changed the operator it was "
                         "given (and raised)")
        return
    finally:
        I.random.pop_sseq()
    changed = repr(G) != rep0
    if changed:
        ck.hit("structure_changed")
    if repr(F) != rep0:
        ck.violation("original-modified", "optimise_operator changed the operator it was given")
    ck.note(desc, nontrivial=bool((nleaf or nsub) and changed), klass=klass
            + ("/changed" if changed else "/same"))
    if G.domain is not F.domain or G.target is not F.target:
        ck.violation("domain-target", "optimised operator has a different domain or target",
                     dom=str(G.domain), want=str(F.domain))
        return

    lay = mr.input_layout(prog)
    stats = ck.state.setdefault("ostats", {})
    tm = mr.TracedMirror(prog, len(prog["nodes"]) - 1, stats=stats)
    npts = ck.pick(20, 100)
    for pt in range(npts):
        x = {k: np.clip(rng.standard_normal(mr.dt_shape(v[0])), -3.5, 3.5)
             for k, v in prog["inputs"].items()}
        xvec = lay.pack(x)
        xf = mr.np_to_field(I, dom, x)
        ck.hit("points")
        o = tm.at(xvec)
        if not (np.all(np.isfinite(o.J)) and np.all(np.isfinite(o.vec))) or o.sjac > 1e8:
            ck.hit("points_not_finite")
            continue
        nF = 4          # the original is probed densely at the first points and on any doubt
        try:
            pG = mr.probe_operator(I, G, xf, False, lay, adjoint=(pt == 0), metric=False)
            okv, devv = mr.norm_close(pG.vec0, o.vec, RTOL, o.sval)
            okj, devj = mr.norm_close(pG.J, o.J, RTOL, o.sjac)
            pF = None
            if pt < nF or not (okv and okj):
                pF = mr.probe_operator(I, F, xf, False, lay, adjoint=False, metric=False)
            else:
                vF = F(xf)
        except mr.NiftyRaised as e:
            ck.violation(f"raises:{e.key}", f"evaluation raised: {e}")
            return
        except mr.ProbeDomainError as e:
            ck.violation("domain-of-" + e.what.split()[0], f"{e.what}: unexpected domain")
            return
        ck.hit("value_cmp")
        vecF = pF.vec0 if pF is not None else pG.tlay.pack(mr.field_to_np(I, vF), expand=True)
        ok, dev = mr.norm_close(pG.vec0, vecF, RTOL, o.sval)
        if not ok:
            ck.violation("value:optimised-vs-original", "optimised operator gives a different "
                         "value", reldev=dev, point=pt, klass=klass)
            return
        if pF is not None:
            ck.hit("jac_cmp")
            ok, dev = mr.norm_close(pG.J, pF.J, RTOL, o.sjac)
            if not ok:
                ck.violation("jac:optimised-vs-original", "optimised operator has a different "
                             "Jacobian", reldev=dev, point=pt, klass=klass)
                return
        if pt == 0:
            ok, dev = mr.norm_close(pG.A, pG.tlay.restrict_rows(pG.J).T, RTOL, o.sjac)
            if not ok:
                ck.violation("adjoint:optimised", "Jacobian adjoint of the optimised operator is "
                             "not the transpose", reldev=dev)
                return
        ck.hit("mirror_value_cmp")
        if not okv:
            okF, _ = mr.norm_close(pF.vec0, o.vec, RTOL, o.sval)
            ck.violation("value:optimised-vs-mirror" if okF else "value:both-vs-mirror",
                         "value differs from the mirror", reldev=devv, point=pt)
            return
        ck.hit("mirror_jac_cmp")
        if not okj:
            okF, _ = mr.norm_close(pF.J, o.J, RTOL, o.sjac)
            ck.violation("jac:optimised-vs-mirror" if okF else "jac:both-vs-mirror",
                         "Jacobian differs from jax autodiff of the mirror", reldev=devj, point=pt)
            return


def parent_post(pk):
    """an optimiser that fails (raises or rejects its own result) on a large share of valid
    trees is reported even if every single failure mechanism is a listed finding"""
    t = pk.hits.get("trees", 0)
    bad = pk.hits.get("optimiser_raised", 0) + pk.hits.get("selfcheck_rejected", 0)
    pk.extra["optimiser_failure_fraction"] = round(bad/t, 4) if t else None
    if t >= 40 and bad > 0.2*t:
        pk.violations.append(dict(key="optimise_operator:failure-rate", i=None, desc=None,
                                  what=f"optimise_operator failed on {bad} of {t} valid trees",
                                  witness=dict(raised=pk.hits.get("optimiser_raised", 0),
                                               selfcheck=pk.hits.get("selfcheck_rejected", 0))))


def fini(ck):
    for k, v in ck.state.get("ostats", {}).items():
        ck.hit("oracle:" + k, v)
