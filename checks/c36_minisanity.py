"""C36 — Fit-quality diagnostics report the documented statistics.

Runs ``nifty.cl.extra.minisanity(lh, samples, return_values=True)`` and
``nifty.re.minisanity`` / ``nifty.re.reduced_residual_stats`` on generated likelihoods, models and
sample sets and compares every reported number with statistics computed independently in NumPy
from a mirror of the generated model:

  r = sqrt(N^-1) (model(s) - d)  per sample,
  classic: ndof = #{finite and non-zero}, nigndof = #{NaN} + #{== 0},
           redchisq = mean_samples( sum|r|^2 / ndof ), scmean = mean_samples( sum r / ndof ),
           std = unbiased sample standard deviation (None for one sample), all-ignored keys -> 0, ndof 0;
  JAX:     reduced_chisq = mean_samples( <r,r> / ndof ), mean = mean_samples( sum r / size ),
           ndof = size (2*size for complex), std = population standard deviation.

Cross-implementation: (a) the JAX diagnostic fed with the *same* normalised residuals as the
classic one reports the same means; (b) the same linear-Gaussian model + data + samples set up
with both APIs (each likelihood's own ``normalized_residual``) must report the same reduced
chi^2 and mean.
"""
import numpy as np

from vf.libhelp import ndev, pick

META = dict(
    id="C36", level="exploration",
    title="Fit-quality diagnostics report the documented statistics",
    technique="NumPy mirror of generated likelihood+model+samples; exact statistics compared entry-wise",
    rule=("families: 'cl' (classic minisanity on sums of 1-3 Gaussian likelihood parts with diagonal "
          "noise, named/unnamed, Field and MultiField data, model = mask * nanweights * f(w * latent[key]) "
          "with f in {id, exp, tanh, log}, 1-3 latent keys or a plain DomainTuple, real or complex, "
          "1-5 samples as SampleList or ResidualSampleList, NaNs in data / noise / model output, exact "
          "zeros through masks, all-ignored parts, zeros in the latent samples), 're' "
          "(reduced_residual_stats / minisanity on pytrees of 1-3 leaves, real/complex, Samples with and "
          "without position, plain positions, empty Samples, func in {None, generated, Gaussian "
          "likelihood residual}, map in {vmap, lmap, smap}), 'x' (same model through both APIs). "
          "non-trivial: cl: >= 2 samples and >= 1 ignored entry; re: >= 2 leaves and >= 2 samples; "
          "x: >= 2 samples; distinct = distinct structural descriptor"),
    assumptions=[
        "when NaNs of the model output differ between samples the classic ndof/nigndof (one number per "
        "key) may be that of any sample; redchisq/scmean are always checked per sample",
        "the JAX diagnostics do not document any NaN handling: no NaNs are fed to them",
        "only Gaussian likelihoods with diagonal noise are generated (their normalised residual has a "
        "closed form independent of NIFTy)",
    ],
    need=["cl_cases", "cl_keys_checked", "cl_numbers_checked", "cl_ignored_entries", "re_cases",
          "re_leaves_checked", "x_same_residuals", "x_native"],
    quick=dict(cases=400, workers=6, budget_s=60),
    thorough=dict(cases=12000, workers=16, budget_s=700),
    design_ref="DESIGN.md §5 C36",
    level_text=("every number of the returned dictionaries / stat trees is recomputed independently for "
                "~400 (quick) generated likelihood/sample configurations"),
    level_note=("trusts numpy; tolerance 1e-10 relative (norm-wise per key) ; table strings are only "
                "checked to contain every key"),
)

RTOL = 1e-10


def init(ck):
    import nifty.cl as ift
    import jax
    jax.config.update("jax_enable_x64", True)
    from vf.libhelp import enable_jax_cache
    enable_jax_cache()
    import nifty.re as jft
    import jax.numpy as jnp
    ck.state.update(ift=ift, jft=jft, jax=jax, jnp=jnp)


# ------------------------------------------------------------------------------------------
# NumPy statistics (the oracle)
# ------------------------------------------------------------------------------------------
def cl_stats(rs):
    """rs: list (one per sample) of normalised-residual arrays of one key"""
    red, sc, nd, ni = [], [], [], []
    for r in rs:
        r = np.asarray(r)
        isn = np.isnan(r)
        isz = (r == 0)
        l = r.size - int(isn.sum()) - int(isz.sum())
        ok = ~isn
        s2 = np.sum(np.abs(r[ok]) ** 2)
        s1 = np.sum(r[ok])
        red.append(s2 / l if l > 0 else 0.0)
        sc.append(s1 / l if l > 0 else 0.0 * s1)
        nd.append(l)
        ni.append(int(isn.sum()) + int(isz.sum()))
    red, sc = np.array(red), np.array(sc)
    n = len(rs)

    def ms(x):
        m = np.mean(x)
        sd = None if n < 2 else float(np.sqrt(np.sum(np.abs(x - m) ** 2) / (n - 1)))
        return m, sd
    return dict(red=ms(red), sc=ms(sc), ndof=nd, nign=ni)


def re_stats(rs):
    """rs: array with leading sample axis"""
    rs = np.asarray(rs)
    n = rs.shape[0]
    size = int(np.prod(rs.shape[1:]))
    ndof = 2 * size if np.iscomplexobj(rs) else size
    mean = np.array([np.sum(rs[i]) / size for i in range(n)])
    rx = np.array([np.sum(np.abs(rs[i]) ** 2) / ndof for i in range(n)])
    return dict(mean=(np.mean(mean), np.std(mean)), rx=(np.mean(rx), np.std(rx)), ndof=ndof)


F_NP = dict(id=lambda x: x, exp=np.exp, tanh=np.tanh, log=np.log)


# ------------------------------------------------------------------------------------------
# generated model (shared by the NIFTy builders and the NumPy mirror)
# ------------------------------------------------------------------------------------------
def gen_shape(rng):
    if rng.integers(0, 4) == 0:
        return (int(rng.integers(1, 4)), int(rng.integers(1, 4)))
    return (int(rng.integers(1, 9)),)


def gen_model(rng, cplx, allow_nan=True, allow_mask=True, allow_log=True, nkeys=None):
    """latent keys + likelihood parts (all arrays generated here)"""
    L = int(rng.integers(1, 4)) if nkeys is None else nkeys
    lat = {f"x{j}": gen_shape(rng) for j in range(L)}
    K = int(rng.integers(1, 4))
    parts = []
    for k in range(K):
        multi = rng.integers(0, 5) == 0
        subs = ["u", "v"] if multi else [None]
        sp = []
        for sub in subs:
            a = pick(rng, sorted(lat))
            shp = lat[a]
            f = "id" if cplx else pick(rng, ["id", "id", "exp", "tanh"] + (["log"] if allow_log else []))
            if f == "log" and rng.integers(0, 2):
                f = "id"
            w = rng.uniform(0.3, 1.5, shp) * rng.choice([-1.0, 1.0], shp)
            d = rng.standard_normal(shp) * 2
            if cplx:
                d = d + 1j * rng.standard_normal(shp) * 2
            iv = np.exp(rng.uniform(-2, 2, shp))
            mask = nanw = None
            size = int(np.prod(shp))
            nd_nan = ni_nan = 0
            if allow_mask and rng.integers(0, 3) == 0:
                mask = (rng.uniform(size=shp) < 0.6).astype(float)
                if rng.integers(0, 6) == 0:
                    mask[...] = 0.0                        # everything flagged
            if allow_nan:
                if rng.integers(0, 4) == 0:
                    m = rng.uniform(size=shp) < 0.3
                    d = d.copy()
                    if cplx and rng.integers(0, 2):
                        d[m] = d[m].real + 1j * np.nan        # NaN in the imaginary part only
                    else:
                        d[m] = np.nan
                    nd_nan = int(m.sum())
                if rng.integers(0, 4) == 0:
                    m = rng.uniform(size=shp) < 0.3
                    iv = iv.copy()
                    iv[m] = np.nan
                    ni_nan = int(m.sum())
                if rng.integers(0, 5) == 0:
                    nanw = np.ones(shp)
                    nanw[rng.uniform(size=shp) < 0.3] = np.nan
                if rng.integers(0, 25) == 0:
                    d = np.full(shp, np.nan) + (0j if cplx else 0)   # everything NaN
            sp.append(dict(sub=sub, a=a, f=f, w=w, d=d, iv=iv, mask=mask, nanw=nanw,
                           desc=dict(sub=sub, key=a, f=f, shape=list(shp), mask=None if mask is None
                                     else int((mask == 0).sum()), nan_d=nd_nan, nan_iv=ni_nan,
                                     nan_model=None if nanw is None else int(np.isnan(nanw).sum()))))
        name = f"lh{k}" if rng.integers(0, 2) else None
        parts.append(dict(name=name, multi=multi, subs=sp))
    return lat, parts


def np_model(sp, x):
    """mirror of one (sub-)part: normalised residual for latent dict x"""
    m = F_NP[sp["f"]](sp["w"] * x[sp["a"]])
    if sp["nanw"] is not None:
        m = sp["nanw"] * m
    d = sp["d"]
    if sp["mask"] is not None:
        m = sp["mask"] * m
        d = d * sp["mask"]
    return np.sqrt(sp["iv"]) * (m - d)


def np_signal(sp, x):
    m = F_NP[sp["f"]](sp["w"] * x[sp["a"]])
    if sp["nanw"] is not None:
        m = sp["nanw"] * m
    if sp["mask"] is not None:
        m = sp["mask"] * m
    return m


def expected_keys(parts):
    """data-residual keys as documented: single likelihood: its name or '<None>' (sub-keys for
    MultiField data); sums: '<name or Likelihood i>' resp. '<name>: <subkey>'"""
    out = {}
    if len(parts) == 1:
        p = parts[0]
        if p["multi"]:
            for sp in p["subs"]:
                out[sp["sub"]] = sp
        else:
            out[p["name"] if p["name"] is not None else "<None>"] = p["subs"][0]
        return out
    for i, p in enumerate(parts):
        nm = p["name"] if p["name"] is not None else f"Likelihood {i}"
        if p["multi"]:
            for sp in p["subs"]:
                out[f"{nm}: {sp['sub']}"] = sp
        else:
            out[nm] = p["subs"][0]
    return out


def build_cl(ift, lat, parts, cplx, single_latent):
    dt = np.complex128 if cplx else np.float64
    doms = {k: (ift.UnstructuredDomain(s) if (len(s) > 1 or hash(k) % 2) else ift.RGSpace(s))
            for k, s in lat.items()}
    if single_latent:
        (k0,) = list(lat)
        latdom = ift.DomainTuple.make(doms[k0])
    else:
        latdom = ift.MultiDomain.make(doms)
    lhs = []
    for p in parts:
        ops, ds, ivs = {}, {}, {}
        for sp in p["subs"]:
            dom = ift.DomainTuple.make(doms[sp["a"]])
            if single_latent:
                op = ift.ScalingOperator(dom, 1.0)
            else:
                op = ift.FieldAdapter(dom, sp["a"])
            op = ift.makeOp(ift.makeField(dom, sp["w"])) @ op
            if sp["f"] != "id":
                op = op.ptw(sp["f"])
            if sp["nanw"] is not None:
                op = ift.makeOp(ift.makeField(dom, sp["nanw"])) @ op
            d = sp["d"]
            if sp["mask"] is not None:
                op = ift.makeOp(ift.makeField(dom, sp["mask"])) @ op
                d = d * sp["mask"]
            ops[sp["sub"]], ds[sp["sub"]], ivs[sp["sub"]] = op, ift.makeField(dom, d.astype(dt)), \
                ift.makeField(dom, sp["iv"])
        if p["multi"]:
            model = None
            for sub, op in ops.items():
                t = ift.FieldAdapter(op.target, sub).adjoint @ op
                model = t if model is None else model + t
            data = ift.MultiField.from_dict(ds)
            icov = ift.makeOp(ift.MultiField.from_dict(ivs), sampling_dtype=dt)
        else:
            model, data = ops[None], ds[None]
            icov = ift.makeOp(ivs[None], sampling_dtype=dt)
        lh = ift.GaussianEnergy(data, icov)
        if p["name"] is not None and hash(p["name"]) % 2:
            lh.name = p["name"]
            lh = lh @ model
        else:
            lh = lh @ model
            if p["name"] is not None:
                lh.name = p["name"]
        lhs.append(lh)
    tot = lhs[0]
    for l in lhs[1:]:
        tot = tot + l
    return tot, latdom


def gen_samples(rng, lat, cplx, ns, zeros=False):
    out = []
    zpos = {k: (rng.uniform(size=s) < 0.25) for k, s in lat.items()} if zeros else None
    for _ in range(ns):
        x = {}
        for k, s in lat.items():
            v = rng.standard_normal(s)
            if cplx:
                v = v + 1j * rng.standard_normal(s)
            x[k] = v
        out.append(x)
    return out, zpos


def chk(ck, bad, what, obs, exp, hit, rtol=RTOL, atol=0.0, **w):
    ck.hit(hit)
    if exp is None or obs is None:
        if not (exp is None and obs is None):
            bad(what, observed=repr(obs), expected=repr(exp), **w)
            return False
        return True
    o, e = np.asarray(obs), np.asarray(exp)
    if np.iscomplexobj(o) != np.iscomplexobj(e) and np.iscomplexobj(e) is False and \
            np.max(np.abs(np.imag(o))) > 0:
        bad(what, observed=repr(obs), expected=repr(exp), **w)
        return False
    sc = max(np.max(np.abs(o)), np.max(np.abs(e)), 1e-300) if np.all(np.isfinite(e)) else 1.0
    if not np.all(np.isfinite(e)) or not np.all(np.isfinite(o)):
        same = np.array_equal(np.isnan(o), np.isnan(e)) and ndev(o, e) <= rtol
    else:
        same = bool(np.max(np.abs(o - e)) <= rtol * sc + atol)
    if not same:
        bad(what, observed=repr(obs), expected=repr(exp), **w)
    return same


# ------------------------------------------------------------------------------------------
def case_cl(ck, rng):
    ift = ck.state["ift"]
    cplx = rng.integers(0, 5) == 0
    lat, parts = gen_model(rng, cplx)
    single_latent = len(lat) == 1 and rng.integers(0, 2) == 0
    lh, latdom = build_cl(ift, lat, parts, cplx, single_latent)
    ns = int(pick(rng, [1, 2, 3, 3, 4, 5]))
    use_res = rng.integers(0, 3) == 0
    zeros = rng.integers(0, 6) == 0 and not any(sp["f"] == "log" for p in parts for sp in p["subs"])
    dt = np.complex128 if cplx else np.float64

    def mk(x):
        if single_latent:
            (k0,) = list(lat)
            return ift.makeField(latdom, np.asarray(x[k0], dtype=dt))
        return ift.MultiField.from_dict({k: ift.makeField(latdom[k], np.asarray(v, dtype=dt))
                                         for k, v in x.items()})
    if use_res:
        (mean,), zpos = gen_samples(rng, lat, cplx, 1, zeros)
        res, _ = gen_samples(rng, lat, cplx, ns)
        neg = [bool(b) for b in rng.integers(0, 2, ns)]
        if zpos is not None:
            for k in lat:
                mean[k][zpos[k]] = 0.0
                for r in res:
                    r[k][zpos[k]] = 0.0
        xs = [{k: (mean[k] - r[k]) if n else (mean[k] + r[k]) for k in lat} for r, n in zip(res, neg)]
        sl = ift.ResidualSampleList(mk(mean), [mk(r) for r in res], neg)
    else:
        xs, zpos = gen_samples(rng, lat, cplx, ns, zeros)
        if zpos is not None:
            for x in xs:
                for k in lat:
                    x[k][zpos[k]] = 0.0
        sl = ift.SampleList([mk(x) for x in xs])

    desc = dict(fam="cl", cplx=bool(cplx), latent={k: list(s) for k, s in lat.items()},
                single_latent=bool(single_latent), ns=ns, residual_list=bool(use_res),
                latent_zeros=bool(zeros),
                parts=[dict(name=p["name"], subs=[sp["desc"] for sp in p["subs"]]) for p in parts])
    seen = set()

    def bad(what, **w):
        key = w.pop("key")
        if key not in seen:
            seen.add(key)
            ck.violation(key, what, **w)

    with np.errstate(all="ignore"):
        out = ift.extra.minisanity(lh, sl, terminal_colors=bool(rng.integers(0, 2)),
                                   return_values=True)
        string, vals = out
        ck.hit("cl_cases")
        exp_keys = expected_keys(parts)
        got_keys = sorted(vals["redchisq"]["data_residuals"].keys())
        if got_keys != sorted(exp_keys):
            bad("data-residual keys differ from the documented naming", key="cl:data-keys",
                observed=got_keys, expected=sorted(exp_keys))
            ck.note(desc, False, "cl")
            return
        lkeys = ["<None>"] if single_latent else sorted(lat)
        if sorted(vals["redchisq"]["latent_variables"].keys()) != lkeys:
            bad("latent keys differ", key="cl:latent-keys",
                observed=sorted(vals["redchisq"]["latent_variables"].keys()), expected=lkeys)
            ck.note(desc, False, "cl")
            return
        n_ign = 0
        groups = [("data_residuals", {k: [np_model(sp, x) for x in xs] for k, sp in exp_keys.items()}),
                  ("latent_variables", {("<None>" if single_latent else k): [x[k] for x in xs]
                                        for k in lat})]
        for grp, rsd in groups:
            for k, rs in rsd.items():
                st = cl_stats(rs)
                ck.hit("cl_keys_checked")
                tag = "data" if grp == "data_residuals" else "latent"
                o = vals["redchisq"][grp][k]
                chk(ck, bad, f"redchisq mean of {grp}[{k}] differs", o["mean"], st["red"][0],
                    "cl_numbers_checked", key=f"cl:redchisq-mean:{tag}")
                chk(ck, bad, f"redchisq std of {grp}[{k}] differs", o["std"], st["red"][1],
                    "cl_numbers_checked", key=f"cl:redchisq-std:{tag}", rtol=1e-7,
                    atol=1e-9 * abs(st["red"][0]))
                o = vals["scmean"][grp][k]
                chk(ck, bad, f"scmean mean of {grp}[{k}] differs", o["mean"], st["sc"][0],
                    "cl_numbers_checked", key=f"cl:scmean-mean:{tag}")
                chk(ck, bad, f"scmean std of {grp}[{k}] differs", o["std"], st["sc"][1],
                    "cl_numbers_checked", key=f"cl:scmean-std:{tag}", rtol=1e-7,
                    atol=1e-9 * abs(st["sc"][0]))
                ond, oni = int(vals["ndof"][grp][k]), int(vals["nigndof"][grp][k])
                ck.hit("cl_numbers_checked", 2)
                if (ond, oni) not in set(zip(st["ndof"], st["nign"])):
                    bad(f"ndof/nigndof of {grp}[{k}] differ", key=f"cl:ndof:{tag}",
                        observed=[ond, oni], expected=[st["ndof"], st["nign"]])
                n_ign += max(st["nign"])
                if max(st["ndof"]) == 0:
                    ck.hit("cl_all_ignored_keys")
                if k not in string and not (len(k) > 42):
                    bad("table string does not mention a key", key="cl:table-string", missing=k)
        ck.hit("cl_ignored_entries", n_ign)
    ck.note(desc, nontrivial=(ns >= 2 and n_ign >= 1), klass="cl" + ("-complex" if cplx else ""))


# ------------------------------------------------------------------------------------------
def case_re(ck, rng):
    jft, jnp, jax = ck.state["jft"], ck.state["jnp"], ck.state["jax"]
    nl = int(rng.integers(1, 4))
    cplx = [bool(rng.integers(0, 4) == 0) for _ in range(nl)]
    shapes = {f"k{j}": gen_shape(rng) for j in range(nl)}
    mode = pick(rng, ["samples+pos", "samples+pos", "samples", "position", "empty"])
    ns = int(pick(rng, [1, 2, 3, 4, 5]))
    mp = pick(rng, ["vmap", "lmap", "smap", "v", "l", "s"])
    fk = pick(rng, [None, "affine", "exp", "gauss", "nested"])
    struct = pick(rng, ["dict", "dict", "vector", "array"]) if nl == 1 else pick(rng, ["dict", "dict", "vector"])

    def rnd(shp, c):
        v = rng.standard_normal(shp)
        return v + 1j * rng.standard_normal(shp) if c else v
    pos = {k: rnd(s, c) for (k, s), c in zip(shapes.items(), cplx)}
    smp = {k: rnd((ns,) + s, c) for (k, s), c in zip(shapes.items(), cplx)}

    def wrap(t):
        if struct == "array":
            return jnp.asarray(t["k0"])
        t = {k: jnp.asarray(v) for k, v in t.items()}
        return jft.Vector(t) if struct == "vector" else t

    if mode == "samples+pos":
        inp = jft.Samples(pos=wrap(pos), samples=wrap(smp))
        full = {k: pos[k][None] + smp[k] for k in shapes}
    elif mode == "samples":
        inp = jft.Samples(pos=None, samples=wrap(smp))
        full = smp
    elif mode == "position":
        inp = wrap(pos)
        full = {k: pos[k][None] for k in shapes}
    else:
        inp = jft.Samples(pos=wrap(pos), samples=None)
        full = {k: pos[k][None] for k in shapes}
    nsamp = next(iter(full.values())).shape[0]

    # func: generated per-leaf maps with a NumPy twin
    a = {k: float(np.round(rng.uniform(0.5, 2), 3)) for k in shapes}
    b = {k: float(np.round(rng.uniform(-1, 1), 3)) for k in shapes}
    dat = {k: rng.standard_normal(s) for k, s in shapes.items()}
    iv = {k: np.exp(rng.uniform(-1, 1, s)) for k, s in shapes.items()}

    def unwrap(t):
        if struct == "array":
            return {"k0": t}
        return t.tree if struct == "vector" else t

    func = None
    if fk is None:
        exp_tree = full
    elif fk == "affine":
        func = lambda t: {k: a[k] * v + b[k] for k, v in unwrap(t).items()}        # noqa
        exp_tree = {k: a[k] * v + b[k] for k, v in full.items()}
    elif fk == "exp":
        func = lambda t: jft.Vector({k: jnp.exp(a[k] * v.real) for k, v in unwrap(t).items()})  # noqa
        exp_tree = {k: np.exp(a[k] * v.real) for k, v in full.items()}
    elif fk == "nested":
        func = lambda t: {"o": {k: b[k] - v for k, v in unwrap(t).items()},        # noqa
                          "s": sum(jnp.sum(v.real) for v in unwrap(t).values()) * jnp.ones(2)}
        exp_tree = {"o/" + k: b[k] - v for k, v in full.items()}
        exp_tree["s"] = np.stack([sum(np.sum(v[i].real) for v in full.values()) * np.ones(2)
                                  for i in range(nsamp)])
    else:  # the JAX Gaussian likelihood's own normalised residual: noise_std_inv(d - s)
        dd = jft.Vector({k: jnp.asarray(v) for k, v in dat.items()})
        V = jft.Vector
        lh = jft.Gaussian(
            dd, noise_cov_inv=lambda x: V({k: iv[k] * v for k, v in x.tree.items()}),
            noise_std_inv=(lambda x: V({k: np.sqrt(iv[k]) * v for k, v in x.tree.items()}))
            if rng.integers(0, 2) else None)
        lh = lh.amend(lambda t: V({k: a[k] * v.real for k, v in unwrap(t).items()}))
        func = lh.normalized_residual
        exp_tree = {k: np.sqrt(iv[k]) * (dat[k] - a[k] * v.real) for k, v in full.items()}

    api = pick(rng, ["stats", "minisanity"])
    if api == "stats":
        tree = jft.reduced_residual_stats(inp, func, map=mp)
        string = None
    else:
        tree, string = jft.minisanity(inp, func, map=mp)
    ck.hit("re_cases")
    desc = dict(fam="re", shapes={k: list(s) for k, s in shapes.items()}, cplx=cplx, mode=mode, ns=ns,
                map=mp, func=fk, struct=struct, api=api)

    # flatten observed tree to path -> ChiSqStats
    from nifty.re.minisanity import ChiSqStats
    obs = {}

    def walk(t, pre):
        if isinstance(t, ChiSqStats):
            obs[pre] = t
        elif isinstance(t, jft.Vector):
            walk(t.tree, pre)
        elif isinstance(t, dict):
            for k, v in t.items():
                walk(v, (pre + "/" if pre else "") + str(k))
        else:
            obs[pre] = t
    walk(tree, "")
    if struct == "array" and fk in (None,):
        exp_flat = {"": exp_tree["k0"]}
    else:
        exp_flat = exp_tree
    seen = set()

    def bad(what, **w):
        key = w.pop("key")
        if key not in seen:
            seen.add(key)
            ck.violation(key, what, **w)
    if sorted(obs) != sorted(exp_flat):
        bad("stat tree structure differs from the structure of func's output", key="re:tree-structure",
            observed=sorted(obs), expected=sorted(exp_flat))
    else:
        for k, r in exp_flat.items():
            st = re_stats(r)
            o = obs[k]
            ck.hit("re_leaves_checked")
            if not isinstance(o, ChiSqStats):
                bad("leaf is not a ChiSqStats", key="re:leaf-type", leaf=k)
                continue
            chk(ck, bad, f"mean [avg, std] of leaf {k} differs", np.asarray(o.mean),
                np.array(st["mean"]), "re_numbers_checked", key="re:mean", rtol=1e-9,
                atol=1e-9 * abs(st["mean"][0]))
            chk(ck, bad, f"reduced_chisq [avg, std] of leaf {k} differs", np.asarray(o.reduced_chisq),
                np.array(st["rx"]), "re_numbers_checked", key="re:reduced_chisq", rtol=1e-9,
                atol=1e-9 * abs(st["rx"][0]))
            ck.hit("re_numbers_checked")
            if int(o.ndof) != st["ndof"]:
                bad(f"ndof of leaf {k} differs", key="re:ndof", observed=int(o.ndof),
                    expected=st["ndof"])
            if string is not None:
                leafname = k.split("/")[-1]
                if leafname and leafname not in string:
                    bad("minisanity string does not mention a leaf", key="re:string", missing=k)
    ck.note(desc, nontrivial=(len(exp_flat) >= 2 and nsamp >= 2), klass="re")


# ------------------------------------------------------------------------------------------
def case_x(ck, rng):
    """the same real Gaussian model through both APIs; no ignored entries"""
    ift, jft, jnp = ck.state["ift"], ck.state["jft"], ck.state["jnp"]
    lat, parts = gen_model(rng, False, allow_nan=False, allow_mask=False, allow_log=False)
    parts = [p for p in parts if not p["multi"]] or None
    if parts is None:
        lat, parts = gen_model(rng, False, allow_nan=False, allow_mask=False, allow_log=False, nkeys=1)
        parts = [dict(p, multi=False, subs=p["subs"][:1]) for p in parts]
        for p in parts:
            p["subs"][0]["sub"] = None
    for i, p in enumerate(parts):
        p["name"] = f"lh{i}"
    lh, latdom = build_cl(ift, lat, parts, False, False)
    ns = int(pick(rng, [1, 2, 3, 4]))
    xs, _ = gen_samples(rng, lat, False, ns)
    sl = ift.SampleList([ift.MultiField.from_dict({k: ift.makeField(latdom[k], v) for k, v in x.items()})
                         for x in xs])
    _, vals = ift.extra.minisanity(lh, sl, terminal_colors=False, return_values=True)
    desc = dict(fam="x", latent={k: list(s) for k, s in lat.items()}, ns=ns,
                parts=[dict(name=p["name"], subs=[sp["desc"] for sp in p["subs"]]) for p in parts])
    seen = set()

    def bad(what, **w):
        key = w.pop("key")
        if key not in seen:
            seen.add(key)
            ck.violation(key, what, **w)

    # (a) same residuals: the classic likelihood's normalised residuals fed to the JAX diagnostic
    nres = [lh.normalized_residual(s) for s in sl.iterator()]
    stack = {k: jnp.asarray(np.stack([np.asarray(r[k].asnumpy()) for r in nres])) for k in nres[0].keys()} \
        if isinstance(nres[0], ift.MultiField) else \
        {parts[0]["name"]: jnp.asarray(np.stack([np.asarray(r.asnumpy()) for r in nres]))}
    tree = jft.reduced_residual_stats(jft.Samples(pos=None, samples=stack))
    for k in stack:
        ck.hit("x_same_residuals")
        chk(ck, bad, f"same residuals: reduced chi^2 of {k} differs between cl and re",
            np.asarray(tree[k].reduced_chisq)[0], vals["redchisq"]["data_residuals"][k]["mean"],
            "x_numbers", key="x:same-residuals:redchisq", rtol=1e-12)
        chk(ck, bad, f"same residuals: mean of {k} differs between cl and re",
            np.asarray(tree[k].mean)[0], vals["scmean"]["data_residuals"][k]["mean"],
            "x_numbers", key="x:same-residuals:mean", rtol=1e-12)
        if int(tree[k].ndof) != int(vals["ndof"]["data_residuals"][k]):
            bad("same residuals: ndof differs", key="x:same-residuals:ndof")
    # latent statistics
    lt = jft.reduced_residual_stats(jft.Samples(
        pos=None, samples={k: jnp.asarray(np.stack([x[k] for x in xs])) for k in lat}))
    for k in lat:
        ck.hit("x_same_residuals")
        chk(ck, bad, f"latent reduced chi^2 of {k} differs between cl and re",
            np.asarray(lt[k].reduced_chisq)[0], vals["redchisq"]["latent_variables"][k]["mean"],
            "x_numbers", key="x:latent:redchisq", rtol=1e-12)
        chk(ck, bad, f"latent mean of {k} differs between cl and re",
            np.asarray(lt[k].mean)[0], vals["scmean"]["latent_variables"][k]["mean"],
            "x_numbers", key="x:latent:mean", rtol=1e-12)

    # (b) native: the same model/data/noise as a nifty.re likelihood
    lhs = []
    for p in parts:
        sp = p["subs"][0]
        f = dict(id=lambda v: v, exp=jnp.exp, tanh=jnp.tanh)[sp["f"]]
        g = jft.Gaussian(jnp.asarray(sp["d"]), noise_cov_inv=(lambda x, iv=sp["iv"]: iv * x),
                         noise_std_inv=(lambda x, iv=sp["iv"]: np.sqrt(iv) * x))
        lhs.append(g.amend(lambda x, sp=sp, f=f: f(sp["w"] * x[sp["a"]])))
    smp = jft.Samples(pos=None, samples={k: jnp.asarray(np.stack([x[k] for x in xs])) for k in lat})
    for p, l in zip(parts, lhs):
        k = p["name"]
        st = jft.reduced_residual_stats(smp, l.normalized_residual)
        ck.hit("x_native")
        chk(ck, bad, f"native likelihoods: reduced chi^2 of part differs between cl and re",
            np.asarray(st.reduced_chisq)[0], vals["redchisq"]["data_residuals"][k]["mean"],
            "x_numbers", key="x:native:redchisq", rtol=1e-10)
        ck.hit("x_numbers")
        o_re = complex(np.asarray(st.mean)[0])
        o_cl = complex(vals["scmean"]["data_residuals"][k]["mean"])
        sc = max(abs(o_re), abs(o_cl), 1e-300)
        if abs(o_re - o_cl) > 1e-10 * sc:
            if abs(o_re + o_cl) <= 1e-10 * sc:
                # exactly this mechanism and nothing else: equal magnitude, opposite sign
                bad("native Gaussian likelihoods: the mean normalised data residual reported by the "
                    "classic and the JAX diagnostics for the same model, data and samples has opposite "
                    "sign (classic: sqrt(N^-1)(s-d), JAX: sqrt(N^-1)(d-s))",
                    key="x:native:mean-sign-convention", observed_re=repr(o_re), observed_cl=repr(o_cl))
            else:
                bad("native Gaussian likelihoods: the mean normalised data residual differs between "
                    "the classic and the JAX diagnostics (not just by sign)",
                    key="x:native:mean", observed_re=repr(o_re), observed_cl=repr(o_cl))
    ck.note(desc, nontrivial=(ns >= 2), klass="x")


def case(ck, i):
    rng = ck.rng()
    fams = ["cl"] * 6 + ["re"] * 3 + ["x"] * 2
    fam = fams[(i * 4 + int(ck.rng(777).integers(0, len(fams)))) % len(fams)]      # round-robin
    if fam == "cl":
        case_cl(ck, rng)
    elif fam == "re":
        case_re(ck, rng)
    else:
        case_x(ck, rng)
