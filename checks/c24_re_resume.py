"""C24 — The JAX VI driver resumes after a crash with identical results.

Fault enumeration: a reference run of ``nifty.re.optimize_kl`` with an output
directory is executed in a child process under the file-system failpoint layer
(vf/fsfault), which records the numbered list of mutating file-system events.
For every (event, phase) crash point a fresh child is killed (SIGKILL) exactly
there, then a fresh child re-runs the same command with ``resume=True``.
Oracle: the resumed run terminates normally and its final samples/state are
bit-identical to the uninterrupted reference.
"""
from vf.fsfault import crashcheck as CC

META = dict(
    id="C24", level="fault_enumeration",
    title="The JAX VI driver resumes after a crash with identical results",
    technique=("file-system failpoint injection: SIGKILL at every recorded open/write/close/rename event "
               "(before / after / after+flushed / torn) of the real driver, then resume and compare bit-wise"),
    rule=("reference run: 5-parameter nonlinear model, 3 global iterations, 2 mirrored sample pairs, odir; "
          "case = (config, event index, phase). quick: one crash point per (file class, event kind, phase), "
          "taken from the 2nd iteration where an older last.pkl exists; thorough: every event x phase for 4 "
          "configs (linear_resample/nonlinear_resample x callback on/off) + sampled double crashes. "
          "non-trivial: crash point lies inside the rewrite window of the state file or the append of the "
          "report file; distinct = (config, event, phase)"),
    assumptions=["process kills with lost / flushed user-space buffers and torn writes are modelled; loss of "
                 "un-synced page cache after close (power failure) is not",
                 "bit-identity of a resumed run is attainable: established by the control crash points that lie "
                 "after a completed write"],
    need=["crash_children_killed", "resume_runs", "digest_comparisons", "reference_event_lists_equal",
          "audit_crosschecks"],
    quick=dict(cases=24, workers=12, budget_s=70),
    thorough=dict(cases=400, workers=16, budget_s=1500),
    design_ref="DESIGN.md §5 C24",
    level_text=("exhaustive (thorough tier) over the enumerated file-system event list of the given runs x crash "
                "phases; quick tier one representative per event class"),
    level_note=("event list completeness is monitored against sys.addaudithook and (thorough) strace; the model "
                "and iteration counts are small"),
    max_skip_fraction=0.3,
)

CMP_KEYS = ["pos", "samples", "keys", "state_nit", "state_key", "state_sample_state",
            "state_minimization_state", "nit"]


def configs(tier):
    if tier == "quick":
        return [dict(sample_mode="nonlinear_resample", callback=False)]
    return [dict(sample_mode=sm, callback=cb) for sm in ("nonlinear_resample", "linear_resample")
            for cb in (False, True)]


def keyfn(outcome, e, cfg, events):
    fc = CC.fclass(e["path"])
    if outcome.startswith("resume-raises") or outcome.startswith("run-raises"):
        return f"{outcome}@{fc}"
    return f"{outcome}@{fc}:{e['kind']}:{e['phase']}"


def nontrivial(e, ref):
    return CC.fclass(e["path"]) in ("last.pkl", "last.pkl.tmp", "minisanity.txt") or e["kind"] == "rename"


def parent_pre(pk):
    CC.parent_pre(pk, "re", configs(pk.tier), CMP_KEYS, n_double=12, timeout=900)


def init(ck):
    CC.load_plan(ck)


def case(ck, i):
    CC.run_case(ck, i, "re", CMP_KEYS, keyfn, nontrivial, timeout=900)


def parent_post(pk):
    pk.exhaustive = bool(pk.tier == "thorough" and pk.notrun == 0 and not pk.fatal
                         and not getattr(pk, "partial", False) and not pk.skips)
