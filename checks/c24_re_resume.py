"""C24 — The JAX VI driver resumes after a crash with identical results.

Fault enumeration: a reference run of ``nifty.re.optimize_kl`` with an output
directory is executed in a child process under the file-system failpoint layer
(vf/fsfault), which records the numbered list of mutating file-system events.
For every (event, phase) crash point a fresh child is killed (SIGKILL) exactly
there, then a fresh child re-runs the same command with ``resume=True``.
Oracle: the resumed run terminates normally and its final samples/state are
bit-identical to the uninterrupted reference.
"""
import json
import os
import re
import shutil
import threading

META = dict(
    id="C24", level="fault_enumeration",
    title="The JAX VI driver resumes after a crash with identical results",
    technique=("file-system failpoint injection: SIGKILL at every recorded open/write/close/rename event "
               "(before / after / after+flushed / torn) of the real driver, then resume and compare bit-wise"),
    rule=("reference run: 5-parameter nonlinear model, 3 global iterations, 2 mirrored sample pairs, odir; "
          "case = (config, event index, phase). quick: one crash point per (file class, event kind, phase), "
          "taken from the 2nd iteration where an older last.pkl exists; thorough: every event x phase for 4 "
          "configs (linear_resample/nonlinear_resample x callback on/off) + sampled double crashes. "
          "non-trivial: crash point lies inside the rewrite window of the state file or the append of the "
          "report file; distinct = (config, event, phase)"),
    assumptions=["process kills with lost / flushed user-space buffers and torn writes are modelled; loss of "
                 "un-synced page cache after close (power failure) is not",
                 "bit-identity of a resumed run is attainable: established by the control crash points that lie "
                 "after a completed write"],
    need=["crash_children_killed", "resume_runs", "digest_comparisons", "reference_event_lists_equal",
          "audit_crosschecks"],
    quick=dict(cases=24, workers=8, budget_s=70),
    thorough=dict(cases=400, workers=16, budget_s=1500),
    design_ref="DESIGN.md §5 C24",
    level_text=("exhaustive (thorough tier) over the enumerated file-system event list of the given runs x crash "
                "phases; quick tier one representative per event class"),
    level_note=("event list completeness is monitored against sys.addaudithook and (thorough) strace; the model "
                "and iteration counts are small"),
    max_skip_fraction=0.3,
)

CMP_KEYS = ["pos", "samples", "keys", "state_nit", "state_key", "state_sample_state",
            "state_minimization_state", "nit"]


def configs(tier):
    if tier == "quick":
        return [dict(sample_mode="nonlinear_resample", callback=False)]
    return [dict(sample_mode=sm, callback=cb) for sm in ("nonlinear_resample", "linear_resample")
            for cb in (False, True)]


def fclass(path):
    return re.sub(r"\d+", "#", path)


def parent_pre(pk):
    from vf.fsfault import driver as D
    cfgs = configs(pk.tier)
    refs = [None] * len(cfgs)
    problems = []

    def ref_job(ci, rep, use_strace):
        odir = os.path.join(pk.workdir, f"ref{ci}_{rep}", "odir")
        os.makedirs(os.path.dirname(odir), exist_ok=True)
        slog = os.path.join(pk.workdir, f"strace{ci}.log") if use_strace else None
        spec = dict(workload="re", params=dict(cfgs[ci]), odir=odir, mode="record")
        rc, res, err = D.run_child(spec, f"ref{ci}_{rep}", pk.workdir, timeout=900, strace_log=slog)
        return rc, res, err, odir, slog

    results = {}

    def worker(ci, rep, use_strace):
        results[(ci, rep)] = ref_job(ci, rep, use_strace)

    ths = []
    for ci in range(len(cfgs)):
        for rep in range(2):
            t = threading.Thread(target=worker, args=(ci, rep, pk.tier == "thorough" and rep == 1))
            t.start()
            ths.append(t)
    for t in ths:
        t.join()
    for ci in range(len(cfgs)):
        r0, r1 = results[(ci, 0)], results[(ci, 1)]
        if r0[0] != 0 or r1[0] != 0 or r0[1] is None or r1[1] is None:
            problems.append(f"reference run failed cfg{ci}: rc={r0[0]},{r1[0]} {r0[2][-300:]} {r1[2][-300:]}")
            continue
        ev0 = [(e["kind"], e["path"]) for e in r0[1]["events"]]
        ev1 = [(e["kind"], e["path"]) for e in r1[1]["events"]]
        if ev0 != ev1:
            problems.append(f"event lists of two recording runs differ (cfg{ci})")
            continue
        pk.hit("reference_event_lists_equal")
        same = all(r0[1]["result"][k] == r1[1]["result"][k] for k in CMP_KEYS)
        if not same:
            problems.append(f"two uninterrupted runs in fresh processes are not bit-identical (cfg{ci})")
            continue
        pk.hit("reference_runs_bit_identical")
        ok, info = D.audit_consistent(r0[1]["events"], r0[1]["audit"])
        if not ok:
            problems.append(f"audit hook saw file-system mutations the failpoint layer missed: {info}")
            continue
        pk.hit("audit_crosschecks")
        if r1[4]:
            muts = D.strace_mutations(r1[4], r1[3])
            ok, missing = D.strace_consistent(r1[1]["events"], muts)
            if not ok:
                problems.append(f"strace saw mutating syscalls the failpoint layer missed: {missing}")
                continue
            pk.hit("strace_crosschecks")
            pk.hit("strace_mutating_syscalls", len(muts))
        refs[ci] = dict(cfg=cfgs[ci], events=r0[1]["events"], result=r0[1]["result"])
    plan = []
    for ci, ref in enumerate(refs):
        if ref is None:
            continue
        rng = pk.rng(ci)
        for idx, ph in D.crash_plan(ref["events"], quick=(pk.tier == "quick"), rng=rng, file_class=fclass):
            e = ref["events"][idx]
            plan.append(dict(cfg=ci, idx=idx, phase=ph, kind=e["kind"], path=e["path"]))
        if pk.tier == "thorough":
            n = len(ref["events"])
            for _ in range(12):
                i1 = int(rng.integers(n // 3, n))
                e = ref["events"][i1]
                ph = D.PHASES[e["kind"]][int(rng.integers(0, len(D.PHASES[e["kind"]])))]
                plan.append(dict(cfg=ci, idx=i1, phase=ph, kind=e["kind"], path=e["path"],
                                 second=dict(idx=int(rng.integers(0, 6)),
                                             phase=("before", "after", "torn13")[int(rng.integers(0, 3))])))
    cli = pk.cfg.get("cases_cli")
    if cli:
        plan = plan[:cli]
    pk.cfg["cases"] = len(plan)
    pk.extra["reference_events"] = [[(e["i"], e["kind"], e["path"], e.get("nbytes")) for e in r["events"]]
                                    for r in refs if r]
    pk.extra["crash_points_planned"] = len(plan)
    pk.extra["reference_problems"] = problems
    if problems:
        pk.fatal.extend(problems)
    with open(os.path.join(pk.workdir, "plan.json"), "w") as f:
        json.dump(dict(plan=plan, refs=refs), f)
    for ci in range(len(cfgs)):
        for rep in range(2):
            shutil.rmtree(os.path.join(pk.workdir, f"ref{ci}_{rep}"), ignore_errors=True)


def init(ck):
    with open(os.path.join(os.environ["VERIF_WORKDIR"], "plan.json")) as f:
        d = json.load(f)
    ck.state["plan"], ck.state["refs"] = d["plan"], d["refs"]


def listing(odir):
    out = {}
    if os.path.isdir(odir):
        for root, _, files in os.walk(odir):
            for fn in files:
                p = os.path.join(root, fn)
                out[os.path.relpath(p, odir)] = os.path.getsize(p)
    return out


def case(ck, i):
    from vf.fsfault import driver as D
    from vf.runner import Skip
    e = ck.state["plan"][i]
    ref = ck.state["refs"][e["cfg"]]
    wd = os.path.join(os.environ["VERIF_WORKDIR"], f"case{i}")
    odir = os.path.join(wd, "odir")
    os.makedirs(wd, exist_ok=True)
    fc = fclass(e["path"])
    in_window = fc in ("last.pkl", "last.pkl.tmp", "minisanity.txt") or e["kind"] == "rename"
    ck.note(dict(cfg=ref["cfg"], event=e["idx"], kind=e["kind"], path=e["path"], phase=e["phase"],
                 second=e.get("second")), nontrivial=in_window, klass=f"{fc}:{e['kind']}:{e['phase']}")
    try:
        spec = dict(workload="re", params=dict(ref["cfg"]), odir=odir, mode="crash",
                    kill_index=e["idx"], phase=e["phase"])
        rc, res, err = D.run_child(spec, "crash", wd, timeout=900)
        if rc == "timeout":
            raise Skip("crash child timed out")
        if not D.died_by_kill(rc):
            if rc == 0:
                raise Skip("crash point not reached (child finished)")
            ck.violation(f"uninterrupted-part-raises@{fc}", f"child failed before the crash point rc={rc}: "
                         f"{err[-300:]}", event=e)
            return
        ck.hit("crash_children_killed")
        left = listing(odir)
        if e.get("second"):
            s = e["second"]
            spec2 = dict(workload="re", params=dict(ref["cfg"], resume=True), odir=odir, mode="crash",
                         kill_index=s["idx"], phase=s["phase"])
            rc2, _, err2 = D.run_child(spec2, "crash2", wd, timeout=900)
            if rc2 == "timeout":
                raise Skip("second crash child timed out")
            if D.died_by_kill(rc2):
                ck.hit("second_crashes_killed")
            elif rc2 != 0:
                exc = (re.findall(r"^(\w+(?:\.\w+)*(?:Error|Exception))\b", err2, re.M) or ["?"])[-1]
                ck.violation(f"resume-raises:{exc}@{fc}", f"resumed run (to be crashed again) failed: "
                             f"{err2[-300:]}", event=e, left=left)
                return
        spec3 = dict(workload="re", params=dict(ref["cfg"], resume=True), odir=odir, mode="plain")
        rc3, res3, err3 = D.run_child(spec3, "resume", wd, timeout=900)
        if rc3 == "timeout":
            raise Skip("resume child timed out")
        ck.hit("resume_runs")
        if rc3 != 0 or res3 is None:
            exc = (re.findall(r"^(\w+(?:\.\w+)*(?:Error|Exception))\b", err3, re.M) or ["?"])[-1]
            ck.violation(f"resume-raises:{exc}@{fc}",
                         f"after a kill at event {e['idx']} ({e['kind']} {e['path']}, phase {e['phase']}) the "
                         f"run with resume=True fails: {err3.strip().splitlines()[-1][:200] if err3.strip() else rc3}",
                         event=e, files_left=left, stderr=err3[-1200:])
            return
        ck.hit("digest_comparisons", len(CMP_KEYS))
        diff = [k for k in CMP_KEYS if res3["result"][k] != ref["result"][k]]
        if diff:
            ck.violation(f"resume-differs@{fc}:{e['kind']}:{e['phase']}",
                         f"resumed run finished but {diff} differ from the uninterrupted run "
                         f"(kill at event {e['idx']}: {e['kind']} {e['path']}, {e['phase']})",
                         event=e, files_left=left)
    finally:
        shutil.rmtree(wd, ignore_errors=True)


def parent_post(pk):
    pk.exhaustive = bool(pk.tier == "thorough" and pk.notrun == 0 and not pk.fatal
                         and not getattr(pk, "partial", False) and not pk.skips)
