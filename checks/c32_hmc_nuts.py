"""C32 — HMC and NUTS: reversible volume-preserving dynamics, invariant target.

Deterministic part (per case, cheap):
 (a) reversibility of the real leapfrog (``HMCChain(...).stepper`` = ``hmc.leapfrog_step``):
     L steps, flip momentum, L steps, flip == start;
 (b) symplecticity: dense Jacobian J of the L-step map (``jax.jacfwd`` through the real code):
     J^T Omega J == Omega and det J == 1;
 (c) accept-rule replay of ``generate_hmc_acc_rej``: the proposal is the momentum-flipped L-step
     leapfrog image of the start (independent NumPy leapfrog), Delta H from an independent
     Hamiltonian, the uniform draw from the same key: accepted == (u < min(1, e^{Delta H})),
     accepted state = proposal or start, diverging flag;
 (d) NUTS tree structure from the module's own debug recorder (``hmc._DEBUG_FLAG``), with the tree
     builder run un-jitted under NIFTy's Python-control-flow switch (the recorder's 'finished'
     markers carry no data dependence and are not ordered under XLA): every
     recorded state continues one contiguous leapfrog orbit through the start, sub-tree k has at
     most 2^k states and exactly 2^k if it was merged, the returned tree spans 2^depth states, its
     end points are the orbit ends, the selected state is a member of the merged orbit and the
     tree weight is logsumexp(-H) over the merged states.
Statistical part (a few configurations per run):
 (e) one-step stationarity: N exact i.i.d. target draws -> one real HMC/NUTS transition each
     (``sample_next_state`` vmapped); mean, second moment and 9 quantile indicators of every
     coordinate (and one linear combination) against the exact target values, 7 sigma with exact
     standard errors;
 (f) thorough tier: K independent chains of ``generate_n_samples`` started from exact draws;
     chain averages of x and x^2 against exact moments, 7 sigma with the standard error from the
     K i.i.d. replicates.
"""
import numpy as np

from vf import resolve as rs

META = dict(
    id="C32", level="exploration",
    title="HMC and NUTS: reversible volume-preserving dynamics, invariant target",
    technique="dense Jacobian / replay / debug-recorder monitors on the real integrator and tree builder; "
              "one-step stationarity test with exact i.i.d. target draws (7 sigma, exact standard errors)",
    rule=("deterministic cases: potential family {Gaussian with random precision, product of quartic and "
          "log-cosh wells, banana, coupled quartic} x pytree layout (8 real layouts, 1-24 entries) per "
          "worker bucket; numeric draw = potential parameters, diagonal inverse mass over two orders of "
          "magnitude (or a scalar), step size 1e-3..~1 (below the stability limit), 1-50 steps, start "
          "point, PRNG key, tree depth 1-6. non-trivial: non-quadratic potential or non-unit mass matrix. "
          "statistical cases: first indices of every run; target = Gaussian (random covariance) or product "
          "of quartic / hyperbolic-secant components with exact sampler; sampler = HMCChain or NUTSChain "
          "(bias_transition on/off), non-unit mass, step size giving 60-95 % acceptance; distinct = distinct "
          "descriptor"),
    assumptions=["float64; diagonal mass matrices (the only kind the samplers support)",
                 "accept replay relies on jax.random.bernoulli(key, p) == (jax.random.uniform(key) < p)",
                 "statistical clauses bound the deviation from invariance (7 sigma, N = 5e4 per configuration), "
                 "they do not establish it",
                 "the NUTS structure clause runs generate_nuts_tree un-jitted with nifty.re.lax."
                 "_DISABLE_CONTROL_FLOW_PRIM=True (same tree-building code, Python loops) because the module's "
                 "recorder markers are unordered under XLA; the compiled tree builder is covered by the "
                 "stationarity clause only",
                 "the bound 'trajectory <= 2^max_tree_depth states' of the docstring is not asserted (observed: "
                 "trees reach depth max_tree_depth+1); U-turn flags are not re-derived (any symmetric criterion "
                 "keeps the kernel valid; the statistical clause covers the selection probabilities)"],
    need=["reversibility_checks", "symplecticity_checks", "accept_replays", "nuts_trees",
          "nuts_states_recorded", "stationarity_configs", "stationarity_comparisons"],
    quick=dict(cases=150, workers=8, budget_s=90),
    thorough=dict(cases=1600, workers=16, budget_s=800),
    design_ref="DESIGN.md §5 C32",
    level_text=("generated potentials / masses / step sizes with deterministic monitors on the real integrator, "
                "accept rule and tree builder, plus an exact-input one-step stationarity test; exploration"),
    level_note=("trusts jax.jacfwd, numpy.linalg, scipy.special/stats for exact quantiles; the independent "
                "leapfrog mirror is plain NumPy with jax.grad of the harness potential"),
    max_skip_fraction=0.3,
)

N_STAT = 50000


class Skip(Exception):
    """oracle precondition not met (reported through ck.skip)"""


# ----------------------------------------------------------------- potentials ---
def U_flat(fam, p, x):
    import jax.numpy as jnp
    if fam == "gauss":
        d = x - p["mu"]
        return 0.5 * d @ (p["P"] @ d)
    if fam == "prod":
        lc = jnp.logaddexp(p["b"] * x, -p["b"] * x) - jnp.log(2.0)
        return jnp.sum(p["m"] * p["a"] * x ** 4 / 4.0 + (1.0 - p["m"]) * lc)
    if fam == "banana":
        if x.shape[0] < 2:
            return 0.25 * p["a"][0] * x[0] ** 4 + 0.5 * x[0] ** 2
        rest = 0.5 * jnp.sum(x[2:] ** 2) if x.shape[0] > 2 else 0.0
        return 0.5 * x[0] ** 2 / p["s"] ** 2 + 0.5 * (x[1] - p["beta"] * x[0] ** 2) ** 2 + rest
    if fam == "qc":
        return 0.25 * jnp.sum(p["a"] * x ** 4) + 0.5 * x @ (p["P"] @ x)
    raise ValueError(fam)


def U_params(rng, fam, n):
    if fam in ("gauss", "qc"):
        ev = rs.spectrum(rng, n, 0.5, float(10 ** rng.uniform(0.3, 1.3)), "log")
        P = rs.herm_from_spectrum(rng, ev, False, "rot")
        return dict(P=P, mu=rng.standard_normal(n) * (fam == "gauss"), a=rng.uniform(0.2, 2.0, n))
    if fam == "prod":
        return dict(m=(rng.random(n) < 0.5).astype(float), a=rng.uniform(0.3, 3.0, n),
                    b=rng.uniform(0.5, 2.0, n))
    if fam == "banana":
        return dict(s=np.array(rng.uniform(0.7, 1.5)), beta=np.array(rng.uniform(0.2, 1.0)),
                    a=rng.uniform(0.5, 2.0, n))
    raise ValueError(fam)


def stiffness(fam, p, n):
    """rough upper bound of the curvature scale in the region visited (for the step-size bound)"""
    if fam in ("gauss",):
        return float(np.linalg.eigvalsh(p["P"]).max())
    if fam == "qc":
        return float(np.linalg.eigvalsh(p["P"]).max() + 3 * p["a"].max() * 4.0)
    if fam == "prod":
        return float(max((3 * p["a"] * 4.0).max(), (p["b"] ** 2).max()))
    return float(max(1.0 / p["s"] ** 2 + 12 * p["beta"] ** 2, 1.0 + 2 * p["beta"], 3 * p["a"].max() * 4 + 1))


# ----------------------------------------------------------------------- init ---
def init(ck):
    import warnings
    warnings.filterwarnings("ignore", category=DeprecationWarning)
    import jax
    import jax.numpy as jnp
    import nifty.re as jft
    from nifty.re import hmc, hmc_oo
    ck.state.update(jax=jax, jnp=jnp, jft=jft, hmc=hmc, hmc_oo=hmc_oo, jit={}, U={})


def get_U(ck, fam):
    st = ck.state
    if fam not in st["U"]:
        jax = st["jax"]
        st["U"][fam] = dict(U=jax.jit(lambda p, x: U_flat(fam, p, x)),
                            g=jax.jit(jax.grad(lambda p, x: U_flat(fam, p, x), argnums=1)))
    return st["U"][fam]


def make_sampler(ck, fam, lay, p, invm, eps, L=None, depth=None, bias=True, maxdE=np.inf):
    """the real sampler objects (inside traced code)"""
    st = ck.state
    pot = lambda q: U_flat(fam, p, lay.flat(q))
    proto = lay.wrap(st["jnp"].zeros(lay.n))
    if L is not None:
        return st["hmc_oo"].HMCChain(potential_energy=pot, inverse_mass_matrix=invm, position_proto=proto,
                                     num_steps=L, step_size=eps, max_energy_difference=maxdE)
    return st["hmc_oo"].NUTSChain(potential_energy=pot, inverse_mass_matrix=invm, position_proto=proto,
                                  step_size=eps, max_tree_depth=depth, bias_transition=bias,
                                  max_energy_difference=maxdE)


def get_jit(ck, what, fam, layname, **static):
    st = ck.state
    k = (what, fam, layname) + tuple(sorted(static.items()))
    if k in st["jit"]:
        return st["jit"][k]
    jax, jnp, hmc = st["jax"], st["jnp"], st["hmc"]
    lay = rs.layout(layname)
    scalar_mass = static.get("scalar_mass", False)

    def mass(invm):
        return invm[0] if scalar_mass else lay.wrap(invm)

    if what == "leap":
        def f(p, q, mom, invm, eps, L):
            smp = make_sampler(ck, fam, lay, p, mass(invm), eps, L=L)
            step = lambda e, qp: smp.stepper(e, smp.inverse_mass_matrix, qp)
            qp0 = hmc.QP(position=lay.wrap(q), momentum=lay.wrap(mom))
            fwd = jax.lax.fori_loop(0, L, lambda _, s: step(eps, s), qp0)
            back = jax.lax.fori_loop(0, L, lambda _, s: step(eps, s), hmc.flip_momentum(fwd))
            back = hmc.flip_momentum(back)
            # the same orbit run with a negative step size (used by the NUTS tree builder)
            neg = jax.lax.fori_loop(0, L, lambda _, s: step(-eps, s), fwd)
            fl = lambda qp: jnp.concatenate([lay.flat(qp.position), lay.flat(qp.momentum)])
            return fl(fwd), fl(back), fl(neg)
    elif what == "jac":
        def f(p, z, invm, eps, L):
            def flow(z):
                smp = make_sampler(ck, fam, lay, p, mass(invm), eps, L=L)
                qp0 = hmc.QP(position=lay.wrap(z[:lay.n]), momentum=lay.wrap(z[lay.n:]))
                out = jax.lax.fori_loop(0, L, lambda _, s: smp.stepper(eps, smp.inverse_mass_matrix, s),
                                        qp0)
                return jnp.concatenate([lay.flat(out.position), lay.flat(out.momentum)])
            return jax.jacfwd(flow)(z)
    elif what == "acc":
        def f(p, key, q, mom, invm, eps, L, maxdE):
            smp = make_sampler(ck, fam, lay, p, mass(invm), eps, L=L, maxdE=maxdE)
            qp0 = hmc.QP(position=lay.wrap(q), momentum=lay.wrap(mom))
            ar = hmc.generate_hmc_acc_rej(
                key=key, initial_qp=qp0, potential_energy=smp.potential_energy,
                kinetic_energy=smp.kinetic_energy, inverse_mass_matrix=smp.inverse_mass_matrix,
                stepper=smp.stepper, num_steps=L, step_size=eps, max_energy_difference=maxdE)
            fl = lambda qp: jnp.concatenate([lay.flat(qp.position), lay.flat(qp.momentum)])
            return fl(ar.accepted_qp), fl(ar.rejected_qp), ar.accepted, ar.diverging
    elif what == "nuts":
        depth, bias = static["depth"], static["bias"]

        def f(p, key, q, mom, invm, eps, maxdE):
            smp = make_sampler(ck, fam, lay, p, mass(invm), eps, depth=depth, bias=bias, maxdE=maxdE)
            qp0 = hmc.QP(position=lay.wrap(q), momentum=lay.wrap(mom))
            t = hmc.generate_nuts_tree(
                initial_qp=qp0, key=key, step_size=eps, max_tree_depth=depth, stepper=smp.stepper,
                potential_energy=smp.potential_energy, kinetic_energy=smp.kinetic_energy,
                inverse_mass_matrix=smp.inverse_mass_matrix, bias_transition=bias,
                max_energy_difference=maxdE)
            fl = lambda qp: jnp.concatenate([lay.flat(qp.position), lay.flat(qp.momentum)])
            return (fl(t.left), fl(t.right), fl(t.proposal_candidate), t.logweight, t.turning,
                    t.diverging, t.depth)
    elif what == "onestep":
        kind, depth, bias = static["kind"], static.get("depth"), static.get("bias", True)

        def f(p, keys, qs, invm, eps, L):
            smp = make_sampler(ck, fam, lay, p, mass(invm), eps, L=(L if kind == "hmc" else None),
                               depth=depth, bias=bias)

            def one(key, q):
                tree, (k2, qn) = smp.sample_next_state(key, lay.wrap(q))
                acc = tree.accepted if kind == "hmc" else tree.depth
                return lay.flat(qn), acc
            return jax.vmap(one)(keys, qs)
    elif what == "chains":
        kind, depth, bias, T = static["kind"], static.get("depth"), static.get("bias", True), static["T"]

        def f(p, keys, qs, invm, eps, L):
            smp = make_sampler(ck, fam, lay, p, mass(invm), eps, L=(L if kind == "hmc" else None),
                               depth=depth, bias=bias)

            def one(key, q):
                chain, _ = smp.generate_n_samples(key, lay.wrap(q), T)
                x = jax.vmap(lay.flat)(chain.samples)
                return jnp.mean(x, axis=0), jnp.mean(x * x, axis=0)
            return jax.vmap(one)(keys, qs)
    else:
        raise ValueError(what)
    st["jit"][k] = jax.jit(f)
    ck.hit("compilations")
    return st["jit"][k]


# -------------------------------------------------------------- numpy mirror ---
def mirror_step(g, p, q, mom, invm, eps):
    ph = mom - 0.5 * eps * np.asarray(g(p, q))
    qn = q + eps * invm * ph
    pn = ph - 0.5 * eps * np.asarray(g(p, qn))
    return qn, pn


def hamiltonian(Uf, p, q, mom, invm):
    return float(Uf(p, q)) + 0.5 * float(np.sum(invm * mom * mom))


# ---------------------------------------------------------------- generators ---
FAMS_DET = ["gauss", "prod", "banana", "qc"]


def bucket(ck, r):
    """(family, layout, scalar mass?) of worker bucket r (8 buckets per run)"""
    rng = ck.rng(200000 + r)
    fam = FAMS_DET[(r + int(rng.integers(0, 4))) % 4] if r >= 4 else FAMS_DET[r]
    lays = [l for l in rs.REAL_LAYOUTS if not (fam == "banana" and rs.layout(l).n < 2)]
    layname = str(rng.choice(lays))
    return fam, layname, bool(r % 4 == 3)


def draw_det(ck, rng, fam, layname, scalar_mass):
    lay = rs.layout(layname)
    n = lay.n
    p = U_params(rng, fam, n)
    if scalar_mass:
        invm = np.full(n, float(10 ** rng.uniform(-1, 1)))
    else:
        invm = 10 ** rng.uniform(-1, 1, n)
        if rng.integers(0, 6) == 0:
            invm = np.ones(n)
    om = np.sqrt(stiffness(fam, p, n) * invm.max())          # fastest frequency (bound)
    eps = float(min(10 ** rng.uniform(-3, 0), 10 ** rng.uniform(-1.5, -0.2) * 2.0 / om))
    L = int(rng.choice([1, 2, 3, 5, 8, 13, 21, 34, 50]))
    q = rng.standard_normal(n) * 0.8
    if fam == "gauss":
        q = q + p["mu"]
    mom = rng.standard_normal(n) / np.sqrt(invm)
    return lay, p, invm, eps, L, q, mom, om


# ----------------------------------------------------------------------- case ---
def case(ck, i):
    try:
        nstat = ck.pick(6, 40)
        if i < nstat:
            stat_case(ck, i)
        else:
            det_case(ck, i)
    except Skip as e:
        ck.skip(str(e))


def det_case(ck, i):
    st = ck.state
    jax, hmc = st["jax"], st["hmc"]
    r = i % 8
    fam, layname, scalar_mass = bucket(ck, r)
    rng = ck.rng(i, 1)
    lay, p, invm, eps, L, q, mom, om = draw_det(ck, rng, fam, layname, scalar_mass)
    n = lay.n
    Uf, gf = get_U(ck, fam)["U"], get_U(ck, fam)["g"]
    kind = ["leap", "acc", "nuts"][(i // 8) % 3]
    desc = dict(kind=kind, fam=fam, layout=layname, scalar_mass=scalar_mass, eps=float(f"{eps:.3g}"), L=L,
                mass_ratio=float(f"{invm.max() / invm.min():.3g}"))
    nontriv = fam != "gauss" or not np.all(invm == 1.0)
    sm = dict(scalar_mass=scalar_mass)
    z0 = np.concatenate([q, mom])
    scale = np.abs(z0).max() + 1.0

    if kind == "leap":
        f = get_jit(ck, "leap", fam, layname, **sm)
        fwd, back, neg = (np.asarray(a) for a in f(p, q, mom, invm, eps, L))
        traj = np.abs(fwd).max() + scale
        ck.hit("reversibility_checks", 2)
        tol = 1e-10 * traj * max(1.0, L)
        for nm, arr in (("momentum-flip", back), ("negative-step", neg)):
            dev = float(np.abs(arr - z0).max())
            if not dev <= tol:
                ck.violation("leapfrog:not-reversible",
                             f"L leapfrog steps followed by L steps of the reversed flow ({nm}) do not "
                             f"return to the start", maxdev=dev, tol=tol, L=L, eps=eps)
        # independent mirror: the real map is the textbook leapfrog (needed by the replay oracles)
        qm, pm = q.copy(), mom.copy()
        for _ in range(L):
            qm, pm = mirror_step(gf, p, qm, pm, invm, eps)
        ck.hit("mirror_comparisons")
        if float(np.abs(np.concatenate([qm, pm]) - fwd).max()) > 1e-9 * traj * max(1.0, L):
            ck.violation("leapfrog:differs-from-reference",
                         "the real leapfrog differs from the reference kick-drift-kick integrator",
                         maxdev=float(np.abs(np.concatenate([qm, pm]) - fwd).max()), L=L, eps=eps)
        # symplecticity on a short flow
        Lj = int(min(L, 3))
        J = np.asarray(get_jit(ck, "jac", fam, layname, **sm)(p, z0, invm, eps, Lj))
        Om = np.block([[np.zeros((n, n)), np.eye(n)], [-np.eye(n), np.zeros((n, n))]])
        ck.hit("symplecticity_checks", 2)
        jn = np.abs(J).max() ** 2 + 1.0
        dev = float(np.abs(J.T @ Om @ J - Om).max())
        sign, logdet = np.linalg.slogdet(J)
        if not dev <= 1e-10 * jn * n:
            ck.violation("leapfrog:not-symplectic", "J^T Omega J != Omega for the leapfrog map",
                         maxdev=dev, tol=1e-10 * jn * n, L=Lj, eps=eps)
        if not (sign > 0 and abs(logdet) <= 1e-9 * n * max(1.0, np.log(jn))):
            ck.violation("leapfrog:not-volume-preserving", "det J != 1 for the leapfrog map",
                         sign=float(sign), logdet=float(logdet), L=Lj, eps=eps)
        desc["Lj"] = Lj

    elif kind == "acc":
        f = get_jit(ck, "acc", fam, layname, **sm)
        key = jax.random.PRNGKey(int(rng.integers(2 ** 31)))
        # make both outcomes common: sometimes a (too) large step size
        # energy errors of order one are needed to tell accept rules apart: in most cases the step
        # size is enlarged until the (reference) energy error of the trajectory exceeds ~0.3
        eps_a = eps
        if rng.random() < 0.8:
            H0_ = hamiltonian(Uf, p, q, mom, invm)
            target = float(rng.choice([0.3, 1.0, 3.0]))
            e_try = max(eps, 0.05 * 2.0 / om)
            for _ in range(14):
                qm, pm = q.copy(), mom.copy()
                for _ in range(L):
                    qm, pm = mirror_step(gf, p, qm, pm, invm, e_try)
                d_ = H0_ - hamiltonian(Uf, p, qm, pm, invm)
                if not np.isfinite(d_) or abs(d_) > 30:
                    break
                eps_a = e_try
                if abs(d_) >= target:
                    break
                e_try *= 1.35
        maxdE = float(rng.choice([np.inf, 1000.0, 0.5, 0.05]))
        acc_z, rej_z, accepted, diverging = f(p, key, q, mom, invm, eps_a, L, maxdE)
        acc_z, rej_z = np.asarray(acc_z), np.asarray(rej_z)
        accepted, diverging = bool(accepted), bool(diverging)
        desc.update(eps=float(f"{eps_a:.3g}"), maxdE=maxdE, accepted=accepted)
        ck.hit("accept_replays")
        qm, pm = q.copy(), mom.copy()
        for _ in range(L):
            qm, pm = mirror_step(gf, p, qm, pm, invm, eps_a)
        prop = np.concatenate([qm, -pm])
        H0 = hamiltonian(Uf, p, q, mom, invm)
        H1 = hamiltonian(Uf, p, qm, pm, invm)
        dH = H0 - H1
        if not np.isfinite(dH):
            raise Skip("non-finite energy difference (unstable step size)")
        traj = max(np.abs(prop).max(), scale)
        tolz = 1e-8 * traj * max(1.0, L)
        if np.abs(prop - z0).max() <= 10 * tolz:
            raise Skip("proposal indistinguishable from the start")
        u = float(jax.random.uniform(key, ()))
        pacc = min(1.0, float(np.exp(min(dH, 50.0))))
        stateA, stateR = (prop, z0) if accepted else (z0, prop)
        if np.abs(acc_z - stateA).max() > tolz or np.abs(rej_z - stateR).max() > tolz:
            what = ("the accepted / rejected states are not (momentum-flipped L-step leapfrog image, "
                    "start) in the order given by the accepted flag")
            ck.violation("hmc:accepted-state", what, accepted=accepted,
                         dev_accepted=float(np.abs(acc_z - stateA).max()),
                         dev_rejected=float(np.abs(rej_z - stateR).max()), L=L, eps=eps_a)
        elif abs(u - pacc) > 1e-9 * max(1.0, abs(dH)) + 1e-7 * pacc * abs(dH):
            if accepted != (u < pacc):
                ck.violation("hmc:accept-rule", "accepted != (u < min(1, exp(H_start - H_proposal))) for the "
                             "uniform drawn from the same key", accepted=accepted, u=u, p_accept=pacc,
                             dH=dH)
        else:
            ck.hit("accept_ties_skipped")
        if abs(abs(dH) - maxdE) > 1e-9 * (abs(dH) + 1):
            if diverging != (abs(dH) > maxdE):
                ck.violation("hmc:diverging-flag", "diverging != (|Delta H| > max_energy_difference)",
                             diverging=diverging, dH=dH, maxdE=maxdE)

    else:  # nuts tree structure
        depth = int(rng.choice([1, 2, 3, 4, 5]))
        bias = bool(rng.integers(0, 2))
        key = jax.random.PRNGKey(int(rng.integers(2 ** 31)))
        eps_n = eps * float(rng.choice([1.0, 2.0, 4.0]))
        maxdE = float(rng.choice([np.inf, np.inf, 1000.0, 0.3]))
        # The module's recorder appends from io_callbacks; the 'finished (sub)tree' markers carry no
        # data dependence, so under XLA they are not ordered w.r.t. the states.  The tree builder is
        # therefore run with NIFTy's Python control flow switch (nifty.re.lax), un-jitted: same
        # tree-building code, callbacks in program order.
        from nifty.re import lax as nlax
        jnp = st["jnp"]
        smp = make_sampler(ck, fam, lay, {k: jnp.asarray(v) for k, v in p.items()},
                           (float(invm[0]) if scalar_mass else lay.wrap(np.asarray(invm))),
                           eps_n, depth=depth, bias=bias, maxdE=maxdE)
        qp0 = hmc.QP(position=lay.wrap(np.asarray(q)), momentum=lay.wrap(np.asarray(mom)))
        hmc._DEBUG_STORE.clear()
        hmc._DEBUG_TREE_END_IDXS.clear()
        hmc._DEBUG_SUBTREE_END_IDXS.clear()
        hmc._DEBUG_FLAG = True
        nlax._DISABLE_CONTROL_FLOW_PRIM = True
        try:
            t = hmc.generate_nuts_tree(
                initial_qp=qp0, key=key, step_size=eps_n, max_tree_depth=depth, stepper=smp.stepper,
                potential_energy=smp.potential_energy, kinetic_energy=smp.kinetic_energy,
                inverse_mass_matrix=smp.inverse_mass_matrix, bias_transition=bias,
                max_energy_difference=maxdE)
            jax.effects_barrier()
        finally:
            hmc._DEBUG_FLAG = False
            nlax._DISABLE_CONTROL_FLOW_PRIM = False
        fl = lambda qp: np.concatenate([lay.flat_np(qp.position), lay.flat_np(qp.momentum)])
        out = (fl(t.left), fl(t.right), fl(t.proposal_candidate), float(t.logweight), bool(t.turning),
               bool(t.diverging), int(t.depth))
        left, right, cand, logw, turning, diverging, tdepth = out
        tdepth = int(tdepth)
        store = [np.concatenate([lay.flat_np(s.position), lay.flat_np(s.momentum)])
                 for s in hmc._DEBUG_STORE]
        sub_ends = list(hmc._DEBUG_SUBTREE_END_IDXS)
        tree_ends = list(hmc._DEBUG_TREE_END_IDXS)
        if not all(np.all(np.isfinite(z)) for z in store) or not np.all(np.isfinite(cand)):
            raise Skip("trajectory left the floating point range (step size beyond stability)")
        ck.hit("nuts_trees")
        ck.hit("nuts_states_recorded", len(store))
        desc.update(depth=depth, bias=bias, eps=float(f"{eps_n:.3g}"), maxdE=maxdE, tree_depth=tdepth,
                    nsub=len(sub_ends), nstates=len(store))
        if tree_ends != [len(store)] or not sub_ends or sub_ends[-1] != len(store):
            ck.violation("nuts:recorder-incomplete", "debug recorder did not mark exactly one finished "
                         "tree covering all recorded states", tree_ends=tree_ends, n=len(store),
                         sub_ends=sub_ends[-3:])
            ck.note(desc, nontrivial=nontriv, klass=f"{kind}:{fam}")
            return
        # replay: orbit offsets; sub-tree k starts at the current left or right end
        orbit = {0: z0}
        lo = hi = 0
        merged_lo = merged_hi = 0
        start = 0
        bad = None
        nsub = len(sub_ends)
        if nsub not in (tdepth, tdepth + 1):
            bad = ("nuts:subtree-count", f"{nsub} sub-trees recorded for a tree of depth {tdepth}")
        tol = lambda a: 1e-8 * (np.abs(a).max() + scale)
        for k, end in enumerate(sub_ends):
            if bad:
                break
            states = store[start:end]
            start = end
            m = len(states)
            if m < 1 or m > 2 ** k:
                bad = ("nuts:subtree-length", f"sub-tree {k} has {m} states (allowed 1..{2 ** k})")
                break
            if k < tdepth and m != 2 ** k:
                bad = ("nuts:subtree-length", f"merged sub-tree {k} has {m} != 2^{k} states")
                break
            # direction from the first state
            zr = orbit[merged_hi]
            zl = orbit[merged_lo]
            qr, pr = mirror_step(gf, p, zr[:n], zr[n:], invm, eps_n)
            ql, pl = mirror_step(gf, p, zl[:n], zl[n:], invm, -eps_n)
            cr, cl = np.concatenate([qr, pr]), np.concatenate([ql, pl])
            if np.abs(states[0] - cr).max() <= tol(cr):
                sgn, pos = 1, merged_hi
            elif np.abs(states[0] - cl).max() <= tol(cl):
                sgn, pos = -1, merged_lo
            else:
                bad = ("nuts:trajectory-not-contiguous",
                       f"first state of sub-tree {k} is not the leapfrog successor of either end of "
                       f"the current trajectory")
                break
            cur = orbit[pos]
            for z in states:
                qn, pn = mirror_step(gf, p, cur[:n], cur[n:], invm, sgn * eps_n)
                cn = np.concatenate([qn, pn])
                if not np.abs(z - cn).max() <= tol(cn):
                    bad = ("nuts:trajectory-not-contiguous",
                           f"a state of sub-tree {k} is not the leapfrog successor of its predecessor")
                    break
                pos += sgn
                orbit[pos] = z
                cur = z
            if bad:
                break
            if k < tdepth:
                merged_lo, merged_hi = min(merged_lo, pos), max(merged_hi, pos)
        if not bad:
            span = merged_hi - merged_lo + 1
            if span != 2 ** tdepth:
                bad = ("nuts:tree-size", f"tree of depth {tdepth} spans {span} states")
        if not bad:
            if not (np.array_equal(left, orbit[merged_lo]) and np.array_equal(right, orbit[merged_hi])):
                bad = ("nuts:endpoints", "Tree.left / Tree.right are not the ends of the merged orbit")
        if not bad:
            members = [orbit[j] for j in range(merged_lo, merged_hi + 1)]
            if not any(np.array_equal(cand, z) for z in members):
                bad = ("nuts:sample-not-in-tree", "the selected state is not a member of the merged orbit")
        if not bad:
            Hs = np.array([hamiltonian(Uf, p, z[:n], z[n:], invm) for z in members])
            lw = float(np.logaddexp.reduce(-Hs))
            if not abs(lw - float(logw)) <= 1e-8 * (abs(lw) + 1.0) * max(1, len(members)):
                bad = ("nuts:logweight", "Tree.logweight != logsumexp(-H) over the merged orbit")
                desc["lw"] = (lw, float(logw))
        ck.hit("nuts_structure_checks")
        if bad:
            ck.violation(bad[0], bad[1], tree_depth=tdepth, max_tree_depth=depth, nsub=nsub,
                         sub_sizes=list(np.diff([0] + sub_ends))[:10], turning=bool(turning),
                         diverging=bool(diverging))
    ck.note(desc, nontrivial=nontriv, klass=f"{kind}:{fam}")


# ------------------------------------------------------------- statistical part ---
def stat_config(rng, i):
    kinds = ["hmc", "nuts", "hmc", "nuts", "nuts", "hmc"]
    targets = ["gauss", "gauss", "prod", "prod", "gauss", "prod"]
    lays_small = ["a3", "vd7", "vt8", "a3", "vd2", "a1"]
    c = dict(kind=kinds[i % 6], target=targets[i % 6])
    c["layout"] = lays_small[i % 6] if i < 6 else str(rng.choice(["a1", "a3", "vd2", "vd7", "vt8"]))
    c["bias"] = bool(i % 6 != 4) if i < 6 else bool(rng.integers(0, 2))
    c["depth"] = int(rng.choice([3, 4, 5]))
    c["L"] = int(rng.choice([2, 3, 5, 8]))
    c["scalar_mass"] = bool(rng.integers(0, 5) == 0)
    return c


def exact_target(rng, c, n):
    """parameters, exact sampler and exact per-coordinate moments / quantiles of the target"""
    from scipy import special, stats
    qs = np.arange(1, 10) / 10.0
    if c["target"] == "gauss":
        ev = rs.spectrum(rng, n, 0.5, float(10 ** rng.uniform(0.2, 1.0)), "log")
        P = rs.herm_from_spectrum(rng, ev, False, "rot")
        mu = rng.standard_normal(n)
        S = np.linalg.inv(P)
        S = (S + S.T) / 2
        Lc = np.linalg.cholesky(S)
        draw = lambda N: mu + rng.standard_normal((N, n)) @ Lc.T
        var = np.diagonal(S).copy()
        m4c = 3 * var ** 2
        quant = mu[None, :] + np.sqrt(var)[None, :] * stats.norm.ppf(qs)[:, None]
        p = dict(P=P, mu=mu, a=np.ones(n))
        return "gauss", p, draw, mu, var, m4c, quant, S
    m = (rng.random(n) < 0.5).astype(float)
    a = rng.uniform(0.3, 3.0, n)
    b = rng.uniform(0.5, 2.0, n)

    def draw(N):
        g = rng.gamma(0.25, 1.0, (N, n))
        xq = (4 * g / a) ** 0.25 * np.where(rng.random((N, n)) < 0.5, -1.0, 1.0)
        uu = rng.random((N, n))
        xs = np.log(np.tan(np.pi * uu / 2)) / b
        return np.where(m > 0.5, xq, xs)
    G = special.gamma
    var_q = (4 / a) ** 0.5 * G(0.75) / G(0.25)
    m4_q = (4 / a) * G(1.25) / G(0.25)
    var_s = np.pi ** 2 / (4 * b ** 2)
    m4_s = 5 * np.pi ** 4 / (16 * b ** 4)
    var = np.where(m > 0.5, var_q, var_s)
    m4c = np.where(m > 0.5, m4_q, m4_s)
    quant = np.zeros((9, n))
    for k, pq in enumerate(qs):
        t = (4 * special.gammaincinv(0.25, abs(2 * pq - 1)) / a) ** 0.25 * np.sign(pq - 0.5)
        s = np.log(np.tan(np.pi * pq / 2)) / b
        quant[k] = np.where(m > 0.5, t, s)
    p = dict(m=m, a=a, b=b)
    return "prod", p, draw, np.zeros(n), var, m4c, quant, np.diag(var)


def stat_case(ck, i):
    st = ck.state
    jax = st["jax"]
    rng = ck.rng(i, 2)
    c = stat_config(rng, i)
    lay = rs.layout(c["layout"])
    n = lay.n
    fam, p, draw, mean, var, m4c, quant, S = exact_target(rng, c, n)
    if c["scalar_mass"]:
        invm = np.full(n, float(10 ** rng.uniform(-0.5, 0.5)))
    else:
        invm = 10 ** rng.uniform(-0.7, 0.7, n)
    # step size: fraction of the stability scale in mass-scaled coordinates
    if fam == "gauss":
        om = np.sqrt(np.linalg.eigvalsh(np.sqrt(invm)[:, None] * p["P"] * np.sqrt(invm)[None, :]).max())
    else:
        om = np.sqrt((invm / var).max()) * 1.5
    eps = float(rng.uniform(0.9, 1.4) / om)
    N = N_STAT
    desc = dict(c=c, eps=float(f"{eps:.3g}"), mass_ratio=float(f"{invm.max() / invm.min():.3g}"), N=N)
    f = get_jit(ck, "onestep", fam, c["layout"], kind=c["kind"], depth=c["depth"], bias=c["bias"],
                scalar_mass=c["scalar_mass"])
    keys = jax.random.split(jax.random.PRNGKey(int(rng.integers(2 ** 31))), N)
    x_in = draw(N)
    x_out, aux = f(p, keys, x_in, invm, eps, c["L"])
    x_out, aux = np.asarray(x_out), np.asarray(aux)
    ck.hit("stationarity_configs")
    moved = float(np.mean(np.any(x_out != x_in, axis=1)))
    desc["moved_fraction"] = round(moved, 3)
    if c["kind"] == "hmc":
        desc["acceptance"] = round(float(np.mean(aux)), 3)
    else:
        desc["mean_depth"] = round(float(np.mean(aux)), 2)
    if moved < 0.3:
        raise Skip("fewer than 30 % of the transitions moved: no power")
    if not np.all(np.isfinite(x_out)):
        ck.violation("stationarity:non-finite", "a transition returned a non-finite position",
                     n_bad=int(np.sum(~np.isfinite(x_out))))
        ck.note(desc, nontrivial=True, klass=f"stat:{c['kind']}:{fam}")
        return
    worst = judge_moments(ck, x_out, mean, var, m4c, quant, S, rng, N,
                          f"stationarity:{c['kind']}-one-step",
                          f"one {c['kind'].upper()} transition applied to exact target draws")
    desc["worst_z"] = round(worst, 2)
    # sanity of the harness statistics: the inputs themselves must pass (else the oracle is wrong)
    w_in = judge_moments(None, x_in, mean, var, m4c, quant, S, rng, N, None, None)
    if w_in > 7.0:
        raise RuntimeError(f"harness target sampler inconsistent with its exact moments (z={w_in:.1f})")

    # (f) independent chains through generate_n_samples (thorough tier)
    if ck.thorough() and i < 12:
        K, T = 64, 150
        fc = get_jit(ck, "chains", fam, c["layout"], kind=c["kind"], depth=c["depth"], bias=c["bias"],
                     scalar_mass=c["scalar_mass"], T=T)
        keys = jax.random.split(jax.random.PRNGKey(int(rng.integers(2 ** 31))), K)
        m1, m2 = fc(p, keys, draw(K), invm, eps, c["L"])
        m1, m2 = np.asarray(m1), np.asarray(m2)
        ck.hit("chain_configs")
        ex2 = var + mean ** 2
        for nm, arr, ex in (("mean", m1, mean), ("second moment", m2, ex2)):
            se = arr.std(axis=0, ddof=1) / np.sqrt(K)
            z = np.abs(arr.mean(axis=0) - ex) / (se + 1e-300)
            ck.hit("chain_comparisons", n)
            if z.max() > 7.0:
                ck.violation(f"stationarity:{c['kind']}-chains",
                             f"chain averages ({nm}) of {K} independent {c['kind'].upper()} chains started "
                             f"from exact draws deviate from the exact target moment by more than 7 sigma",
                             z=float(z.max()), coord=int(np.argmax(z)))
    ck.note(desc, nontrivial=True, klass=f"stat:{c['kind']}:{fam}")


def judge_moments(ck, x, mean, var, m4c, quant, S, rng, N, key, what):
    """z-scores of mean / centred second moment / 9 quantile indicators per coordinate and of one
    linear combination against exact values with exact standard errors; returns the worst z"""
    n = x.shape[1]
    worst = 0.0
    bad = []
    xc = x - mean
    z = np.abs(xc.mean(axis=0)) / np.sqrt(var / N)
    z2 = np.abs((xc ** 2).mean(axis=0) - var) / np.sqrt((m4c - var ** 2) / N)
    for nm, zz in (("mean", z), ("second moment", z2)):
        if ck is not None:
            ck.hit("stationarity_comparisons", n)
        worst = max(worst, float(zz.max()))
        if zz.max() > 7.0:
            bad.append((nm, float(zz.max()), int(np.argmax(zz))))
    qs = np.arange(1, 10) / 10.0
    for k, pq in enumerate(qs):
        ind = (x <= quant[k][None, :]).mean(axis=0)
        zz = np.abs(ind - pq) / np.sqrt(pq * (1 - pq) / N)
        if ck is not None:
            ck.hit("stationarity_comparisons", n)
        worst = max(worst, float(zz.max()))
        if zz.max() > 7.0:
            bad.append((f"P(x <= q{k + 1}0)", float(zz.max()), int(np.argmax(zz))))
    if n >= 2 and np.abs(S - np.diag(np.diagonal(S))).max() > 0:
        w = np.ones(n) / np.sqrt(n)            # fixed combination (does not consume rng)
        y = xc @ w
        vy = float(w @ S @ w)
        zz = abs(float((y ** 2).mean()) - vy) / np.sqrt(2 * vy ** 2 / N)
        if ck is not None:
            ck.hit("stationarity_comparisons")
        worst = max(worst, zz)
        if zz > 7.0:
            bad.append(("variance of the sum of coordinates", zz, -1))
    if bad and ck is not None:
        ck.violation(key, f"{what}: output statistics deviate from the exact target values by more than "
                     f"7 standard errors", deviations=bad[:6], N=N)
    return worst
