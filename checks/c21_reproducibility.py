"""C21 — Runs are reproducible and independent of execution strategy.

Three monitored families:
 ctx   generated programs over the classic RNG API (nested Context blocks, push/pop,
       spawn, draws of every kind, exceptions raised inside contexts, getState/setState),
       executed on the real module with a monitor on the generator stack: after every
       block — left normally or by an exception — the top generator must be the same
       object with the same bit-generator state as before, the stack depth restored, the
       exception propagated unchanged; the draws made directly inside ``Context(s)`` must
       equal the draws of the same call sequence under a bare ``Context(s)`` in a clean
       process state (they depend only on the seed).
 proc  small classic and JAX workloads run >=3 times in fresh interpreter processes with
       different PYTHONHASHSEED values: sha256 digests of all results must be identical.
 hist  a JAX optimize_kl run executed after 1-2 other runs on the same likelihood object in one
       process (other point-estimate patterns given as boolean Vector or key tuple, other sample
       counts / modes) must be bit-identical to the same run alone in a fresh process and agree
       with jit=False up to round-off (stale compiled executables, leaked module state).
 maps  JAX optimize_kl under (residual_map, kl_map, jit) settings with solvers pinned to
       fixed iteration counts: final samples agree to 1e-6 * scale (observed round-off level: <= 3e-8).
"""
import json
import os
import subprocess

import numpy as np

META = dict(
    id="C21", level="exploration",
    title="Runs are reproducible and independent of execution strategy",
    technique=("RNG-stack monitor over generated context programs; differential re-execution in fresh "
               "processes (digest equality) and across map/jit strategies (tolerance 1e-6)"),
    rule=("ctx: random programs of depth <=5 over {with Context(seed|sseq), push_sseq/push_sseq_from_seed..pop_sseq, "
          "spawn_sseq, draws normal/uniform/pm1 x float/complex/int, raise inside a context (caught outside), "
          "getState/setState at top level}; non-trivial: nesting >=2 and >=1 exception. proc: 5 workloads x 3 "
          "fresh processes (PYTHONHASHSEED 0, 1, 4242) ; maps: {vmap,lmap,smap}^2 x jit on/off against the "
          "(lmap, vmap, jit) reference. distinct = program / (workload, seeds) / map setting"),
    assumptions=["getState/setState are only exercised at stack depth 1 (documented as pickling helpers)",
                 "push/pop are generated balanced (try/finally); unbalanced use is documented user error",
                 "single-threaded XLA/BLAS in all processes"],
    need=["context_exits_checked", "exception_exits_checked", "context_draw_replays", "process_runs",
          "digest_sets_compared", "map_settings_compared", "history_pairs_compared"],
    quick=dict(cases=480, workers=14, budget_s=80),
    thorough=dict(cases=6000, workers=16, budget_s=1200),
    design_ref="DESIGN.md §5 C21",
    level_text="generated RNG-context programs with a stack monitor + differential runs across processes/strategies",
    level_note="bit-identity is required across processes on the same machine and library versions only",
)

PY = "/venv/bin/python"
ROOT = os.path.dirname(os.path.dirname(os.path.abspath(__file__)))


class Boom(Exception):
    pass


def init(ck):
    import nifty.cl as ift
    ck.state["ift"] = ift


# ------------------------------------------------------------------ ctx -------
DRAWS = [("normal", "f"), ("normal", "c"), ("uniform", "f"), ("uniform", "c"), ("uniform", "i"),
         ("pm1", "f"), ("pm1", "c"), ("pm1", "i")]


def gen_block(rng, depth, maxdepth):
    """list of ops"""
    ops = []
    for _ in range(int(rng.integers(1, 5))):
        r = int(rng.integers(0, 10))
        if r < 4 or depth >= maxdepth:
            k, t = DRAWS[int(rng.integers(0, len(DRAWS)))]
            ops.append(dict(op="draw", kind=k, dtype=t, n=int(rng.integers(1, 5))))
        elif r < 7:
            ops.append(dict(op="ctx", seed=int(rng.integers(0, 1000)), via=("seed", "sseq", "spawn")[
                int(rng.integers(0, 3))], body=gen_block(rng, depth + 1, maxdepth),
                raises=bool(rng.integers(0, 3) == 0)))
        elif r < 9:
            ops.append(dict(op="pushpop", seed=int(rng.integers(0, 1000)), via=("sseq", "seed")[
                int(rng.integers(0, 2))], body=gen_block(rng, depth + 1, maxdepth)))
        else:
            ops.append(dict(op="spawn", n=int(rng.integers(1, 4))))
    return ops


def do_draw(ift, op):
    R = ift.random.Random
    dt = {"f": np.float64, "c": np.complex128, "i": np.int64}[op["dtype"]]
    shp = (op["n"],)
    if op["kind"] == "normal":
        if op["dtype"] == "i":
            dt = np.float64
        return R.normal(dt, shp, mean=0.5, std=2.0)
    if op["kind"] == "uniform":
        if op["dtype"] == "i":
            return R.uniform(dt, shp, low=1, high=9)
        return R.uniform(dt, shp, low=-1.0, high=2.0)
    return R.pm1(dt, shp)


def depth_and_nesting(ops, d=1):
    md, exc = d, 0
    for o in ops:
        if o["op"] in ("ctx", "pushpop"):
            a, b = depth_and_nesting(o["body"], d + 1)
            md = max(md, a)
            exc += b + (1 if o.get("raises") else 0)
    return md, exc


class CtxMonitor:
    def __init__(self, ck, ift):
        self.ck, self.ift, self.R = ck, ift, ift.random
        self.blocks = []    # (seed-descriptor, [draw ops directly inside], [results]) for replay

    def snapshot(self):
        R = self.R
        top = R.current_rng()
        return dict(depth=len(R._sseq), depth_rng=len(R._rng), top=top,
                    state=json.dumps(top.bit_generator.state, sort_keys=True, default=str),
                    sseq_top=R._sseq[-1])

    def check_restored(self, before, what, exceptional):
        R = self.R
        ck = self.ck
        ck.hit("exception_exits_checked" if exceptional else "context_exits_checked")
        how = "exception" if exceptional else "normal"
        if len(R._sseq) != before["depth"] or len(R._rng) != before["depth_rng"]:
            ck.violation(f"rng-stack-depth-not-restored:{what}:{how}",
                         f"stack depth {before['depth']} -> {len(R._sseq)} after leaving {what} ({how} exit)")
            # repair for the rest of the program
            while len(R._sseq) > before["depth"]:
                R.pop_sseq()
            return
        if R.current_rng() is not before["top"]:
            ck.violation(f"rng-generator-not-restored:{what}:{how}",
                         f"current_rng() is a different object after leaving {what} ({how} exit)")
            return
        st = json.dumps(R.current_rng().bit_generator.state, sort_keys=True, default=str)
        if what != "program" and st != before["state"]:   # top-level draws of the program use the outer generator
            ck.violation(f"rng-generator-state-changed:{what}:{how}",
                         f"the outer generator's state changed while inside {what} ({how} exit)")
        if R._sseq[-1] is not before["sseq_top"]:
            ck.violation(f"rng-sseq-not-restored:{what}:{how}", f"top seed sequence differs after {what}")

    def run_block(self, ops, record=None):
        ift, R = self.ift, self.R
        for o in ops:
            if o["op"] == "draw":
                x = do_draw(ift, o)
                if record is not None:
                    record.append((o, np.array(x)))
            elif o["op"] == "spawn":
                R.spawn_sseq(o["n"])
                if record is not None:
                    record.append((o, None))
            elif o["op"] == "ctx":
                before = self.snapshot()
                if o["via"] == "seed":
                    arg, desc = o["seed"], ("seed", o["seed"])
                elif o["via"] == "sseq":
                    arg, desc = np.random.SeedSequence(o["seed"]), ("seed", o["seed"])
                else:
                    # a spawned child: consumes the parent's spawn counter (recorded as an op of the parent)
                    arg = R.spawn_sseq(1)[0]
                    desc = ("sseq", arg.entropy, tuple(arg.spawn_key))
                    if record is not None:
                        record.append((dict(op="spawn", n=1), None))
                    before = self.snapshot()
                rec = []
                boom = Boom(f"boom-{o['seed']}")
                caught = None
                try:
                    with R.Context(arg):
                        self.run_block(o["body"], rec)
                        if o["raises"]:
                            raise boom
                except Boom as e:
                    caught = e
                if o["raises"]:
                    if caught is not boom:
                        self.ck.violation("exception-not-propagated-unchanged",
                                          f"exception raised inside Context came out as {caught!r}")
                elif caught is not None:
                    raise caught
                self.check_restored(before, "Context", o["raises"])
                self.blocks.append((desc, rec))
            elif o["op"] == "pushpop":
                before = self.snapshot()
                rec = []
                if o["via"] == "sseq":
                    R.push_sseq(np.random.SeedSequence(o["seed"]))
                else:
                    R.push_sseq_from_seed(o["seed"])
                try:
                    self.run_block(o["body"], rec)
                finally:
                    R.pop_sseq()
                self.check_restored(before, "push/pop", False)
                self.blocks.append((("seed", o["seed"]), rec))

    def replay_blocks(self):
        """draws directly inside a context depend only on its seed: replay each block's own op
        sequence under a bare Context in a clean state and compare bit-wise"""
        ift, R = self.ift, self.R
        for desc, rec in self.blocks:
            if not any(r[1] is not None for r in rec):
                continue
            if desc[0] == "seed":
                s = np.random.SeedSequence(desc[1])
            else:
                s = np.random.SeedSequence(desc[1], spawn_key=desc[2])
            self.ck.hit("context_draw_replays")
            with R.Context(s):
                for o, val in rec:
                    if o["op"] == "spawn":
                        R.spawn_sseq(o["n"])
                        continue
                    x = np.array(do_draw(ift, o))
                    if x.dtype != val.dtype or x.tobytes() != val.tobytes():
                        self.ck.violation("context-draws-depend-on-history",
                                          f"draw {o} inside Context({desc[:2]}) differs between the generated "
                                          "program and a bare context with the same seed")
                        return
            # independent anchor for the first plain normal draw: numpy's own generator
            o0, v0 = rec[0]
            if o0["op"] == "draw" and o0["kind"] == "normal" and o0["dtype"] == "f":
                g = np.random.default_rng(s if desc[0] == "seed" else np.random.SeedSequence(desc[1],
                                                                                             spawn_key=desc[2]))
                exp = g.normal(0.5, 2.0, (o0["n"],))
                self.ck.hit("numpy_anchor_checks")
                if exp.tobytes() != v0.tobytes():
                    self.ck.violation("context-draw-not-from-fresh-seeded-generator",
                                      "first normal draw inside Context(s) differs from default_rng(SeedSequence(s))")


def ctx_case(ck, rng):
    ift = ck.state["ift"]
    R = ift.random
    prog = gen_block(rng, 1, ck.pick(4, 5))
    md, nexc = depth_and_nesting(prog)
    ck.note(dict(family="ctx", program=prog), nontrivial=(md >= 3 and nexc >= 1), klass="ctx")
    R.push_sseq_from_seed(int(rng.integers(0, 10 ** 6)))
    try:
        mon = CtxMonitor(ck, ift)
        before = mon.snapshot()
        mon.run_block(prog, [])
        mon.check_restored(before, "program", False)
        mon.replay_blocks()
        # getState / setState round trip at depth of the case
        st = R.getState()
        a = np.array(R.Random.normal(np.float64, (3,)))
        R.setState(st)
        b = np.array(R.Random.normal(np.float64, (3,)))
        ck.hit("state_roundtrips")
        if a.tobytes() != b.tobytes():
            ck.violation("getstate-setstate-roundtrip", "draws after setState(getState()) differ")
    finally:
        while len(R._sseq) > 1:
            R.pop_sseq()


# ------------------------------------------------------------------ proc ------
def run_repro(name, params, hashseed, timeout=600):
    env = dict(os.environ)
    env["PYTHONHASHSEED"] = str(hashseed)
    p = subprocess.run([PY, "-B", "-m", "vf.repro", name, json.dumps(params)], cwd=ROOT, env=env,
                       capture_output=True, text=True, timeout=timeout)
    for line in p.stdout.splitlines()[::-1]:
        if line.startswith("VFRESULT "):
            return json.loads(line[9:]), p.returncode, ""
    return None, p.returncode, (p.stderr or "")[-1500:]


PROC_WORKLOADS = [("cl_draw_chain", {}), ("cl_kl", {}), ("cl_kl", {"geovi": True}), ("cl_okl", {}),
                  ("re_draws", {}), ("re_okl", {"n_iter": 2})]


def proc_case(ck, rng, i):
    from vf.runner import Skip
    name, params = PROC_WORKLOADS[(i // PERIOD) % len(PROC_WORKLOADS)]
    params = dict(params, seed=int(rng.integers(1, 10 ** 6)), key=int(rng.integers(1, 10 ** 6)))
    seeds = [0, 1, int(rng.integers(2, 10 ** 6))]
    ck.note(dict(family="proc", workload=name, params=params, hashseeds=seeds), nontrivial=True,
            klass="proc:" + name)
    digs = []
    for hs in seeds:
        try:
            res, rc, err = run_repro(name, params, hs)
        except subprocess.TimeoutExpired:
            raise Skip("child timed out")
        ck.hit("process_runs")
        if res is None:
            ck.violation(f"repro-workload-raises:{name}", f"workload failed rc={rc}: {err[-400:]}")
            return
        digs.append(res["digest"])
    ck.hit("digest_sets_compared")
    if len(set(digs)) != 1:
        ck.violation(f"not-reproducible-across-processes:{name}",
                     f"same seed, fresh processes (PYTHONHASHSEED {seeds}) gave different results: "
                     f"{[d[:12] for d in digs]}", params=params)


# ------------------------------------------------------------------ maps ------
MAPS = ("vmap", "lmap", "smap")
PERIOD = 60      # one proc case and one maps case per 40 cases (they cost 10-30 s each)


def maps_case(ck, rng, i):
    from vf.runner import Skip
    allcfg = [(rm, km, jit) for rm in MAPS for km in MAPS for jit in (True, False)]
    cfg = allcfg[(i // PERIOD + 1) % len(allcfg)]
    base = dict(key=int(rng.integers(1, 10 ** 6)), model_seed=int(rng.integers(1, 100)),
                sample_mode=("nonlinear_resample", "linear_resample")[int(rng.integers(0, 2))])
    ck.note(dict(family="maps", residual_map=cfg[0], kl_map=cfg[1], jit=cfg[2], base=base), nontrivial=True,
            klass="maps")
    try:
        ref, rc, err = run_repro("re_okl", dict(base, residual_map="lmap", kl_map="vmap", jit=True), 0, 900)
        oth, rc2, err2 = run_repro("re_okl", dict(base, residual_map=cfg[0], kl_map=cfg[1], jit=cfg[2]), 0, 900)
    except subprocess.TimeoutExpired:
        raise Skip("child timed out")
    ck.hit("process_runs", 2)
    if ref is None or oth is None:
        ck.violation(f"map-setting-raises:{cfg[0]}:{cfg[1]}:jit={cfg[2]}",
                     f"optimize_kl failed under a documented map/jit setting: {(err or err2)[-400:]}")
        return
    ck.hit("map_settings_compared")
    worst = 0.0
    for a, b in zip(ref["values"], oth["values"]):
        a, b = np.asarray(a), np.asarray(b)
        if a.shape != b.shape:
            worst = float("inf")
            break
        sc = max(float(np.max(np.abs(a))), 1e-3)
        worst = max(worst, float(np.max(np.abs(a - b))) / sc)
    if worst > 1e-6:   # round-off amplified by a fixed number of (unconverged) Newton/CG steps reaches ~2e-8

        ck.violation(f"result-depends-on-map:{cfg[0]}:{cfg[1]}:jit={cfg[2]}",
                     f"final samples differ from the (lmap, vmap, jit) run by {worst:.3g} relative",
                     base=base)


def gen_hist_cfg(rng):
    pes = [[], ["amp"], ["xi"]][int(rng.integers(0, 3))]
    return dict(point_estimates=pes, pe_form=("bool_vector", "keys")[int(rng.integers(0, 2))],
                n_samples=int(rng.integers(1, 3)), jit=True, key=int(rng.integers(1, 1000)),
                sample_mode=("linear_resample", "nonlinear_resample")[int(rng.integers(0, 2))])


def hist_case(ck, rng, i):
    """history independence: the last run of a sequence of runs in one process must be bit-identical
    to the same run alone in a fresh process, and agree with jit=False up to round-off"""
    from vf.runner import Skip
    target = gen_hist_cfg(rng)
    if not target["point_estimates"]:
        target["point_estimates"] = ["xi"]
    earlier = []
    for _ in range(int(rng.integers(1, 3))):
        c = gen_hist_cfg(rng)
        if rng.integers(0, 2):      # same form and shapes as the target, different pattern
            c["pe_form"] = target["pe_form"]
            c["point_estimates"] = ["amp"] if target["point_estimates"] == ["xi"] else ["xi"]
            c["n_samples"] = target["n_samples"]
            c["sample_mode"] = target["sample_mode"]
        earlier.append(c)
    base = dict(model_seed=int(rng.integers(1, 100)))
    ck.note(dict(family="hist", earlier=earlier, target=target), nontrivial=True, klass="hist")
    try:
        alone, rc1, e1 = run_repro("re_history", dict(base, history=[target]), 0, 900)
        after, rc2, e2 = run_repro("re_history", dict(base, history=earlier + [target]), 0, 900)
        nojit, rc3, e3 = run_repro("re_history", dict(base, history=[dict(target, jit=False)]), 0, 900)
    except subprocess.TimeoutExpired:
        raise Skip("child timed out")
    ck.hit("process_runs", 3)
    if alone is None or after is None or nojit is None:
        ck.violation("history-run-raises", f"optimize_kl failed: {(e1 or e2 or e3)[-400:]}",
                     earlier=earlier, target=target)
        return
    ck.hit("history_pairs_compared")
    if alone["digest"] != after["digest"]:
        dev = max(float(np.max(np.abs(np.asarray(a) - np.asarray(b)))) for a, b in
                  zip(alone["values"], after["values"]))
        ck.violation(f"result-depends-on-earlier-runs:pe_form={target['pe_form']}",
                     f"the same run (same seed) gives different results after earlier runs in the same "
                     f"process than alone in a fresh process (max deviation {dev:.3g})",
                     earlier=earlier, target=target)
    worst = 0.0
    for a, b in zip(alone["values"], nojit["values"]):
        a, b = np.asarray(a), np.asarray(b)
        worst = max(worst, float(np.max(np.abs(a - b))) / max(float(np.max(np.abs(a))), 1e-3))
    if worst > 1e-6:
        ck.violation(f"result-depends-on-jit:pe_form={target['pe_form']}",
                     f"jit=True and jit=False differ by {worst:.3g} relative", target=target)


def case(ck, i):
    rng = ck.rng()
    fam = i % PERIOD
    if fam == 2:
        return hist_case(ck, rng, i)
    if fam == 0:
        proc_case(ck, rng, i)
    elif fam == 1:
        maps_case(ck, rng, i)
    else:
        ctx_case(ck, rng)
