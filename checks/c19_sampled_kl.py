"""C19 — The sampled KL energy is the sample average of the Hamiltonian.

Observed on the real objects: classic ``SampledKLEnergy(...)`` / ``SampledKLEnergyClass``
(.value, .gradient, .apply_metric/.metric, .position, .samples, .at(), a 3-step
minimisation) and JAX ``OptimizeVI.kl_value_and_grad`` / ``kl_metric`` /
``kl_minimize`` (the reduced functions NIFTy hands to the minimiser are captured
through the public ``minimize=`` argument).  Oracle: an independent NumPy mirror of
the generated model averages H, grad H and the metric over the samples the KL object
itself reports.
"""
import numpy as np

from vf import vihelp as vh

META = dict(
    id="C19", level="exploration",
    title="The sampled KL energy is the sample average of the Hamiltonian",
    technique="independent sample average of a NumPy mirror Hamiltonian vs the live KL objects",
    rule=("case = generated Hamiltonian (Gaussian or Poissonian likelihood, 1-3 latent keys on a "
          "MultiDomain / dict pytree, linear, tanh, exp, product coupling) x split of the keys into "
          "constants / point estimates / both / neither x samples (drawn by NIFTy, or hand-made "
          "residual lists incl. sub-domain residuals; mirrored or not; 1-4 samples, JAX also 0) x "
          "API (classic SampledKLEnergy, SampledKLEnergyClass; JAX kl_map vmap/smap/lmap, constants "
          "as key tuple or boolean pytree). non-trivial: >=2 samples and a non-empty constants or "
          "point-estimate set; distinct = distinct descriptor"),
    assumptions=["value compared at 1e-11 relative, gradient/metric norm-wise 1e-9",
                 "kl_map='lmap' only with jit=False (lmap is a Python loop and cannot be traced)",
                 "Poissonian models use rate exp(s) with |s| kept moderate by the generator",
                 "the value is compared with the average of the *full* Hamiltonian (incl. the prior "
                 "energy of constant keys), as the property states",
                 "hand-made lists go through SampledKLEnergyClass without keys that are both constant "
                 "and point-estimated (that split is only reachable through SampledKLEnergy)",
                 "JAX cases are not started with < 30 s of budget left (counted as skipped)"],
    need=["cl_value", "cl_gradient", "cl_metric", "cl_at_residuals", "cl_constants_minimise",
          "re_value_grad", "re_metric", "re_constants_reduced", "re_constants_minimise", "re_at"],
    quick=dict(cases=900, workers=8, budget_s=75),
    thorough=dict(cases=20000, workers=16, budget_s=780),
    design_ref="DESIGN.md §5 C19",
    level_text=("every generated case compares value, gradient and dense metric of the live KL object "
                "with an independent average; exploration of models x key splits x sample lists"),
    level_note=("the samples entering the oracle are read from the KL object's own public sample "
                "list (their distribution is C18's business); trusts NumPy"),
    max_skip_fraction=0.3,
)

TOL_VAL = 1e-11
TOL_VEC = 1e-9


def init(ck):
    import logging
    import nifty.cl as ift
    ck.state["ift"] = ift
    ift.logger.setLevel(logging.CRITICAL)


def _subset(rng, keys, p_empty=0.4, proper=False):
    if rng.uniform() < p_empty:
        return []
    ks = [k for k in keys if rng.integers(0, 2)]
    if not ks:
        ks = [keys[int(rng.integers(0, len(keys)))]]
    if proper and len(ks) == len(keys):
        ks = ks[:-1]
    return ks


def case(ck, i):
    return vh.run_case(ck, _case, i)


def _case(ck, i):
    rng = ck.rng()
    forced = {0: ("re", dict(const=True, ns=2)), 1: ("cl", dict(const=True, route="drawn")),
              2: ("cl", dict(const=True, route="hand")), 3: ("re", dict(const=True, ns=3))}.get(i)
    if forced:
        return (case_re if forced[0] == "re" else case_cl)(ck, rng, forced[1])
    if rng.uniform() < 0.09:
        return case_re(ck, rng, {})
    return case_cl(ck, rng, {})


# =====================================================================================
# classic
# =====================================================================================
def case_cl(ck, rng, force):
    ift = ck.state["ift"]
    lhk = "poisson" if rng.integers(0, 4) == 0 else "gauss"
    m = vh.gen_model(rng, lh=lhk, nkeys=(int(rng.integers(2, 4)) if force.get("const") else None))
    mir = vh.Mirror(m)
    b = vh.build_cl(ift, m, rg=bool(rng.integers(0, 2)))
    dom = b["dom"]
    keys = mir.keys
    x0 = 0.7 * rng.standard_normal(mir.n)
    pos = vh.cl_field(ift, dom, mir, x0)
    route = force.get("route", "drawn" if rng.integers(0, 2) else "hand")
    ns = int(rng.integers(1, 5))
    mirror = bool(rng.integers(0, 2))
    const = _subset(rng, keys, p_empty=0.35, proper=True) if len(keys) > 1 else []
    if force.get("const") and not const:
        const = [keys[0]]
    pe = _subset(rng, keys, p_empty=0.5, proper=True) if len(keys) > 1 else []
    if route == "hand":
        pe = [k for k in pe if k not in const]          # no invariants in the raw constructor
    seed = int(rng.integers(0, 2**31))
    sub_res = bool(rng.integers(0, 2))
    opt = dict(api="cl", route=route, ns=ns, mirror=mirror, const=const, pe=pe, seed=seed,
               sub_res=sub_res)
    nsamp = ns * (2 if mirror else 1)
    ck.note(dict(model=vh.model_brief(m), opt=opt),
            nontrivial=(nsamp >= 2 and bool(const or pe)),
            klass=f"cl:{route}:{m['lh']}:c{int(bool(const))}p{int(bool(pe))}")

    ic = ift.GradientNormController(tol_abs_gradnorm=1e-10, iteration_limit=200)
    ham = ift.StandardHamiltonian(b["lh"], ic, prior_sampling_dtype=float)
    tag = f"cl:{route}"
    with ift.random.Context(seed):
        if route == "drawn":
            kl = ift.SampledKLEnergy(pos, ham, ns, None, mirror_samples=mirror, constants=const,
                                     point_estimates=pe)
        else:
            rkeys = [k for k in keys if k not in pe] if sub_res else keys
            residuals, neg = [], []
            for j in range(ns):
                rv = 0.4 * rng.standard_normal(mir.n)
                if not sub_res:
                    rv[mir.idx(pe)] = 0.0
                rf = vh.cl_field(ift, dom, mir, rv, keys=rkeys)
                residuals.append(rf)
                neg.append(False)
                if mirror:
                    residuals.append(rf)
                    neg.append(True)
            sl = ift.ResidualSampleList(pos, residuals, neg)
            kl = ift.minimization.kl_energies.SampledKLEnergyClass(sl, ham, const, None, True)
        _judge_cl(ck, ift, rng, kl, mir, dom, pos, x0, const, pe, nsamp, tag, ham)


def _samples_of(ift, mir, kl):
    return [vh.cl_vec(mir, f) for f in kl.samples.local_iterator()]


def _judge_cl(ck, ift, rng, kl, mir, dom, pos, x0, const, pe, nsamp, tag, ham):
    keys = mir.keys
    free = [k for k in keys if k not in const]
    fi = mir.idx(free)
    ci = mir.idx(const)
    seen = set()

    def violation(key, what, **w):
        if key not in seen:          # initial / after-at share mechanism keys: report once per case
            seen.add(key)
            ck.violation(key, what, **w)

    def judge_at(kl, xexp, label):
        S = _samples_of(ift, mir, kl)
        if len(S) != nsamp:
            violation(f"sample-count:{tag}", "number of samples in .samples is wrong",
                         got=len(S), expected=nsamp)
            return None
        # --- position: constants removed, values bit-identical
        ck.hit("cl_position")
        pk = sorted(kl.position.keys())
        if pk != sorted(free):
            violation(f"position-keys:{tag}", "constant keys are not removed from .position",
                         got=pk, expected=sorted(free))
            return None
        if not np.array_equal(vh.cl_vec(mir, kl.position, keys=free), xexp[fi]):
            violation(f"position-values:{tag}:{label}", ".position differs from the given position",
                         got=vh.small(vh.cl_vec(mir, kl.position, keys=free), 15),
                         expected=vh.small(xexp[fi], 15))
        # --- samples sit on the full position (constants from the original position)
        Sm = np.mean(S, axis=0)
        # --- value
        ck.hit("cl_value")
        Hs = [mir.H(s) for s in S]
        val = float(np.mean(Hs))
        got = float(kl.value)
        if not abs(got - val) <= TOL_VAL * max(abs(val), abs(got), 1.0):
            dropped = float(np.mean([0.5 * s[ci] @ s[ci] for s in S])) if len(ci) else 0.0
            if len(ci) and abs(got - (val - dropped)) <= TOL_VAL * max(abs(val), abs(got), 1.0):
                violation("value-omits-prior-energy-of-constants:cl",
                             "KL value lacks the prior energy 0.5*|xi_c|^2 of the constant keys "
                             "(equals the sample average of H minus that term)",
                             value=got, mean_H=val, dropped_term=dropped)
            else:
                violation(f"value-mismatch:{tag}:{label}",
                             "KL value differs from the sample average of the Hamiltonian",
                             value=got, mean_H=val)
        # --- gradient
        ck.hit("cl_gradient")
        gk = sorted(kl.gradient.keys())
        if gk != sorted(free):
            violation(f"gradient-keys:{tag}", "gradient carries constant keys / lacks free keys",
                         got=gk, expected=sorted(free))
        else:
            g = np.mean([mir.gradH(s) for s in S], axis=0)[fi]
            gg = vh.cl_vec(mir, kl.gradient, keys=free)
            if not vh.relerr(gg, g) <= TOL_VEC:
                violation(f"gradient-mismatch:{tag}:{label}",
                             "KL gradient differs from the sample average of grad H on the free keys",
                             got=vh.small(gg), expected=vh.small(g))
        # --- metric (dense)
        ck.hit("cl_metric")
        Mx = np.mean([mir.metric(s) for s in S], axis=0)[np.ix_(fi, fi)]
        cols = []
        for j in range(len(fi)):
            e = np.zeros(mir.n)
            e[fi[j]] = 1.0
            cols.append(vh.cl_vec(mir, kl.apply_metric(vh.cl_field(ift, dom, mir, e, keys=free)),
                                  keys=free))
        Mg = np.stack(cols, axis=1)
        if not vh.relerr(Mg, Mx) <= TOL_VEC:
            violation(f"metric-mismatch:{tag}:{label}",
                         "KL apply_metric differs from the sample average of the Hamiltonian metric",
                         got=vh.small(Mg), expected=vh.small(Mx))
        t = rng.standard_normal(mir.n)
        tf = vh.cl_field(ift, dom, mir, t, keys=free)
        a = vh.cl_vec(mir, kl.metric(tf), keys=free)
        if not vh.relerr(a, Mx @ t[fi]) <= TOL_VEC:
            violation(f"metric-operator-mismatch:{tag}", ".metric operator differs from the average "
                         "metric", got=vh.small(a), expected=vh.small(Mx @ t[fi]))
        return S

    S0 = judge_at(kl, x0, "initial")
    if S0 is None:
        return
    # constants of the samples' mean are those of the original position
    zero = ift.full(dom, 0.)
    r0 = [vh.cl_vec(mir, f) for f in kl.samples.at(zero).local_iterator()]
    if len(ci):
        ck.hit("cl_constants_in_samples")
        mm = vh.cl_vec(mir, kl.samples.mean)
        if not np.array_equal(mm[ci], x0[ci]):
            ck.violation(f"constants-changed:{tag}:construction",
                         "constant keys of the samples' mean differ from the given position")
    # point-estimated keys carry no residual
    if len(pe):
        ck.hit("cl_pe_zero")
        pi = mir.idx(pe)
        if any(np.any(r[pi] != 0) for r in r0):
            ck.violation(f"point-estimate-residual-nonzero:{tag}", "residual on point-estimated key")

    # --- at(): residuals kept bit-identically, averages follow the new position
    xn = x0.copy()
    xn[fi] = x0[fi] + 0.5 * rng.standard_normal(len(fi))
    newp = vh.cl_field(ift, dom, mir, xn, keys=free)
    kl2 = kl.at(newp)
    r2 = [vh.cl_vec(mir, f) for f in kl2.samples.at(zero).local_iterator()]
    ck.hit("cl_at_residuals")
    if len(r2) != len(r0) or not all(np.array_equal(a, bb) for a, bb in zip(r0, r2)):
        ck.violation(f"at-changes-residuals:{tag}", "at(new_position) does not keep the residuals "
                     "bit-identically", before=vh.small(r0[0], 15),
                     after=vh.small(r2[0], 15) if r2 else None)
    else:
        judge_at(kl2, xn, "after-at")
        mm = vh.cl_vec(mir, kl2.samples.mean)
        if not np.array_equal(mm[ci], x0[ci]) or not np.array_equal(mm[fi], xn[fi]):
            ck.violation(f"at-mean-wrong:{tag}", "mean of the samples after at() is not the new "
                         "position united with the constants", got=vh.small(mm, 15),
                         expected=vh.small(xn, 15))

    # --- 3-step minimisation leaves constants unchanged and keeps residuals
    mini = ift.NewtonCG(ift.GradientNormController(iteration_limit=3))
    kl3, _ = mini(kl)
    ck.hit("cl_constants_minimise")
    if sorted(kl3.position.keys()) != sorted(free):
        ck.violation(f"position-keys:{tag}:after-minimise", "constants appear in the optimised position",
                     got=sorted(kl3.position.keys()))
        return
    mm = vh.cl_vec(mir, kl3.samples.mean)
    if len(ci) and not np.array_equal(mm[ci], x0[ci]):
        ck.violation(f"constants-changed:{tag}:minimise", "constant keys changed during minimisation",
                     before=vh.small(x0[ci], 15), after=vh.small(mm[ci], 15))
    if not np.array_equal(mm[fi], vh.cl_vec(mir, kl3.position, keys=free)):
        ck.violation(f"samples-mean-not-position:{tag}", "samples.mean differs from the optimised "
                     "position on the free keys")
    r3 = [vh.cl_vec(mir, f) for f in kl3.samples.at(zero).local_iterator()]
    if len(r3) != len(r0) or not all(np.array_equal(a, bb) for a, bb in zip(r0, r3)):
        ck.violation(f"minimise-changes-residuals:{tag}", "residuals changed during KL minimisation")
    if np.any(mm[fi] != x0[fi]):
        ck.hit("cl_minimise_moved")


# =====================================================================================
# JAX
# =====================================================================================
def case_re(ck, rng, force):
    vh.jax_budget_guard(ck, forced=bool(force))
    jax, jnp, jft, rs = vh.get_jax(ck)
    rs.off()
    lhk = "poisson" if rng.integers(0, 4) == 0 else "gauss"
    m = vh.gen_model(rng, lh=lhk, nkeys=(int(rng.integers(2, 4)) if force.get("const") else None))
    mir = vh.Mirror(m)
    r = vh.build_re(jax, jnp, jft, m)
    lh = r["lh"]
    keys = mir.keys
    x0 = 0.7 * rng.standard_normal(mir.n)
    pos = vh.re_pos(jft, jnp, mir, x0)
    kmap, jit = [("vmap", True), ("smap", True), ("lmap", False), ("vmap", True)][int(rng.integers(0, 4))]
    ns = force.get("ns", int(rng.integers(0, 4)))
    const = _subset(rng, keys, p_empty=0.3, proper=True) if len(keys) > 1 else []
    if force.get("const") and not const:
        const = [keys[0]]
    cform = "tuple" if rng.integers(0, 2) else "pytree"
    drawn = bool(ns > 0 and rng.integers(0, 4) == 0)
    kseed = int(rng.integers(0, 2**31))
    opt = dict(api="re", kmap=kmap, jit=jit, ns=ns, const=const, cform=cform, drawn=drawn, kseed=kseed)
    ck.note(dict(model=vh.model_brief(m), opt=opt), nontrivial=(ns >= 1 and bool(const)),
            klass=f"re:{kmap}:{m['lh']}:c{int(bool(const))}:n{ns}")
    tag = f"re:{kmap}"

    ovi = jft.OptimizeVI(lh, 1, kl_map=kmap, jit=jit, residual_map="lmap", linear_minimizer_jit=False)
    if ns == 0:
        smp = jft.Samples(pos=pos, samples=None, keys=None)
        R = np.zeros((0, mir.n))
    elif drawn:
        ks = jax.random.split(jax.random.PRNGKey(kseed), ns)
        smp, _ = ovi.draw_linear_samples(pos, ks, cg_kwargs=dict(resnorm=1e-9, miniter=0))
        R = vh.re_vec(mir, smp._samples, batch=2 * ns)
    else:
        R = 0.4 * rng.standard_normal((ns, mir.n))
        tree = {k: jnp.asarray(R[:, mir.sl(k)].reshape((ns,) + shp))
                for k, shp in zip(keys, mir.shapes)}
        smp = jft.Samples(pos=pos, samples=jft.Vector(tree), keys=None)
    nsamp = R.shape[0]

    # value / gradient at a moved position (kl_value_and_grad re-centres the samples itself)
    x1 = x0 + 0.3 * rng.standard_normal(mir.n)
    p1 = vh.re_pos(jft, jnp, mir, x1)
    S = [x1 + rr for rr in R] if nsamp else [x1]
    v, g = ovi.kl_value_and_grad(p1, primals_samples=smp)
    ck.hit("re_value_grad")
    val = float(np.mean([mir.H(s) for s in S]))
    if not abs(float(v) - val) <= TOL_VAL * max(abs(val), 1.0):
        ck.violation(f"value-mismatch:{tag}", "kl_value_and_grad value differs from the sample average "
                     "of the Hamiltonian", value=float(v), mean_H=val)
    gref = np.mean([mir.gradH(s) for s in S], axis=0)
    if not vh.relerr(vh.re_vec(mir, g), gref) <= TOL_VEC:
        ck.violation(f"gradient-mismatch:{tag}", "kl_value_and_grad gradient differs from the sample "
                     "average of grad H", got=vh.small(vh.re_vec(mir, g)), expected=vh.small(gref))
    # metric, dense
    ck.hit("re_metric")
    Mref = np.mean([mir.metric(s) for s in S], axis=0)
    cols = [vh.re_vec(mir, ovi.kl_metric(p1, vh.re_pos(jft, jnp, mir, e), primals_samples=smp))
            for e in np.eye(mir.n)]
    Mg = np.stack(cols, axis=1)
    if not vh.relerr(Mg, Mref) <= TOL_VEC:
        ck.violation(f"metric-mismatch:{tag}", "kl_metric differs from the sample average of the "
                     "Hamiltonian metric", got=vh.small(Mg), expected=vh.small(Mref))
    # Samples.at keeps residuals
    if nsamp:
        ck.hit("re_at")
        s2 = smp.at(p1)
        R2 = vh.re_vec(mir, s2._samples, batch=nsamp)
        full = vh.re_vec(mir, s2.samples, batch=nsamp)
        if not np.array_equal(R2, R) or not vh.relerr(full, x1[None, :] + R) <= 1e-15:
            ck.violation("at-changes-residuals:re", "Samples.at(new_pos) changes the residuals or "
                         "does not move the samples to the new position")

    # ---- constants: the reduced functions NIFTy hands to the minimiser
    S0 = [x0 + rr for rr in R] if nsamp else [x0]
    free = [k for k in keys if k not in const]
    fi = mir.idx(free)
    ci = mir.idx(const)
    if const:
        cst = tuple(const) if cform == "tuple" else jft.Vector({k: (k in const) for k in keys})
    else:
        cst = ()
    probe = {}

    def my_minimize(fun, x0, fun_and_grad=None, hessp=None, **kw):
        probe["x0"] = x0
        probe["vg"] = fun_and_grad(x0)
        probe["hessp"] = hessp
        probe["kw"] = sorted(kw)
        return jft.optimize.OptimizeResults(x=x0, success=True, status=0, fun=probe["vg"][0],
                                            jac=probe["vg"][1])

    st = ovi.kl_minimize(smp, minimize=my_minimize, constants=cst)
    if const:
        ck.hit("re_constants_reduced")
        xl = [np.asarray(a).reshape(-1) for a in jax.tree_util.tree_leaves(probe["x0"])]
        xl = np.concatenate(xl) if xl else np.zeros(0)
        if xl.shape != (len(fi),) or not np.array_equal(xl, x0[fi]):
            ck.violation("constants-not-removed:re:kl_minimize",
                         "the position handed to the minimiser is not the position without the "
                         "constant leaves", got=vh.small(xl, 15), expected=vh.small(x0[fi], 15))
        else:
            vv, gg = probe["vg"]
            gl = np.concatenate([np.asarray(a).reshape(-1) for a in jax.tree_util.tree_leaves(gg)])
            val0 = float(np.mean([mir.H(s) for s in S0]))
            g0 = np.mean([mir.gradH(s) for s in S0], axis=0)[fi]
            if not abs(float(vv) - val0) <= TOL_VAL * max(abs(val0), 1.0):
                ck.violation("value-mismatch:re:constants", "reduced KL value differs from the sample "
                             "average of H", value=float(vv), mean_H=val0)
            if gl.shape != g0.shape or not vh.relerr(gl, g0) <= TOL_VEC:
                ck.violation("gradient-mismatch:re:constants",
                             "reduced KL gradient is not the average gradient restricted to the "
                             "non-constant leaves", got=vh.small(gl), expected=vh.small(g0))
            M0 = np.mean([mir.metric(s) for s in S0], axis=0)[np.ix_(fi, fi)]
            t = rng.standard_normal(len(fi))
            leaves, td = jax.tree_util.tree_flatten(probe["x0"])
            tl, o = [], 0
            for a in leaves:
                n_ = int(np.prod(a.shape))
                tl.append(jnp.asarray(t[o:o + n_].reshape(a.shape)))
                o += n_
            tt = jax.tree_util.tree_unflatten(td, tl)
            hv = probe["hessp"](probe["x0"], tt)
            hl = np.concatenate([np.asarray(a).reshape(-1) for a in jax.tree_util.tree_leaves(hv)])
            if hl.shape != (len(fi),) or not vh.relerr(hl, M0 @ t) <= TOL_VEC:
                ck.violation("metric-mismatch:re:constants",
                             "reduced hessp is not the free-free block of the average metric applied "
                             "to the tangent", got=vh.small(hl), expected=vh.small(M0 @ t))
    # ---- real minimisation, constants bit-identical
    st = ovi.kl_minimize(smp, minimize_kwargs=dict(maxiter=3, name=None,
                                                   cg_kwargs=dict(name=None)), constants=cst)
    ck.hit("re_constants_minimise")
    xs = vh.re_vec(mir, st.x)
    if len(ci) and not np.array_equal(xs[ci], x0[ci]):
        ck.violation("constants-changed:re:kl_minimize", "constant leaves changed during kl_minimize",
                     before=vh.small(x0[ci], 15), after=vh.small(xs[ci], 15))
    if len(fi) and np.any(xs[fi] != x0[fi]):
        ck.hit("re_minimise_moved")
        v1 = float(np.mean([mir.H(xs + rr) for rr in R])) if nsamp else mir.H(xs)
        v0 = float(np.mean([mir.H(s) for s in S0]))
        if v1 > v0 + 1e-9 * max(1.0, abs(v0)):
            ck.violation("kl-minimize-raises-kl:re", "kl_minimize returned a position with a larger "
                         "sampled KL than the start", start=v0, end=v1)
    if len(ci):
        ck.hit("re_jac_constants")
        js = vh.re_vec(mir, st.jac)
        if np.any(js[ci] != 0):
            ck.violation("jac-of-constants-not-zero:re:kl_minimize",
                         "OptimizeResults.jac returned by kl_minimize is not zero on the constant "
                         "leaves (it carries the frozen position values)",
                         jac_const=vh.small(js[ci], 12), pos_const=vh.small(x0[ci], 12))
