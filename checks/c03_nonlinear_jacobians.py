"""C03 — Nonlinear operator values and Jacobians are exact derivatives.

Generated expression programs (vf/mirror.py) are interpreted twice: once into
``nifty.cl`` operators, once into an independent ``jax.numpy`` function.  The
check observes  F(x),  F(Linearization.make_var(x, want_metric)) -> val, dense
jac, dense jac.adjoint, dense metric  and compares them with the mirror value,
``jax.jacfwd`` of the mirror, its transpose, and  J^T M_lh J.
"""
import numpy as np

META = dict(
    id="C03", level="exploration",
    title="Nonlinear operator values and Jacobians are exact derivatives",
    technique="differential execution against an independent jax.numpy mirror; jax.jacfwd as "
              "Jacobian oracle; dense probing of jac / jac.adjoint / metric",
    rule=("random SSA expression programs (3-14 nodes beyond the leaves, node depth <= 6 quick / "
          "<= 9 thorough) over all 24 ptw_dict entries (value-guided: only applied inside their "
          "valid range, >= 0.05 away from kinks/poles/branch cuts), + - * / ** with operators, "
          "numbers and fields, vdot, sum/integrate (partial and full), real/imag/conjugate, "
          "makeOp, MatrixProductOperator, DomainChangerAndReshaper, LinearEinsum, "
          "MultiLinearEinsum, JaxOperator, ducktape_left/getitem on MultiDomain targets, "
          "partial insertion, and GaussianEnergy/Poissonian/InverseGamma/StudentT/Bernoulli/"
          "Categorical/VariableCovarianceGaussian/JaxLikelihood energies, scaled and summed "
          "likelihoods and StandardHamiltonian at the root; single domains and MultiDomains "
          "with 2-3 keys, <= 6 pixels per key, real and complex inputs, want_metric in {0,1}. "
          "non-trivial: >= 2 nonlinear nodes and >= 1 binary node, or a MultiDomain key used "
          "twice; distinct = distinct program descriptor"),
    assumptions=[
        "sigmoid means (1+tanh x)/2 and sinc means sin(pi x)/(pi x) (NIFTy's documented choice)",
        "values of likelihood energies and their Fisher metrics M_lh are taken from closed forms "
        "(C11 owns their correctness); C03 checks that J^T M_lh J is carried through",
        "a space holding real values is R^n: adjoint/metric outputs on such a space are compared "
        "after projection on the real part; complex spaces are R^2n and adjoint means transpose "
        "of the real matrix",
        "derivatives at non-differentiable points are not generated (NaN by design)",
        "FFT/Hartley operators are left to C02/C09; no cupy"],
    need=["value_cmp", "linval_cmp", "jac_cmp", "adjoint_cmp", "metric_cmp", "metric_absent_cmp",
          "complex_cases", "multidomain_cases"],
    quick=dict(cases=1100, workers=6, budget_s=75),
    thorough=dict(cases=24000, workers=16, budget_s=780),
    design_ref="DESIGN.md §5 C03",
    level_text=("random expression programs, every ptw_dict entry, one evaluation point per "
                "program, compared entry-wise against jax autodiff of an independent mirror; "
                "exploration of a bounded grammar, not exhaustive"),
    level_note=("trusts jax.numpy/jax.jacfwd and the mirror's reading of each node's documented "
                "meaning; M_lh closed forms trusted (C11)"),
    max_skip_fraction=0.3,
)

RTOL = 1e-9


def init(ck):
    import nifty.cl as ift
    import jax
    jax.config.update("jax_enable_x64", True)
    import vf.mirror as mr
    ck.state["ift"] = ift
    ck.state["mr"] = mr
    import logging
    ift.logger.setLevel(logging.ERROR)


def gen_case(ck, rng, mr):
    cplx = bool(rng.integers(0, 4) == 0)
    md = bool(rng.integers(0, 4) > 0)
    cfg = dict(md=md, nkeys=(2, 3), cplx=cplx, steps=(3, ck.pick(9, 14)),
               maxdepth=ck.pick(6, 9), energy=0.35, leafops=True,
               p_subst=0.1, jax=bool(rng.integers(0, 3) == 0))
    return mr.gen_program(rng, **cfg), cfg


def opkey(prog):
    """mechanism class of a failing program: the set of node kinds that are rare enough to
    matter is too large for a key; use the root kind"""
    return prog["nodes"][-1][0]


def culprit(ck, I, mr, prog, x, wm):
    """smallest node index whose own value/Jacobian already disagrees (for the mechanism key)"""
    lay = mr.input_layout(prog)
    xvec = lay.pack(mr.x_to_vals(prog, x))
    try:
        ops = mr.build_nifty(I, prog)
    except Exception:
        return None
    dom = mr.input_domain(I, prog)
    for i, nd in enumerate(prog["nodes"]):
        if nd[0] in ("var", "vars"):
            continue
        op = ops[i]
        try:
            free = op.domain.keys() if isinstance(op.domain, I.MultiDomain) else None
            if free is not None and any(k not in prog["inputs"] for k in free):
                continue      # inside a substitution scope
            xf = mr.np_to_field(I, dom, mr.x_to_vals(prog, x))
            xs = xf.extract(op.domain) if free is not None else xf
            lin = op(I.Linearization.make_var(xs, wm))
            val, vec, J, olay = mr.mirror_value_and_jac(prog, i, xvec)
            cols = []
            o = 0
            for k, s, c in lay.items:
                n = int(np.prod(s, dtype=np.int64))*(2 if c else 1)
                if free is None or k in free:
                    cols += list(range(o, o + n))
                o += n
            sublay = mr.Layout([it for it in lay.items if free is None or it[0] in free])
            lv = mr.field_to_np(I, lin.val)
            ok1, _ = mr.norm_close(olay.pack(lv, expand=True), vec, RTOL)
            Jn, _ = mr.dense_linear(I, lin.jac, sublay, op.domain, olay, True)
            ok2, _ = mr.norm_close(Jn, J[:, cols], RTOL)
            if not (ok1 and ok2):
                return ":".join(str(a) for a in nd[:2] if isinstance(a, str))
        except Exception:
            return ":".join(str(a) for a in nd[:2] if isinstance(a, str)) + "(raises)"
    return None


def case(ck, i):
    I, mr = ck.state["ift"], ck.state["mr"]
    rng = ck.rng()
    g, cfg = gen_case(ck, rng, mr)
    if g is None:
        ck.note(dict(gen="failed"), nontrivial=False, klass="gen-failed")
        ck.skip("generator produced no program")
        return
    prog, x, st = g
    wm = bool(rng.integers(0, 2))
    desc = dict(prog=prog, wm=wm)
    nontriv = (st["nl"] >= 2 and st["bin"] >= 1) or bool(st["keytwice"] and not prog["single"])
    ck.note(desc, nontrivial=nontriv, klass=("cplx-" if cfg["cplx"] else "real-")
            + ("md-" if cfg["md"] else "single-") + st["root"])
    for nd in prog["nodes"]:
        ck.hit("node:" + nd[0] + (":" + nd[1] if nd[0] in ("ptw", "lh") else ""))
    if cfg["cplx"]:
        ck.hit("complex_cases")
    if cfg["md"]:
        ck.hit("multidomain_cases")

    lay = mr.input_layout(prog)
    xvals = mr.x_to_vals(prog, x)
    xvec = lay.pack(xvals)
    ops = mr.build_nifty(I, prog)
    F = ops[-1]
    dom = mr.input_domain(I, prog)
    if F.domain is not dom:
        ck.violation("domain:" + opkey(prog), "operator domain is not the union of the used keys",
                     got=str(F.domain), want=str(dom))
        return
    xf = mr.np_to_field(I, dom, xvals)

    # ---- mirror -------------------------------------------------------------
    val_m, vec_m, J_m, olay = mr.mirror_value_and_jac(prog, len(prog["nodes"]) - 1, xvec)
    if not np.all(np.isfinite(J_m)) or not np.all(np.isfinite(vec_m)):
        ck.skip("mirror not finite at the point")
        return
    if np.max(np.abs(J_m), initial=0.) > 1e8:
        ck.skip("Jacobian too large for the fixed tolerance")
        return

    # ---- real code ------------------------------------------------------------
    v0 = F(xf)
    lin = F(I.Linearization.make_var(xf, wm))
    what = None

    def bad(key, msg, **w):
        c = culprit(ck, I, mr, prog, x, wm)
        ck.violation(f"{key}:{c or opkey(prog)}", msg, culprit=c, **w)

    # target / layout
    v0n = mr.field_to_np(I, v0)
    if isinstance(v0n, dict) != olay.multi or (olay.multi and sorted(v0n) != [k for k, _, _
                                                                              in olay.items]):
        bad("target", "value lives on a different (multi-)domain than the expression says")
        return
    ck.hit("value_cmp")
    ok, dev = mr.norm_close(olay.pack(v0n, expand=True), vec_m, RTOL)
    if not ok:
        bad("value", "F(x) differs from the mirror value", reldev=dev)
        return
    ck.hit("linval_cmp")
    lvn = mr.field_to_np(I, lin.val)
    ok, dev = mr.norm_close(olay.pack(lvn, expand=True), olay.pack(v0n, expand=True), 1e-13)
    if not ok:
        bad("linval", "value through a Linearization differs from plain evaluation", reldev=dev)
        return
    if lin.want_metric != wm:
        bad("want_metric", "want_metric flag lost", got=lin.want_metric, want=wm)
    if lin.jac.domain is not F.domain or lin.jac.target is not F.target:
        bad("jacdomain", "Jacobian domain/target differ from the operator's")
        return

    # Jacobian
    ck.hit("jac_cmp")
    Jn, _ = mr.dense_linear(I, lin.jac, lay, dom, olay, True)
    ok, dev = mr.norm_close(Jn, J_m, RTOL)
    if not ok:
        bad("jac", "dense Jacobian differs from jax.jacfwd of the mirror", reldev=dev,
            got=np.round(Jn, 6).tolist()[:4], want=np.round(J_m, 6).tolist()[:4])
        return
    # adjoint = transpose of the real matrix
    ck.hit("adjoint_cmp")
    tlay = mr.layout_of_value(I, v0)           # natural layout of the target
    An, _ = mr.dense_linear(I, lin.jac.adjoint, tlay, F.target, lay, False)
    want = olay.restrict_rows(J_m).T if True else None
    # olay marks cplx from the mirror dtype; tlay from the NIFTy dtype: they must agree
    if [c for _, _, c in tlay.items] != [c for _, _, c in olay.items]:
        # value is real in one world and complex (zero imaginary part) in the other: use NIFTy's
        olay2 = mr.Layout([(k, s, c) for (k, s, _), (_, _, c) in zip(olay.items, tlay.items)])
        want = olay2.restrict_rows(J_m).T
    ok, dev = mr.norm_close(An, want, RTOL)
    if not ok:
        bad("adjoint", "jac.adjoint is not the transpose of the real Jacobian matrix", reldev=dev)
        return

    # metric
    M_exp = mr.expected_metric(prog, len(prog["nodes"]) - 1, xvec) if wm else None
    if not mr.is_energy_root(prog) or not wm:
        ck.hit("metric_absent_cmp")
        if lin.metric is not None:
            bad("metric-unexpected", "a metric is present although "
                + ("it was not requested" if not wm else "the root is no likelihood energy"))
    else:
        if lin.metric is None:
            bad("metric-missing", "metric requested at a likelihood-energy root but None returned")
        elif M_exp is not None:
            ck.hit("metric_cmp")
            if lin.metric.domain is not F.domain or lin.metric.target is not F.domain:
                bad("metricdomain", "metric is not an endomorphism of the operator domain")
                return
            Mn, _ = mr.dense_linear(I, lin.metric, lay, dom, lay, False)
            ok, dev = mr.norm_close(Mn, M_exp, RTOL)
            if not ok:
                bad("metric", "metric differs from J^T M_lh J", reldev=dev)
        else:
            ck.hit("metric_present_only")
