"""C03 — Nonlinear operator values and Jacobians are exact derivatives.

Generated expression programs (vf/mirror.py) are interpreted twice: once into
``nifty.cl`` operators, once into an independent ``jax.numpy`` function.  The
check observes  F(x),  F(Linearization.make_var(x, want_metric)) -> val, dense
jac, dense jac.adjoint, dense metric  and compares them with the mirror value,
``jax.jacfwd`` of the mirror, its transpose, and  J^T M_lh J.
"""
import numpy as np

META = dict(
    id="C03", level="exploration",
    title="Nonlinear operator values and Jacobians are exact derivatives",
    technique="differential execution against an independent jax.numpy mirror; jax.jacfwd as "
              "Jacobian oracle; dense probing of jac / jac.adjoint / metric",
    rule=("random SSA expression programs (3-14 nodes beyond the leaves, node depth <= 6 quick / "
          "<= 9 thorough) over all 24 ptw_dict entries (value-guided: only applied inside their "
          "valid range, >= 0.05 away from kinks/poles/branch cuts), + - * / ** with operators, "
          "numbers and fields, vdot, sum/integrate (partial and full), real/imag/conjugate, "
          "makeOp, MatrixProductOperator, DomainChangerAndReshaper, LinearEinsum, "
          "MultiLinearEinsum, JaxOperator, ducktape_left/getitem on MultiDomain targets, "
          "partial insertion, and GaussianEnergy/Poissonian/InverseGamma/StudentT/Bernoulli/"
          "Categorical/VariableCovarianceGaussian/JaxLikelihood energies, scaled and summed "
          "likelihoods and StandardHamiltonian at the root; single domains and MultiDomains "
          "with 2-3 keys, <= 6 pixels per key, real and complex inputs, want_metric in {0,1}. "
          "non-trivial: >= 2 nonlinear nodes and >= 1 binary node, or a MultiDomain key used "
          "twice; distinct = distinct program descriptor"),
    assumptions=[
        "sigmoid means (1+tanh x)/2 and sinc means sin(pi x)/(pi x) (NIFTy's documented choice)",
        "values of likelihood energies and their Fisher metrics M_lh are taken from closed forms "
        "(C11 owns their correctness); C03 checks that J^T M_lh J is carried through",
        "a space holding real values is R^n: adjoint/metric outputs on such a space are compared "
        "after projection on the real part; complex spaces are R^2n and adjoint means transpose "
        "of the real matrix",
        "derivatives at non-differentiable points are not generated (NaN by design)",
        "FFT/Hartley operators are left to C02/C09; no cupy"],
    need=["value_cmp", "linval_cmp", "jac_cmp", "adjoint_cmp", "metric_cmp", "metric_absent_cmp",
          "complex_cases", "multidomain_cases"],
    quick=dict(cases=1500, workers=6, budget_s=75),
    thorough=dict(cases=40000, workers=16, budget_s=780),
    design_ref="DESIGN.md §5 C03",
    level_text=("random expression programs, every ptw_dict entry, one evaluation point per "
                "program, compared entry-wise against jax autodiff of an independent mirror; "
                "exploration of a bounded grammar, not exhaustive"),
    level_note=("trusts jax.numpy/jax.jacfwd and the mirror's reading of each node's documented "
                "meaning; M_lh closed forms trusted (C11)"),
    max_skip_fraction=0.3,
)

RTOL = 1e-9


def init(ck):
    import nifty.cl as ift
    import jax
    jax.config.update("jax_enable_x64", True)
    import vf.mirror as mr
    ck.state["ift"] = ift
    ck.state["mr"] = mr
    import logging
    ift.logger.setLevel(logging.ERROR)


def gen_case(ck, rng, mr):
    cplx = bool(rng.integers(0, 4) == 0)
    md = bool(rng.integers(0, 4) > 0)
    cfg = dict(md=md, nkeys=(2, 3), cplx=cplx, steps=(3, ck.pick(9, 14)),
               maxdepth=ck.pick(6, 9), energy=0.35, leafops=True,
               p_subst=0.1, jax=bool(rng.integers(0, 3) == 0))
    return mr.gen_program(rng, **cfg), cfg


def opkey(prog):
    return prog["nodes"][-1][0]


def node_name(nd):
    return ":".join(str(a) for a in nd[:2] if isinstance(a, str))


def culprit(I, mr, prog, x, wm):
    """first node (in program order) whose own value/Jacobian already disagrees with the
    mirror: names the mechanism in the violation key"""
    lay = mr.input_layout(prog)
    xvals = mr.x_to_vals(prog, x)
    xvec = lay.pack(xvals)
    try:
        ops = mr.build_nifty(I, prog)
    except Exception:
        return None
    dom = mr.input_domain(I, prog)
    xf = mr.np_to_field(I, dom, xvals)
    for i, nd in enumerate(prog["nodes"]):
        if nd[0] in ("var", "vars"):
            continue
        op = ops[i]
        multi = isinstance(op.domain, I.MultiDomain)
        if multi and any(k not in prog["inputs"] for k in op.domain.keys()):
            continue      # inside a substitution scope
        try:
            o = mr.mirror_value_and_jac(prog, i, xvec)
            sub = mr.Layout([it for it in lay.items if not multi or it[0] in op.domain.keys()])
            cols, c0 = [], 0
            for k, s, c in lay.items:
                n = int(np.prod(s, dtype=np.int64))*(2 if c else 1)
                if not multi or k in op.domain.keys():
                    cols += list(range(c0, c0 + n))
                c0 += n
            p = mr.probe_operator(I, op, xf.extract(op.domain) if multi else xf, wm, sub,
                                  adjoint=False, metric=False)
            ok1, _ = mr.norm_close(p.vec0, o.vec, RTOL, o.sval)
            ok2, _ = mr.norm_close(p.J, o.J[:, cols], RTOL, o.sjac)
            if not (ok1 and ok2):
                return node_name(nd)
        except mr.ProbeDomainError:
            return node_name(nd)
        except Exception:
            return node_name(nd) + "(raises)"
    return None


def case(ck, i):
    I, mr = ck.state["ift"], ck.state["mr"]
    rng = ck.rng()
    g, cfg = gen_case(ck, rng, mr)
    if g is None:
        ck.note(dict(gen="failed"), nontrivial=False, klass="gen-failed")
        ck.skip("generator produced no program")
        return
    prog, x, st = g
    wm = bool(rng.integers(0, 2))
    nontriv = (st["nl"] >= 2 and st["bin"] >= 1) or bool(st["keytwice"] and not prog["single"])
    ck.note(dict(prog=prog, wm=wm), nontrivial=nontriv,
            klass=("cplx-" if cfg["cplx"] else "real-") + ("md-" if cfg["md"] else "single-")
            + st["root"])
    for nd in prog["nodes"]:
        ck.hit("node:" + nd[0] + (":" + nd[1] if nd[0] in ("ptw", "lh") else ""))
    if cfg["cplx"]:
        ck.hit("complex_cases")
    if cfg["md"]:
        ck.hit("multidomain_cases")

    lay = mr.input_layout(prog)
    xvals = mr.x_to_vals(prog, x)
    xvec = lay.pack(xvals)
    root = len(prog["nodes"]) - 1

    def bad(key, msg, **w):
        c = culprit(I, mr, prog, x, wm)
        ck.violation(f"{key}:{c or opkey(prog)}", msg, culprit=c, **w)

    try:
        ops = mr.build_nifty(I, prog)
    except Exception as e:
        k = mr.nifty_exc_key(e)
        if k is None:
            raise
        ck.violation(f"build-raises:{k}", f"building the operator raised {type(e).__name__}: "
                     f"{str(e)[:200]}", node=[node_name(nd) for nd in prog["nodes"]][-4:])
        return
    F = ops[-1]
    dom = mr.input_domain(I, prog)
    if F.domain is not dom:
        ck.violation("domain:" + mr.first_wrong_domain(I, prog, ops), "operator domain is not "
                     "the union of the domains of its parts", got=str(F.domain), want=str(dom))
        return
    xf = mr.np_to_field(I, dom, xvals)

    # ---- mirror ---------------------------------------------------------------------
    stats = ck.state.setdefault("ostats", {})
    o = mr.mirror_value_and_jac(prog, root, xvec, stats=stats)
    if not np.all(np.isfinite(o.J)) or not np.all(np.isfinite(o.vec)):
        ck.skip("mirror not finite at the point")
        return
    if o.sjac > 1e8:
        ck.skip("Jacobian too large for the fixed tolerance")
        return

    # ---- real code --------------------------------------------------------------------
    try:
        p = mr.probe_operator(I, F, xf, wm, lay)
    except mr.NiftyRaised as e:
        ck.violation(f"raises:{e.key}", f"{e.phase} raised inside NIFTy: {e}",
                     nodes=[node_name(nd) for nd in prog["nodes"]])
        return
    except mr.ProbeDomainError as e:
        bad("domain-of-" + e.what.split()[0], f"{e.what}: field/operator on an unexpected domain")
        return
    if p.tlay.multi != o.olay.multi or [(k, s) for k, s, _ in p.tlay.items] != \
            [(k, s) for k, s, _ in o.olay.items]:
        bad("target", "value lives on a different (multi-)domain than the expression says")
        return
    ck.hit("value_cmp")
    ok, dev = mr.norm_close(p.vec0, o.vec, RTOL, o.sval)
    if not ok:
        bad("value", "F(x) differs from the mirror value", reldev=dev)
        return
    ck.hit("linval_cmp")
    ok, dev = mr.norm_close(p.veclin, p.vec0, 1e-13, o.sval, 1e-14)
    if not ok:
        bad("linval", "value through a Linearization differs from plain evaluation", reldev=dev)
        return
    lin = p.lin
    if lin.want_metric != wm:
        bad("want_metric", "want_metric flag lost", got=lin.want_metric, want=wm)
    if lin.jac.domain is not F.domain or lin.jac.target is not F.target:
        bad("jacdomain", "Jacobian domain/target differ from the operator's")
        return
    ck.hit("jac_cmp")
    ok, dev = mr.norm_close(p.J, o.J, RTOL, o.sjac)
    if not ok:
        bad("jac", "dense Jacobian differs from jax forward-mode autodiff of the mirror",
            reldev=dev, got=np.round(p.J, 6).tolist()[:3], want=np.round(o.J, 6).tolist()[:3])
        return
    ck.hit("adjoint_cmp")
    ok, dev = mr.norm_close(p.A, p.tlay.restrict_rows(o.J).T, RTOL, o.sjac)
    if not ok:
        bad("adjoint", "jac.adjoint is not the transpose of the real Jacobian matrix", reldev=dev)
        return

    # metric: carried iff requested and the root is a likelihood energy
    if not mr.is_energy_root(prog) or not wm:
        ck.hit("metric_absent_cmp")
        if lin.metric is not None:
            bad("metric-unexpected", "a metric is present although "
                + ("it was not requested" if not wm else "the root is no likelihood energy"))
        return
    if lin.metric is None:
        bad("metric-missing", "metric requested at a likelihood-energy root but None returned")
        return
    me = mr.expected_metric(prog, root, xvec)
    if me is None:
        ck.hit("metric_present_only")
        return
    ck.hit("metric_cmp")
    if lin.metric.domain is not F.domain or lin.metric.target is not F.domain:
        bad("metricdomain", "metric is not an endomorphism of the operator domain")
        return
    ok, dev = mr.norm_close(p.M, me[0], RTOL, me[1])
    if not ok:
        bad("metric", "metric differs from J^T M_lh J", reldev=dev)


def fini(ck):
    for k, v in ck.state.get("ostats", {}).items():
        ck.hit("oracle:" + k, v)
