"""C15 — JAX conjugate gradients: accurate, eager and compiled variants agree, non-PD behaviour.

Runs the real ``nifty.re.conjugate_gradient._cg`` (eager Python loop) and ``_static_cg``
(``lax.while_loop``; executed inside a ``jax.jit`` of the harness so that one compilation serves
all numeric draws of a *structure bucket*), plus the public ``cg`` / ``static_cg`` wrappers, on
generated dense Hermitian systems presented as pytree-shaped operators.  Everything is judged
from the returned ``(x, info, nit)`` with dense NumPy algebra on the generated matrix:

* HPD: ``info == 0`` -> the requested criterion really holds at ``x`` (true residual norm;
  energy decrease between the previous real iterate and ``x``); ``info > 0`` -> the criterion
  does *not* hold (otherwise a converged solve is reported as failed); no failure on HPD input;
  eager and compiled agree on ``info``/``nit``/``x``.
* not positive definite, ``_raise_nonposdef=True``: eager raises ``ValueError``, compiled
  returns ``info = -1`` whenever the first search direction has non-positive curvature
  (densely known); otherwise both variants must agree on whether they failed.
* not positive definite, ``_raise_nonposdef=False``: ``info >= 0``, quadratic energy at the
  result not above the start, and — first direction with negative curvature — the result is a
  steepest-descent step from the start (positive multiple of ``j - A x0``, strictly lower energy).

Per-iteration traces (energy, energy_diff, norm) are captured by replacing the module's
``_cg_pretty_print_it``; they make ties against the thresholds visible (tied cases: discrete
comparisons skipped).  Because CG amplifies rounding-level differences between two executions
(exponentially once orthogonality is lost) the eager/compiled comparison is calibrated by the
real solver itself: the eager solver is run once more with the right hand side perturbed by
1e-14 relative; decisions that this perturbation already changes are not compared, tie margins
are widened by 100x the observed response, and x is compared with 1e-9*scale + 100*response.

Mechanism keys: ``cg-<eager|static>:negcurv-first-direction-fallback``,
``cg-<v>:converged-at-maxiter-reported-as-failure``, ``cg-<v>:success-without-criterion``,
``cg-<v>:failure-despite-criterion``, ``cg-<v>:failure-on-hpd``, ``cg-<v>:nonposdef-not-reported``,
``cg-<v>:nonposdef-energy-above-start``, ``cg-<v>:failure-despite-raise-off``,
``cg:eager-vs-static-{info,nit,x,first-iteration,failure-verdict}``, ``cg:static-jit-vs-direct-*``,
``cg-eager:name-changes-result``.
"""
import numpy as np

from vf import resolve as rs


class Skip(Exception):
    """oracle precondition not met (reported through ck.skip)"""


META = dict(
    id="C15", level="exploration",
    title="JAX conjugate gradients: accurate, and eager and compiled variants agree",
    technique="runtime results of _cg/_static_cg/cg/static_cg judged by dense NumPy algebra; "
              "per-iteration trace monitor for ties; eager/compiled comparison calibrated by a "
              "rounding-level perturbation run of the real solver",
    rule=("case = (structure bucket, numeric draw). structure = class {hpd, hpd-at-limit (maxiter set to "
          "the observed convergence iteration k, k-1 or k+1), exact-x0, non-PD: negative definite / "
          "indefinite with first curvature <0 / >0 / exactly-zero curvature} x pytree layout (10 layouts, "
          "1-24 entries, real+complex, arrays and Vector of dict/tuple/list with 0-2-d leaves) x x0 "
          "given/None x criterion {resnorm, absdelta, both, tol/atol} x miniter/maxiter given/None x "
          "norm_ord {None,1,2,inf} x _raise_nonposdef x private/public entry x name given/None; numeric "
          "draw = spectrum in [1,1e3] (log / clustered / linear), rotation or diagonal basis, rhs, "
          "thresholds relative to |j| resp. |E*|. non-trivial: >=2 iterations, or non-PD system, or "
          "convergence exactly at the iteration limit; distinct = distinct descriptor"),
    assumptions=["float64 / complex128 only; spectra of |A| within [1,1e3] (cond <= 1e3), n <= 24",
                 "thresholds stay >= 1e-9 relative so that the solvers stop before the rounding floor "
                 "(an 'energy increased' at rounding level on an HPD system is counted as skipped)",
                 "maxiter >= 1 (with maxiter=0 the info encoding 'iteration count at the limit' collides "
                 "with 0 = converged)",
                 "the compiled variant is executed inside jax.jit with the numeric options as traced "
                 "arguments (as _static_newton_cg does); a small fraction of cases additionally calls it "
                 "un-jitted exactly like the eager one",
                 "eager/compiled agreement is asserted up to the solver's own response to a 1e-14 relative "
                 "perturbation of the right hand side (x100), not at a fixed 1e-10: CG is numerically "
                 "unstable after loss of orthogonality and two executions legitimately drift apart",
                 "time_threshold not exercised"],
    need=["eager_runs", "static_runs", "criterion_checks", "eager_static_comparisons",
          "nonpd_raise_checks", "nonpd_energy_checks", "fallback_checks", "at_limit_cases",
          "trace_events"],
    quick=dict(cases=320, workers=8, budget_s=90),
    thorough=dict(cases=6000, workers=16, budget_s=780),
    design_ref="DESIGN.md §5 C15",
    level_text=("generated systems x stopping configurations x non-PD classes, every result re-judged "
                "densely; exploration, not exhaustive"),
    level_note=("trusts numpy.linalg for the dense reference; the previous iterate needed for the "
                "energy-decrease criterion is obtained from the real solver run with maxiter = nit-1"),
    max_skip_fraction=0.3,
)

ORDS = {"None": None, "1": 1, "2": 2, "inf": np.inf}


# ----------------------------------------------------------------------- init ---
def init(ck):
    import jax
    import jax.numpy as jnp
    import nifty.re as jft
    from nifty.re import conjugate_gradient as cgm
    st = ck.state
    st.update(jax=jax, jnp=jnp, jft=jft, cgm=cgm, jit={}, trace={})

    def rec(name, i, *, energy, energy_diff, absdelta=None, norm=None, resnorm=None,
            maxiter=None):
        f = lambda v: None if v is None else float(np.asarray(v))
        st["trace"].setdefault(str(name), []).append(
            (int(np.asarray(i)), f(energy), f(energy_diff), f(norm)))

    cgm._cg_pretty_print_it = rec

    # the eager solver announces its 'gamma = 0' (exact solve) exit only through the logger
    import logging
    from nifty.re.logger import logger

    class Grab(logging.Handler):
        def emit(self, record):
            st["log"].append(record.getMessage())

    st["log"] = []
    for h in list(logger.handlers):
        logger.removeHandler(h)
    logger.addHandler(Grab())


# ------------------------------------------------------------------ structure ---
def draw_structure(rng, pool):
    s = {}
    s["klass"] = str(rng.choice(["hpd", "limit", "exact", "nonpd"], p=[0.4, 0.22, 0.05, 0.33]))
    s["layout"] = str(rng.choice(pool))
    s["x0"] = bool(rng.integers(0, 2)) or s["klass"] == "exact"
    s["crit"] = str(rng.choice(["res", "abs", "both", "tol"], p=[0.35, 0.25, 0.2, 0.2]))
    s["miniter"] = bool(rng.integers(0, 3) > 0)
    s["maxiter"] = bool(rng.integers(0, 3) > 0) or s["klass"] == "limit"
    s["ord"] = str(rng.choice(["None", "1", "2", "inf"], p=[0.4, 0.25, 0.1, 0.25]))
    s["raise"] = bool(rng.integers(0, 2))
    s["public"] = bool(rng.integers(0, 4) == 0)
    s["named"] = bool(rng.integers(0, 4) > 0)
    if s["klass"] == "nonpd":
        s["kind"] = str(rng.choice(["negdef", "indef_neg1", "indef_pos1", "zero"],
                                   p=[0.2, 0.4, 0.25, 0.15]))
        if s["kind"] == "zero" and rs.layout(s["layout"]).n < 2:
            s["kind"] = "negdef"
    return s


def skey(s):
    return tuple(sorted(s.items()))


def get_static(ck, s):
    """jitted harness function around the real _static_cg / static_cg for one structure"""
    st = ck.state
    k = skey(s)
    if k in st["jit"]:
        return st["jit"][k]
    jax, cgm = st["jax"], st["cgm"]
    lay = rs.layout(s["layout"])
    raise_, public = s["raise"], s["public"]
    name = "S" if s["named"] else None
    ord_ = ORDS[s["ord"]]

    def f(A, j, x0, nums):
        kw = dict(nums)
        if ord_ is not None:
            kw["norm_ord"] = ord_
        kw["_raise_nonposdef"] = raise_
        kw["name"] = name
        xx0 = lay.wrap(x0) if s["x0"] else None
        if public:
            x, info = cgm.static_cg(lay.matfun(A), lay.wrap(j), xx0, **kw)
            return lay.flat(x), info, -1
        r = cgm._static_cg(lay.matfun(A), lay.wrap(j), xx0, **kw)
        return lay.flat(r.x), r.info, r.nit

    st["jit"][k] = jax.jit(f)
    ck.hit("static_compilations")
    return st["jit"][k]


# -------------------------------------------------------------------- numbers ---
def draw_system(rng, s):
    lay = rs.layout(s["layout"])
    n, cplx = lay.n, lay.cplx
    mode = str(rng.choice(["log", "cluster", "lin"], p=[0.6, 0.2, 0.2]))
    hi = float(10 ** rng.uniform(0.3, 3.0))
    ev = rs.spectrum(rng, n, 1.0, hi, mode)
    basis = "diag" if (rng.integers(0, 6) == 0 or s["klass"] == "exact"
                       or s.get("kind") == "zero") else "rot"
    desc = dict(mode=mode, hi=round(hi, 3), basis=basis)

    def vec(scale=1.0):
        v = rng.standard_normal(n)
        if cplx:
            v = v + 1j * rng.standard_normal(n)
        return v * scale

    kind = s.get("kind")
    if s["klass"] == "exact":
        ev = np.round(ev) + 1.0
        A = rs.herm_from_spectrum(rng, ev, cplx, "diag")
        x0 = np.round(vec(3.0).real) + (1j * np.round(vec(3.0).imag) if cplx else 0.0)
        j = A @ x0
        return A, j, x0.astype(lay.dtype), desc
    if kind == "negdef":
        A = -rs.herm_from_spectrum(rng, ev, cplx, basis)
        j = vec()
    elif kind in ("indef_neg1", "indef_pos1"):
        sign = np.where(rng.random(n) < 0.5, -1.0, 1.0)
        if n >= 2:
            sign[0], sign[1] = -1.0, 1.0
        else:
            sign[0] = -1.0
        Q = rs.rand_unitary(rng, n, cplx) if basis == "rot" else np.eye(n)[rng.permutation(n)].T.astype(lay.dtype)
        A = (Q * (ev * sign)) @ Q.conj().T
        A = (A + A.conj().T) / 2
        # rhs in the eigenbasis: weight the negative (resp. positive) part
        c = vec()
        w = np.where(sign < 0, 1.0, 0.15) if kind == "indef_neg1" else np.where(sign < 0, 0.12, 1.0)
        j = Q @ (c * w / np.sqrt(ev))
        desc["nneg"] = int(np.sum(sign < 0))
    elif kind == "zero":
        evz = np.round(ev) + 1.0
        nz = int(rng.integers(1, n))
        evz[:nz] = 0.0
        if rng.integers(0, 2):
            evz[nz:] *= np.where(rng.random(n - nz) < 0.5, -1.0, 1.0)
        p = rng.permutation(n)
        evz = evz[p]
        A = np.diag(evz).astype(lay.dtype)
        j = np.where(evz == 0.0, (np.round(np.abs(vec(3.0).real)) + 1.0) * np.where(rng.random(n) < 0.5, -1, 1),
                     0.0).astype(lay.dtype)
        desc["nzero"] = nz
    else:
        A = rs.herm_from_spectrum(rng, ev, cplx, basis)
        j = vec(float(10 ** rng.uniform(-1, 1)))
    x0 = None
    if s["x0"]:
        if kind == "zero":
            x0 = np.where(np.diagonal(A).real == 0.0, np.round(vec(2.0).real), 0.0).astype(lay.dtype)
        else:
            x0 = vec(float(10 ** rng.uniform(-1, 0.5)) * np.linalg.norm(j) / np.sqrt(hi))
    return np.asarray(A, dtype=lay.dtype), np.asarray(j, dtype=lay.dtype), x0, desc


def draw_config(rng, s, A, j, x0, n):
    """numeric options; thresholds relative to |j| and to the energy scale"""
    ord_ = ORDS[s["ord"]]
    cfg = {}
    r0 = (A @ x0 - j) if x0 is not None else -j
    nj = rs.pnorm(r0, ord_) + rs.pnorm(j, ord_)
    try:
        xs = np.linalg.solve(A, j)
        escale = abs(rs.quad_energy(A, j, xs) - rs.quad_energy(A, j, x0 if x0 is not None else 0 * j))
    except np.linalg.LinAlgError:
        escale = 0.0
    escale = max(escale, 1e-3 * float(np.real(np.vdot(j, j))) / max(np.abs(A).max(), 1e-300), 1e-12)
    if s["crit"] in ("res", "both"):
        cfg["resnorm"] = float(10 ** rng.uniform(-8.5, -1.0) * nj)
    if s["crit"] in ("abs", "both"):
        cfg["absdelta"] = float(10 ** rng.uniform(-8.0, -1.0) * escale)
    if s["crit"] == "tol":
        if rng.integers(0, 2):
            cfg["tol"] = float(10 ** rng.uniform(-8.5, -1.5))
        if rng.integers(0, 2):
            cfg["atol"] = float(10 ** rng.uniform(-8.5, -1.0) * nj)
    if s["miniter"]:
        cfg["miniter"] = int(rng.choice([0, 0, 1, 2, 3, max(n - 1, 0), n, n + 3]))
    if s["maxiter"]:
        cfg["maxiter"] = int(rng.choice([1, 2, 3, max(n // 2, 1), n, n + 1, 2 * n + 5, 40 * n]))
    return cfg


def eff_resnorm(cfg, j, ord_):
    if "resnorm" in cfg:
        return cfg["resnorm"]
    if "absdelta" in cfg:
        return None
    return max(cfg.get("tol", 1e-5) * rs.pnorm(j, ord_), cfg.get("atol", 0.0))


# -------------------------------------------------------------------- running ---
def clean_trace(tr):
    """the eager loop prints the state once more when it breaks; fields it did not recompute in
    that iteration are stale copies of the previous entry -> blank them"""
    if len(tr) >= 2:
        a, b = tr[-2], tr[-1]
        tr[-1] = (b[0],) + tuple(None if (y is not None and x == y) else y for x, y in zip(a[1:], b[1:]))
    return tr


def run_eager(ck, s, lay, A, j, x0, cfg, name="E", public=False, maxiter=None, miniter=None):
    st = ck.state
    jnp, cgm = st["jnp"], st["cgm"]
    kw = dict(cfg)
    if maxiter is not None:
        kw["maxiter"] = maxiter
    if miniter is not None:
        kw["miniter"] = miniter
    if ORDS[s["ord"]] is not None:
        kw["norm_ord"] = ORDS[s["ord"]]
    kw["_raise_nonposdef"] = s["raise"]
    kw["name"] = name
    mat = lay.matfun_eager(A)
    jj = lay.wrap(np.asarray(j))
    xx0 = lay.wrap(np.asarray(x0)) if x0 is not None else None
    st["trace"].pop("E", None)
    st["log"].clear()
    ck.hit("eager_runs")
    try:
        if public:
            x, info = cgm.cg(mat, jj, xx0, **kw)
            nit = -1
        else:
            r = cgm._cg(mat, jj, xx0, **kw)
            x, info, nit = r.x, r.info, r.nit
            if bool(r.success) != (int(info) == 0):
                ck.violation("cg-eager:success-flag", "CGResults.success != (info == 0)",
                             info=int(info))
    except ValueError as e:
        return dict(exc=str(e)[:80], trace=clean_trace(st["trace"].pop("E", [])))
    return dict(x=lay.flat_np(x), info=int(info), nit=int(nit), exc=None,
                gamma0=any("gamma=0" in m for m in st["log"]),
                trace=clean_trace(st["trace"].pop("E", [])))


def run_static(ck, s, lay, A, j, x0, cfg, maxiter=None, miniter=None):
    st = ck.state
    f = get_static(ck, s)
    nums = dict(cfg)
    if maxiter is not None:
        nums["maxiter"] = maxiter
    if miniter is not None:
        nums["miniter"] = miniter
    st["trace"].pop("S", None)
    ck.hit("static_runs")
    x, info, nit = f(A, j, x0 if x0 is not None else np.zeros_like(j), nums)
    x = np.asarray(x)
    st["jax"].effects_barrier()
    return dict(x=x, info=int(info), nit=int(nit), exc=None, trace=st["trace"].pop("S", []))


# --------------------------------------------------------------------- oracle ---
def trace_ties(trace, cfg, resn, ptrace=None):
    """True if some recorded iteration came within the tie margin of a threshold.  The margin is
    1e-7 relative, widened to 100x the deviation that a 1e-14 relative perturbation of the right
    hand side produced at the same iteration of the real eager solver (``ptrace``): CG amplifies
    rounding-level differences, and two executions cannot agree better than that."""
    dp = {t[0]: t for t in (ptrace or [])}
    for (i, e, de, nrm) in trace:
        if i == 0:
            continue
        p = dp.get(i)
        for val, thr, k in ((nrm, resn, 3), (de, cfg.get("absdelta"), 2)):
            if thr is None or val is None or not np.isfinite(val):
                continue
            m = rs.TIE * max(abs(val), abs(thr))
            if ptrace is not None:
                if p is None or p[k] is None or not np.isfinite(p[k]):
                    m = 1e-2 * max(abs(val), abs(thr))
                else:
                    m += 100 * abs(val - p[k])
            if abs(val - thr) <= m:
                return True
    return False


def floor_hit(trace, upto=None):
    """energy differences at rounding level relative to the energy -> solver ran into the floor"""
    for (i, e, de, nrm) in trace:
        if upto is not None and i > upto:
            continue
        if i == 0 or de is None or e is None or not np.isfinite(de):
            continue
        if abs(de) < 1e-11 * abs(e):
            return True
    return False


def first_step_deviation(te, ts):
    """deviation of energy / norm after the first iteration relative to the start values"""
    de = {t[0]: t for t in te}
    ds = {t[0]: t for t in ts}
    if 0 not in de or 1 not in de or 1 not in ds or max(de) < 2 or max(ds) < 2:
        return None
    esc = max(abs(de[0][1]), abs(de[1][1]), 1e-300)
    d = abs(de[1][1] - ds[1][1]) / esc
    if de[1][3] is not None and ds[1][3] is not None and de[0][3]:
        d = max(d, abs(de[1][3] - ds[1][3]) / de[0][3])
    return d


def criterion(A, j, x, xprev, cfg, resn, ord_, nit, miniter):
    """(clearly met, clearly not met, true residual norm, solved to rounding level)"""
    nj = rs.pnorm(j, ord_) + 1e-300
    drift = 1e-10 * nj
    res = rs.pnorm(A @ x - j, ord_)
    flags_met, flags_not = [], []
    if resn is not None:
        flags_met.append(res < resn * (1 - 1e-6) - drift)
        flags_not.append(res >= resn * (1 + 1e-6) + drift)
    if "absdelta" in cfg:
        if xprev is None:
            flags_met.append(False)
            flags_not.append(False)      # unknown
        else:
            E1, E0 = rs.quad_energy(A, j, x), rs.quad_energy(A, j, xprev)
            slack = 1e-11 * (abs(E1) + abs(E0) + np.linalg.norm(j) * np.linalg.norm(x)) + 1e-300
            de = E0 - E1
            flags_met.append(de >= -slack and de < cfg["absdelta"] * (1 - 1e-6) - slack)
            flags_not.append(de >= cfg["absdelta"] * (1 + 1e-6) + slack)
    met = any(flags_met) and (nit < 0 or nit >= miniter)
    notmet = all(flags_not) or (0 <= nit < miniter)
    tiny = res <= 1e-12 * nj          # solved to rounding level (the 'gamma = 0' exit)
    return met, (notmet and not tiny), res, tiny


def default_miniter(cfg, n):
    if "miniter" in cfg:
        return cfg["miniter"]
    return min(6, cfg["maxiter"] if "maxiter" in cfg else 20 * n)


LIMKEY = "converged-at-maxiter-reported-as-failure"


def judge_hpd(ck, tag, res, A, j, x0, xprev, cfg, resn, ord_, n, tie):
    """checks on one variant's result for an HPD system; returns True if clean"""
    if res["exc"] is not None or res["info"] < 0:
        if floor_hit(res["trace"]) or tie:
            raise Skip("rounding floor reached (energy increase at rounding level)")
        ck.violation(f"cg-{tag}:failure-on-hpd",
                     f"{tag} CG reported failure on a Hermitian positive definite system",
                     info=res.get("info"), exc=res["exc"], cfg=cfg)
        return False
    nit, info = res["nit"], res["info"]
    miniter = default_miniter(cfg, n)
    met, notmet, rn, tiny = criterion(A, j, res["x"], xprev, cfg, resn, ord_, nit, miniter)
    res["tiny"] = tiny
    ck.hit("criterion_checks")
    if info == 0:
        if nit == 0 and x0 is not None and np.all(A @ x0 == j):
            return True
        if notmet and not tie:
            ck.violation(f"cg-{tag}:success-without-criterion",
                         f"{tag} CG returned info=0 but the requested criterion does not hold at x",
                         true_resnorm=rn, resnorm=resn, cfg=cfg, nit=nit)
            return False
        return True
    # info > 0
    if nit >= 0 and info != nit:
        ck.violation(f"cg-{tag}:info-not-iteration-count", "info > 0 but != nit", info=info, nit=nit)
        return False
    if met and not tie:
        lim = cfg.get("maxiter") is not None and info == cfg["maxiter"]
        key = LIMKEY if lim else "failure-despite-criterion"
        ck.violation(f"cg-{tag}:{key}",
                     f"{tag} CG returned info={info} (>0 = failure) although the requested criterion "
                     f"holds at the returned x" + (", reached exactly at the iteration limit" if lim else ""),
                     true_resnorm=rn, resnorm=resn, cfg=cfg, nit=nit)
        return False
    return True


def compare(ck, eg, sg, x0v, cfg, resn, pert, mi, label="eager-vs-static"):
    """eager vs compiled: same info, nit and x.  CG amplifies rounding differences between two
    executions (strongly once orthogonality is lost), so the comparison is calibrated by the real
    solver itself: ``pert`` is the eager run with the right hand side perturbed by 1e-14 relative.
    Discrete results are compared unless the perturbed run already decides differently or a
    threshold tie (margin widened by the perturbation response) is visible in a trace; x is
    compared with tolerance 1e-9*scale + 100 * |x_perturbed - x|."""
    fd = first_step_deviation(eg["trace"], sg["trace"])
    if fd is not None:
        ck.hit("trace_comparisons")
        if fd > 1e-9:
            ck.violation(f"cg:{label}-first-iteration",
                         "energy / residual norm after the first iteration differ between eager and "
                         "compiled CG", rel_dev=fd, cfg=cfg)
            return
    if pert is not None:
        if pert["exc"] is not None or pert["info"] != eg["info"] or pert["nit"] != eg["nit"]:
            ck.hit("unstable_decision_skipped")
            return
        ptr = pert["trace"]
        D = float(np.abs(pert["x"] - eg["x"]).max())
    else:
        ptr, D = None, 0.0
    if trace_ties(eg["trace"], cfg, resn, ptr) or trace_ties(sg["trace"], cfg, resn, ptr):
        ck.hit("tie_skipped_comparisons")
        return
    ck.hit("eager_static_comparisons")
    sc = np.abs(eg["x"]).max() + np.abs(x0v).max() + 1e-300
    d = float(np.abs(eg["x"] - sg["x"]).max())
    # the 'gamma = 0' exit (recursively updated residual exactly zero) is decided at rounding level:
    # the eager solver logs it; for the compiled one it shows as an earlier exit at an exact solution
    floor = bool(eg.get("gamma0")) or (bool(sg.get("tiny")) and 0 <= sg["nit"] < eg["nit"]) \
        or floor_hit(eg["trace"], min(eg["nit"], sg["nit"])) or floor_hit(sg["trace"], min(eg["nit"], sg["nit"]))
    if not floor:
        if eg["info"] != sg["info"]:
            mx = cfg.get("maxiter")
            if eg["info"] == 0 and mx is not None and sg["info"] == mx and label == "eager-vs-static":
                ck.violation(f"cg-static:{LIMKEY}",
                             "compiled CG reports info=maxiter (failure) for a solve that the eager CG "
                             "finishes with info=0 in exactly maxiter iterations", eager=0,
                             static=sg["info"], cfg=cfg)
            else:
                ck.violation(f"cg:{label}-info", "eager and compiled CG return different info",
                             eager=eg["info"], static=sg["info"], cfg=cfg)
            return
        if eg["nit"] >= 0 and sg["nit"] >= 0 and eg["nit"] != sg["nit"]:
            ck.violation(f"cg:{label}-nit", "eager and compiled CG take different iteration counts",
                         eager=eg["nit"], static=sg["nit"], cfg=cfg)
            return
    elif eg["info"] != sg["info"] or eg["nit"] != sg["nit"]:
        ck.hit("floor_skipped_discrete_comparisons")
        return
    if d > 1e-9 * sc + 100 * D:
        ck.violation(f"cg:{label}-x", "eager and compiled CG return different solutions",
                     maxdev=d, scale=float(sc), perturbation_response=D, cfg=cfg)


def case(ck, i):
    try:
        _case(ck, i)
    except Skip as e:
        ck.skip(str(e))


def _case(ck, i):
    st = ck.state
    r = i % 16
    u = int(ck.rng().integers(0, ck.pick(4, 24)))
    pool = [rs.ALL_LAYOUTS[(3 * r + k) % len(rs.ALL_LAYOUTS)] for k in range(3)]
    s = draw_structure(ck.rng(100000 + r, u), pool)
    rng = ck.rng(i, 1)
    lay = rs.layout(s["layout"])
    n = lay.n
    A, j, x0, sdesc = draw_system(rng, s)
    cfg = draw_config(rng, s, A, j, x0, n)
    ord_ = ORDS[s["ord"]]
    desc = dict(s=s, sys=sdesc, cfg={k: (float(f"{v:.4g}") if isinstance(v, float) else v)
                                     for k, v in cfg.items()})
    klass = s["klass"] + (":" + s["kind"] if "kind" in s else "")
    E0 = rs.quad_energy(A, j, x0 if x0 is not None else 0 * j)
    x0v = x0 if x0 is not None else np.zeros_like(j)
    at_limit = False

    # ---- hpd-at-limit: first find the real convergence iteration k ------------
    if s["klass"] == "limit":
        cfg0 = dict(cfg)
        cfg0["maxiter"] = 40 * n + 10
        probe = run_eager(ck, s, lay, A, j, x0, cfg0)
        if probe["exc"] is not None or probe["info"] != 0 or probe["nit"] < 1:
            raise Skip("probe did not converge in >= 1 iterations")
        k = probe["nit"]
        cfg["maxiter"] = [k, k, max(k - 1, 1), k + 1][int(rng.integers(0, 4))]
        at_limit = cfg["maxiter"] == k
        desc["cfg"]["maxiter"] = cfg["maxiter"]
        desc["k"] = k
    resn = eff_resnorm(cfg, j, ord_)

    # ---- run the real code -----------------------------------------------------
    eg = run_eager(ck, s, lay, A, j, x0, cfg, public=s["public"])
    sg = run_static(ck, s, lay, A, j, x0, cfg)
    ck.hit("trace_events", len(eg["trace"]) + len(sg["trace"]))
    # iteration counts hidden by the public wrappers are recovered from the traces
    for res in (eg, sg):
        if res["exc"] is None and res["nit"] < 0:
            res["nit"] = max([t[0] for t in res["trace"]] + [0]) if res["trace"] else \
                (res["info"] if res["info"] > 0 else -1)       # info > 0 is the iteration count
    # calibration: the real eager solver on a right hand side perturbed at rounding level
    pert = None
    if s["klass"] not in ("exact",) and s.get("kind") != "zero" and eg["exc"] is None:
        jp = j * (1.0 + 1e-14 * rng.standard_normal(n))
        pert = run_eager(ck, dict(s, public=False), lay, A, jp, x0, cfg, name="E")
        ck.hit("perturbation_runs")
    ptr = pert["trace"] if pert is not None and pert["exc"] is None else None
    tie = trace_ties(eg["trace"], cfg, resn, ptr) or trace_ties(sg["trace"], cfg, resn, ptr)
    stable = pert is None or (pert["exc"] is None and pert["info"] == eg["info"]
                              and pert["nit"] == eg["nit"])

    extra = int(rng.integers(0, 8))
    if extra == 0:           # name must not influence the result
        e2 = run_eager(ck, s, lay, A, j, x0, cfg, name=None, public=s["public"])
        ck.hit("name_independence_checks")
        same = (e2["exc"] is None) == (eg["exc"] is None) and (
            eg["exc"] is not None or (e2["info"] == eg["info"] and np.array_equal(e2["x"], eg["x"])
                                      and (e2["nit"] < 0 or e2["nit"] == eg["nit"])))
        if not same:
            ck.violation("cg-eager:name-changes-result", "result with name=None differs from named run",
                         named=dict(info=eg.get("info"), nit=eg.get("nit")),
                         unnamed=dict(info=e2.get("info"), nit=e2.get("nit")))
    elif extra == 1 and ck.time_left() > 20 and s["named"] and sg["info"] >= 0:
        # un-jitted call of the compiled variant, exactly like the eager one is called
        kw = dict(cfg)
        if ord_ is not None:
            kw["norm_ord"] = ord_
        jnp, cgm = st["jnp"], st["cgm"]
        st["trace"].pop("S", None)
        r2 = cgm._static_cg(lay.matfun(jnp.asarray(A)), lay.wrap(np.asarray(j)),
                            lay.wrap(np.asarray(x0)) if x0 is not None else None,
                            _raise_nonposdef=s["raise"], name="S", **kw)
        st["jax"].effects_barrier()
        ck.hit("static_unjitted_runs")
        d2 = dict(x=lay.flat_np(r2.x), info=int(r2.info), nit=int(r2.nit), exc=None,
                  trace=st["trace"].pop("S", []))
        if d2["info"] >= 0:
            compare(ck, dict(sg), d2, x0v, cfg, resn, pert if stable and sg["nit"] == eg.get("nit")
                    and sg["info"] == eg.get("info") else dict(exc="unstable"),
                    default_miniter(cfg, n), label="static-jit-vs-direct")

    nontrivial = False
    clean = True
    if s["klass"] in ("hpd", "limit", "exact"):
        # previous iterate from the real eager solver (for the energy-decrease criterion)
        xprev = None
        nit_e = eg["nit"] if eg["exc"] is None else -1
        if "absdelta" in cfg and nit_e >= 1:
            if nit_e == 1:
                xprev = x0v
            else:
                pr = run_eager(ck, dict(s, public=False), lay, A, j, x0, cfg, maxiter=nit_e - 1,
                               miniter=10 ** 6)
                if pr["exc"] is None and pr["nit"] == nit_e - 1:
                    xprev = pr["x"]
        ce = judge_hpd(ck, "eager", eg, A, j, x0, xprev, cfg, resn, ord_, n, tie)
        xprev_s = None
        if "absdelta" in cfg and sg["nit"] >= 1 and sg["info"] >= 0:
            if sg["nit"] == 1:
                xprev_s = x0v
            elif s["maxiter"] and s["miniter"] and not s["public"]:
                ps = run_static(ck, s, lay, A, j, x0, cfg, maxiter=sg["nit"] - 1, miniter=10 ** 6)
                if ps["nit"] == sg["nit"] - 1 and ps["info"] >= 0:
                    xprev_s = ps["x"]
            elif sg["nit"] == nit_e and stable and pert is not None and \
                    np.abs(pert["x"] - eg["x"]).max() <= 1e-9 * (np.abs(eg["x"]).max() + 1e-300):
                xprev_s = xprev
        cs = judge_hpd(ck, "static", sg, A, j, x0, xprev_s, cfg, resn, ord_, n, tie)
        clean = ce and cs
        if at_limit:
            ck.hit("at_limit_cases")
        if clean:
            compare(ck, eg, sg, x0v, cfg, resn, pert, default_miniter(cfg, n))
            nontrivial = nit_e >= 2 or at_limit
    else:
        nontrivial = True
        r0 = A @ x0v - j
        c1 = float(np.real(np.vdot(r0, A @ r0)))
        g0 = float(np.real(np.vdot(r0, r0)))
        cscale = np.abs(A).max() * g0 + 1e-300
        exact_zero = s["kind"] == "zero"
        if not exact_zero and abs(c1) < 1e-6 * cscale:
            raise Skip("first curvature too close to zero")
        desc["c1sign"] = 0 if exact_zero else int(np.sign(c1))
        if s["raise"]:
            ck.hit("nonpd_raise_checks")
            e_fail = eg["exc"] is not None
            s_fail = sg["info"] == -1
            if exact_zero or c1 < 0:
                if not e_fail:
                    ck.violation("cg-eager:nonposdef-not-reported",
                                 "eager CG with _raise_nonposdef=True did not raise although the first "
                                 "search direction has non-positive curvature", info=eg.get("info"), c1=c1)
                if not s_fail:
                    ck.violation("cg-static:nonposdef-not-reported",
                                 "compiled CG with _raise_nonposdef=True did not return info=-1 although "
                                 "the first search direction has non-positive curvature",
                                 info=sg["info"], c1=c1)
            else:
                unstable = tie or floor_hit(sg["trace"]) or floor_hit(eg["trace"]) or not stable
                if e_fail != s_fail:
                    if not unstable:
                        ck.violation("cg:eager-vs-static-failure-verdict",
                                     "eager raised != compiled returned info=-1 on an indefinite system",
                                     eager_exc=eg["exc"], static_info=sg["info"])
                elif not e_fail:
                    compare(ck, eg, sg, x0v, cfg, resn, pert, default_miniter(cfg, n))
        else:
            for tag, res in (("eager", eg), ("static", sg)):
                if res["exc"] is not None or res["info"] < 0:
                    ck.violation(f"cg-{tag}:failure-despite-raise-off",
                                 f"{tag} CG failed/raised with _raise_nonposdef=False",
                                 exc=res["exc"], info=res.get("info"))
                    clean = False
                    continue
                E1 = rs.quad_energy(A, j, res["x"])
                slack = 1e-11 * (abs(E0) + abs(E1) + g0 / np.abs(A).max())
                if not exact_zero and c1 < 0:
                    ck.hit("fallback_checks")
                    step = res["x"] - x0v
                    c, mis = rs.parallel_coeff(step, -r0)
                    nostep = np.abs(step).max() <= 1e-14 * (np.abs(x0v).max() + np.abs(res["x"]).max()
                                                            + 1e-300)
                    if nostep or c <= 0 or mis > 1e-8 or E1 >= E0:
                        how = ("no step taken" if nostep else "energy raised" if E1 > E0 else
                               "step not along +(j - A x0)")
                        ck.violation(f"cg-{tag}:negcurv-first-direction-fallback",
                                     f"{tag} CG, first direction with negative curvature, "
                                     f"_raise_nonposdef=False: result is not a steepest-descent step "
                                     f"from the start ({how})",
                                     E_start=E0, E_result=E1, coeff=c, misfit=mis, x0_given=x0 is not None)
                        clean = False
                else:
                    ck.hit("nonpd_energy_checks")
                    if E1 > E0 + slack:
                        ck.violation(f"cg-{tag}:nonposdef-energy-above-start",
                                     f"{tag} CG (_raise_nonposdef=False) stopped at a point with higher "
                                     f"quadratic energy than the start", E_start=E0, E_result=E1,
                                     info=res["info"], nit=res["nit"])
                        clean = False
            if clean:
                compare(ck, eg, sg, x0v, cfg, resn, pert, default_miniter(cfg, n))
    ck.note(desc, nontrivial=nontrivial, klass=klass)
