"""C17 — JAX Newton minimisers never go uphill and make progress when they can.

Runs the real ``nifty.re.optimize._newton_cg`` (eager), ``_static_newton_cg`` (compiled; inside
a harness ``jax.jit`` per structure bucket) and ``_trust_ncg`` on generated smooth non-convex
objectives on pytree positions and judges the returned ``OptimizeResults`` with the harness'
own objective (jax.numpy on the flat vector; gradient/Hessian by autodiff of that code):

(a) ``f(result.x) <= f(x0)`` and ``result.fun == f(result.x)`` for all three minimisers;
(b) single Newton iteration at a start with ``g != 0`` and ``g^T H g < 0``: if one of the trial
    points ``x0 - 2^-k (g.g/|g.Hg|) g`` (k = 0..5) lowers f, the result must have lower energy,
    be a step along ``-g`` and not report convergence (0) or abort (-1);
(b') the same with a user supplied ``cg`` that returns an ascent direction, which forces the line
    search into its *reset* branch (steepest descent with step g.g/|g.Hg|);
(c) eager and compiled Newton-CG agree on status, nit and x — calibrated by the response of the
    real eager solver to a 1e-14 perturbation of the start (rounding amplification);
(d) trust region: the iterates obtained with maxiter = 0,1,2,... have non-increasing f, a
    rejected step leaves x unchanged, and the trust radius stays in (0, max_trust_radius].
"""
import numpy as np

from vf import resolve as rs


class Skip(Exception):
    """oracle precondition not met (reported through ck.skip)"""

META = dict(
    id="C17", level="exploration",
    title="JAX Newton minimisers never go uphill and make progress when they can",
    technique="runtime results of _newton_cg/_static_newton_cg/_trust_ncg re-evaluated with an independent "
              "objective; single-iteration negative-curvature experiment; perturbation-calibrated "
              "eager/compiled comparison",
    rule=("case = (structure bucket, numeric draw). structure = objective family {random-phase trig sum + "
          "weak quadratic, coupled quartic double wells, Rosenbrock chain, indefinite quadratic + quartic "
          "confinement, exact-zero-curvature quartic} x pytree layout (8 real layouts, 1-24 entries) x "
          "interface {fun only, fun_and_grad + hessp} x start class {negative / positive / exactly zero "
          "curvature along g, stationary saddle or maximum (g = 0 exactly), forced line-search reset via a "
          "user cg, badly scaled metric as hessp} x options (absdelta, miniter, energy_reduction_factor, "
          "cg_kwargs given or not); numeric draw = objective parameters, start point, maxiter in "
          "{0,1,2,5,30}, xtol, thresholds. non-trivial: start with non-positive curvature along g, or >= 2 "
          "Newton iterations with at least one line-search halving; distinct = distinct descriptor"),
    assumptions=["float64, real positions; objectives are bounded below and smooth (no NaN branch)",
                 "the negative-curvature clause is judged on a single iteration (maxiter=1, xtol=1e-8, "
                 "absdelta=None) so that 'must not report convergence' is unambiguous",
                 "the line-search reset branch is reached through the documented cg= argument (with the real "
                 "CG the reset trial points coincide with trial points that already failed)",
                 "time_threshold, custom_gradnorm and optax_wrapper not exercised"],
    need=["eager_runs", "static_runs", "trust_runs", "no_uphill_checks", "negcurv_experiments",
          "reset_experiments", "eager_static_comparisons", "trust_iterate_checks"],
    quick=dict(cases=240, workers=8, budget_s=90),
    thorough=dict(cases=3000, workers=16, budget_s=800),
    design_ref="DESIGN.md §5 C17",
    level_text=("generated objectives x start classes x options, every result re-evaluated independently; "
                "exploration, not exhaustive"),
    level_note=("trusts jax autodiff of the harness objective for g and H; compiled variants executed inside "
                "jax.jit with numeric options as traced arguments"),
    max_skip_fraction=0.3,
)

FAMS = ["trig", "dwell", "rosen", "iquad"]
LAYS = rs.REAL_LAYOUTS


# ----------------------------------------------------------------------- init ---
def init(ck):
    import jax
    import jax.numpy as jnp
    import nifty.re as jft
    from nifty.re import optimize as opt
    from nifty.re import conjugate_gradient as cgm
    import logging
    logging.getLogger("nifty").setLevel(logging.CRITICAL)
    try:
        from nifty.re.logger import logger
        logger.setLevel(logging.CRITICAL)
    except Exception:
        pass
    ck.state.update(jax=jax, jnp=jnp, jft=jft, opt=opt, cgm=cgm, obj={}, jit={})


def fam_value(fam, p, x):
    import jax.numpy as jnp
    if fam == "zcurv":
        rest = 0.5 * jnp.sum(x[2:] ** 2) if x.shape[0] > 2 else 0.0
        return 0.5 * p["a"] * x[0] ** 2 + 0.25 * x[1] ** 4 - 0.5 * p["c"] * x[1] ** 2 + rest
    return rs.fam_value(fam, p, x)


def get_obj(ck, fam, layname):
    st = ck.state
    k = (fam, layname)
    if k in st["obj"]:
        return st["obj"][k]
    jax = st["jax"]
    lay = rs.layout(layname)
    f_flat = lambda p, x: fam_value(fam, p, x)
    f_tree = lambda p, t: f_flat(p, lay.flat(t))
    g_tree = jax.grad(f_tree, argnums=1)
    o = dict(
        lay=lay, f_flat=f_flat, f_tree=f_tree,
        vg_tree=jax.value_and_grad(f_tree, argnums=1),
        hp_tree=lambda p, t, v: jax.jvp(lambda y: g_tree(p, y), (t,), (v,))[1],
        fj=jax.jit(f_flat), gj=jax.jit(jax.grad(f_flat, argnums=1)),
        Hj=jax.jit(jax.hessian(f_flat, argnums=1)),
    )
    o["f_tree_j"] = jax.jit(f_tree)
    o["vg_tree_j"] = jax.jit(o["vg_tree"])
    o["hp_tree_j"] = jax.jit(o["hp_tree"])
    st["obj"][k] = o
    return o


# ------------------------------------------------------------------ structure ---
KINDS = ["plain", "plain", "reset", "plain", "plain", "badmetric", "plain", "plain",
         "plain", "reset", "plain", "plain", "plain", "plain", "reset", "badmetric"]


def draw_structure(rng, pool, r):
    """the part of a case that is compiled into the harness jit of the compiled variants; the
    kind is tied to the residue class so that every run covers all kinds"""
    s = {}
    s["layout"] = str(rng.choice(pool))
    n = rs.layout(s["layout"]).n
    s["kind"] = KINDS[r % 16]
    fams = ["trig", "dwell", "iquad", "rosen"] + (["zcurv"] if n >= 2 else [])
    pf = np.array([0.3, 0.25, 0.25, 0.1] + ([0.1] if n >= 2 else []))
    s["fam"] = str(rng.choice(fams, p=pf / pf.sum()))
    if s["kind"] == "reset" and s["fam"] in ("rosen", "zcurv"):
        s["fam"] = "iquad"
    s["iface"] = str(rng.choice(["fun", "fg"])) if s["kind"] != "badmetric" else "fg"
    s["absdelta"] = bool(rng.integers(0, 2))
    s["erf"] = bool(rng.integers(0, 4) > 0)            # energy_reduction_factor given / None
    s["cgk"] = str(rng.choice(["none", "maxiter", "miniter"], p=[0.7, 0.15, 0.15])) \
        if s["kind"] == "plain" else "none"
    s["trust"] = bool(s["kind"] == "plain" and r % 2 == 0)
    return s


def draw_start(rng, s):
    if s["kind"] == "reset":
        return "reset"
    if s["kind"] == "badmetric":
        return "badmetric"
    if s["fam"] == "zcurv":
        return "zero"
    if s["fam"] == "rosen":
        return "pos"
    return str(rng.choice(["neg", "pos", "stat"], p=[0.5, 0.38, 0.12]))


def skey(s, what):
    return (what,) + tuple(sorted(s.items()))


def common_kwargs(s):
    kw = {}
    if not s["erf"]:
        kw["energy_reduction_factor"] = None
    if s["cgk"] == "maxiter":
        kw["cg_kwargs"] = {"maxiter": 3}
    elif s["cgk"] == "miniter":
        kw["cg_kwargs"] = {"miniter": 1}
    return kw


def stub_cg(cgm, jnp, K):
    """a user supplied 'cg' that returns an ascent direction: new_pos = pos + K*scaling*g"""
    def cg(mat, j, *a, **k):
        return cgm.CGResults(x=(-K) * j, nit=1, nfev=1, info=jnp.array(0), success=True)
    return cg


def get_static(ck, s):
    st = ck.state
    k = skey(s, "newton")
    if k in st["jit"]:
        return st["jit"][k]
    jax, jnp, opt, cgm = st["jax"], st["jnp"], st["opt"], st["cgm"]
    o = get_obj(ck, s["fam"], s["layout"])
    lay = o["lay"]
    ckw = common_kwargs(s)

    def f(p, x0, nums):
        kw = dict(nums)
        kw.update(ckw)
        K = kw.pop("K", None)
        eps = kw.pop("eps", None)
        if s["kind"] == "reset":
            kw["cg"] = stub_cg(cgm, jnp, K)
        t0 = lay.wrap(x0)
        if s["iface"] == "fun":
            res = opt._static_newton_cg(lambda t: o["f_tree"](p, t), t0, **kw)
        else:
            hp = (lambda t, v: eps * v) if s["kind"] == "badmetric" else \
                (lambda t, v: o["hp_tree"](p, t, v))
            res = opt._static_newton_cg(None, t0, fun_and_grad=lambda t: o["vg_tree"](p, t),
                                        hessp=hp, **kw)
        return lay.flat(res.x), res.fun, res.status, res.nit, res.nfev

    st["jit"][k] = jax.jit(f)
    ck.hit("static_compilations")
    return st["jit"][k]


TRUST_ABS = {False: None, True: 1e-4}


def get_trust(ck, s):
    st = ck.state
    ts = dict(fam=s["fam"], layout=s["layout"], iface=s["iface"], absdelta=s["absdelta"],
              erf=s["erf"])
    k = skey(ts, "trust")
    if k in st["jit"]:
        return st["jit"][k]
    jax, opt = st["jax"], st["opt"]
    o = get_obj(ck, s["fam"], s["layout"])
    lay = o["lay"]

    def f(p, x0, nums):
        kw = dict(nums)
        if not ts["erf"]:
            kw["energy_reduction_factor"] = None
        kw["absdelta"] = TRUST_ABS[ts["absdelta"]]
        t0 = lay.wrap(x0)
        if ts["iface"] == "fun":
            res = opt._trust_ncg(lambda t: o["f_tree"](p, t), t0, **kw)
        else:
            res = opt._trust_ncg(None, t0, fun_and_grad=lambda t: o["vg_tree"](p, t),
                                 hessp=lambda t, v: o["hp_tree"](p, t, v), **kw)
        return lay.flat(res.x), res.fun, res.status, res.nit, res.trust_radius, res.success

    st["jit"][k] = jax.jit(f)
    ck.hit("trust_compilations")
    return st["jit"][k]


# -------------------------------------------------------------------- numbers ---
def draw_problem(ck, rng, s, start):
    """objective parameters and a start point of the requested class"""
    o = get_obj(ck, s["fam"], s["layout"])
    n = o["lay"].n
    fam = s["fam"]
    if fam == "zcurv":
        p = dict(a=np.array(2.0), c=np.array(5.0))
        x0 = np.zeros(n)
        x0[0], x0[1] = 2.0, 1.0
        return o, p, x0
    p = rs.fam_params(rng, fam, n)
    if start == "stat":
        if fam == "trig":
            p["ph"] = np.zeros_like(p["ph"])
        elif fam == "dwell":
            p["t"] = np.zeros_like(p["t"])
        elif fam == "iquad":
            p["b"] = np.zeros_like(p["b"])
        return o, p, np.zeros(n)
    want_neg = start in ("neg", "reset")
    box = 2.0 if fam != "rosen" else 1.5
    for _ in range(300):
        x = rng.uniform(-box, box, n)
        g = np.asarray(o["gj"](p, x))
        H = np.asarray(o["Hj"](p, x))
        gam = float(g @ g)
        c = float(g @ H @ g)
        hn = np.abs(H).max() + 1e-300
        if np.sqrt(gam) < 0.05:
            continue
        if start == "badmetric":
            return o, p, x
        if want_neg and c < -1e-3 * hn * gam and abs(c) > 0.02 * gam:
            return o, p, x
        if not want_neg and c > 1e-3 * hn * gam:
            return o, p, x
    raise Skip(f"no start of class {start} found")


def draw_config(rng, s, fscale):
    cfg = {}
    cfg["maxiter"] = int(rng.choice([0, 1, 2, 5, 30], p=[0.06, 0.2, 0.2, 0.3, 0.24]))
    cfg["xtol"] = float(rng.choice([1e-5, 1e-8, 1e-3]))
    if s["absdelta"]:
        # mostly tight; sometimes so loose that it is met while the line search still halves
        lo, hi = ((-7, -1) if rng.random() < 0.65 else (-1, 1))
        cfg["absdelta"] = float(10 ** rng.uniform(lo, hi) * fscale)
    cfg["miniter"] = int(rng.choice([0, 0, 1, 3]))
    if s["erf"]:
        cfg["energy_reduction_factor"] = float(rng.choice([0.1, 0.1, 0.5, 0.01]))
    return cfg


# -------------------------------------------------------------------- running ---
def run_eager(ck, s, o, p, x0, cfg, extra):
    st = ck.state
    opt, cgm, jnp = st["opt"], st["cgm"], st["jnp"]
    lay = o["lay"]
    kw = dict(cfg)
    kw.update(common_kwargs(s))
    if s["kind"] == "reset":
        kw["cg"] = stub_cg(cgm, jnp, extra["K"])
    pj = {k: jnp.asarray(v) for k, v in p.items()}
    t0 = lay.wrap(np.asarray(x0))
    ck.hit("eager_runs")
    if s["iface"] == "fun":
        res = opt._newton_cg(lambda t: o["f_tree_j"](pj, t), t0, **kw)
    else:
        eps = extra.get("eps")
        hp = (lambda t, v: eps * v) if s["kind"] == "badmetric" else \
            (lambda t, v: o["hp_tree_j"](pj, t, v))
        res = opt._newton_cg(None, t0, fun_and_grad=lambda t: o["vg_tree_j"](pj, t), hessp=hp, **kw)
    return dict(x=lay.flat_np(res.x), fun=float(res.fun), status=int(res.status), nit=int(res.nit),
                nfev=int(res.nfev))


def run_static(ck, s, o, p, x0, cfg, extra):
    f = get_static(ck, s)
    nums = dict(cfg)
    if s["kind"] == "reset":
        nums["K"] = extra["K"]
    if s["kind"] == "badmetric":
        nums["eps"] = extra["eps"]
    ck.hit("static_runs")
    x, fun, status, nit, nfev = f(p, x0, nums)
    ck.state["jax"].effects_barrier()
    return dict(x=np.asarray(x), fun=float(fun), status=int(status), nit=int(nit), nfev=int(nfev))


# ----------------------------------------------------------------------- case ---
def case(ck, i):
    try:
        _case(ck, i)
    except Skip as e:
        ck.skip(str(e))


def check_basic(ck, tag, res, F, f0, fscale, start):
    """(a) never uphill, fun consistent"""
    ck.hit("no_uphill_checks")
    fx = F(res["x"])
    ok = True
    if fx > f0 + 1e-12 * fscale:
        ck.violation(f"newton-{tag}:uphill", f"{tag} Newton-CG returned a point with higher energy "
                     f"than its start", f_start=f0, f_result=fx, status=res["status"], nit=res["nit"],
                     start_class=start)
        ok = False
    if abs(res["fun"] - fx) > 1e-9 * (abs(fx) + 1.0):
        ck.violation(f"newton-{tag}:fun-mismatch", "OptimizeResults.fun != f(OptimizeResults.x)",
                     fun=res["fun"], f_of_x=fx)
        ok = False
    return ok


def same_iterate(ck, s, o, p, x0, cfg, extra, eg, sc):
    """compiled run stopped by maxiter = eager nit sits at the eager result"""
    sm = run_static(ck, s, o, p, x0, dict(cfg, maxiter=eg["nit"]), extra)
    return sm["nit"] == eg["nit"] and float(np.abs(sm["x"] - eg["x"]).max()) <= 1e-8 * sc


def at_energy_floor(ck, s, o, p, x0, cfg, extra, eg, F, fscale):
    """energy decrease of the last eager Newton iteration is at rounding level (|dF| <= 1e-11 scale):
    `new_energy <= energy` in its line search is then decided by rounding"""
    pr = run_eager(ck, s, o, p, x0, dict(cfg, maxiter=eg["nit"] - 1, miniter=10 ** 6), extra)
    if pr["nit"] != eg["nit"] - 1:
        return False
    return abs(F(pr["x"]) - F(eg["x"])) <= 1e-11 * fscale


def _case(ck, i):
    r = i % 16
    u = int(ck.rng().integers(0, ck.pick(1, 6)))
    pool = [LAYS[(3 * r + k) % len(LAYS)] for k in range(2)]
    s = draw_structure(ck.rng(100000 + r, u), pool, r)
    rng = ck.rng(i, 1)
    start = draw_start(rng, s)
    o, p, x0 = draw_problem(ck, rng, s, start)
    lay = o["lay"]
    n = lay.n
    F = lambda x: float(o["fj"](p, np.asarray(x)))
    f0 = F(x0)
    g0 = np.asarray(o["gj"](p, x0))
    H0 = np.asarray(o["Hj"](p, x0))
    gam = float(g0 @ g0)
    c0 = float(g0 @ H0 @ g0)
    fscale = abs(f0) + 1.0
    cfg = draw_config(rng, s, fscale)
    extra = {}
    desc = dict(s=s, start=start,
                cfg={k: (float(f"{v:.4g}") if isinstance(v, float) else v) for k, v in cfg.items()},
                csign=int(np.sign(c0)), gnorm=float(f"{np.sqrt(gam):.3g}"))
    klass = f"{s['fam']}:{start}"
    nontriv = start in ("neg", "zero", "stat", "reset") or c0 <= 0

    # ---- class specific preparation -------------------------------------------
    if start == "reset":
        # the stub direction must fail for all six halvings (checked with the harness objective)
        K = None
        for cand in (1.0, 0.3, 0.1, 3.0):
            Kc = cand * gam / abs(c0)
            if all(F(x0 + Kc * 2.0 ** (-k) * g0) > f0 + 1e-9 * fscale for k in range(6)):
                K = Kc
                break
        if K is None:
            raise Skip("no ascent scale for which all six halvings fail")
        extra["K"] = float(K)
    if start == "badmetric":
        extra["eps"] = float(10 ** rng.uniform(-9, -7))

    # ---- (b)/(b') single-iteration experiment at negative-curvature starts -------
    if start in ("neg", "reset"):
        step = gam / abs(c0)
        T = [x0 - step * 2.0 ** (-k) * g0 for k in range(6 if start == "neg" else 3)]
        fT = [F(t) for t in T]
        lowers = min(fT) < f0 - 1e-9 * fscale
        desc["trial_lowers"] = bool(lowers)
        c1 = dict(cfg, maxiter=1, xtol=1e-8)
        if "absdelta" in c1:
            c1["absdelta"] = 1e-300            # never satisfiable == None
        e1 = run_eager(ck, s, o, p, x0, c1, extra)
        s1 = run_static(ck, s, o, p, x0, c1, extra)
        ok = True
        for tag, res in (("eager", e1), ("static", s1)):
            ok &= check_basic(ck, tag, res, F, f0, fscale, start)
        if lowers:
            ck.hit("negcurv_experiments" if start == "neg" else "reset_experiments")
            for tag, res in (("eager", e1), ("static", s1)):
                fx = F(res["x"])
                stp = res["x"] - x0
                cc, mis = rs.parallel_coeff(stp, -g0)
                nostep = np.abs(stp).max() <= 1e-14 * (np.abs(x0).max() + 1.0)
                bad = []
                if not fx < f0:
                    bad.append("energy not lowered")
                if nostep:
                    bad.append("no step")
                elif cc <= 0 or mis > 1e-7:
                    bad.append("step not along -g")
                if res["status"] in (0, -1):
                    bad.append("status %d (%s)" % (res["status"],
                                                   "converged" if res["status"] == 0 else "aborted"))
                if bad:
                    key = (f"newton-{tag}:negcurv-no-progress" if start == "neg"
                           else f"newton-{tag}:linesearch-reset-uphill")
                    ck.violation(key, f"{tag} Newton-CG, one iteration from a start with g != 0 and "
                                 f"g.Hg < 0" + (" (line-search reset forced by a user cg)"
                                                if start == "reset" else "")
                                 + f": a trial step along -g lowers f but: {', '.join(bad)}",
                                 f_start=f0, f_result=fx, best_trial=min(fT), status=res["status"],
                                 coeff=cc, misfit=mis, gHg=c0)
                    ok = False
        if not ok:
            # the general run from this start would only repeat the same finding
            ck.note(desc, nontrivial=True, klass=klass)
            return

    # ---- general run -------------------------------------------------------------
    eg = run_eager(ck, s, o, p, x0, cfg, extra)
    sg = run_static(ck, s, o, p, x0, cfg, extra)
    clean = True
    for tag, res in (("eager", eg), ("static", sg)):
        clean &= check_basic(ck, tag, res, F, f0, fscale, start)
    if start == "badmetric":
        ck.hit("badmetric_runs")
        desc["abort"] = [eg["status"], sg["status"]]

    # (c) eager vs compiled, calibrated by a perturbed eager run
    if clean:
        calibrated = start not in ("zero", "stat")
        xp0 = x0 * (1.0 + 1e-14 * rng.standard_normal(n)) if calibrated else x0
        pe = run_eager(ck, s, o, p, xp0, cfg, extra) if calibrated else eg
        if pe["status"] != eg["status"] or pe["nit"] != eg["nit"] or pe["nfev"] != eg["nfev"]:
            ck.hit("unstable_decision_skipped")
        else:
            ck.hit("eager_static_comparisons")
            D = float(np.abs(pe["x"] - eg["x"]).max())
            sc = np.abs(eg["x"]).max() + np.abs(x0).max() + 1e-300
            d = float(np.abs(eg["x"] - sg["x"]).max())
            differ = eg["status"] != sg["status"] or eg["nit"] != sg["nit"] or d > 1e-9 * sc + 100 * D
            if differ and eg["nit"] >= 1 and at_energy_floor(ck, s, o, p, x0, cfg, extra, eg, F, fscale):
                # the last line search compared energies that differ at rounding level
                ck.hit("energy_floor_skipped")
            elif eg["status"] != sg["status"]:
                ck.violation("newton:eager-vs-static-status", "eager and compiled Newton-CG return "
                             "different status", eager=eg["status"], static=sg["status"], cfg=cfg,
                             nit=(eg["nit"], sg["nit"]), nfev=(eg["nfev"], sg["nfev"]))
            elif eg["nit"] != sg["nit"] and "absdelta" in cfg and eg["status"] == 0 and \
                    sg["nit"] > eg["nit"] and same_iterate(ck, s, o, p, x0, cfg, extra, eg, sc):
                ck.violation("newton:absdelta-convergence-eager-only",
                             "with absdelta given the eager Newton-CG reports convergence at an iterate "
                             "that the compiled one reaches identically but does not accept as converged "
                             "(energy decrease < absdelta after exactly one line-search halving)",
                             eager_nit=eg["nit"], static_nit=sg["nit"], eager_nfev=eg["nfev"], cfg=cfg)
            elif eg["nit"] != sg["nit"]:
                ck.violation("newton:eager-vs-static-nit", "eager and compiled Newton-CG take a different "
                             "number of iterations", eager=eg["nit"], static=sg["nit"], cfg=cfg)
            elif d > 1e-9 * sc + 100 * D:
                ck.violation("newton:eager-vs-static-x", "eager and compiled Newton-CG return different "
                             "points", maxdev=d, scale=float(sc), perturbation_response=D, cfg=cfg)

    # (d) trust region: iterate sequence by maxiter = 0..M
    if s["trust"]:
        tf = get_trust(ck, s)
        M = int(rng.choice([4, 8, 12]))
        trmax = float(rng.choice([1000.0, 20.0, 2.0, 0.5]))
        tr0 = float(min(rng.choice([1.0, 0.1, 0.3, 3.0, 10.0]), 0.5 * trmax))
        gtol = float(rng.choice([1e-4, 1e-8]))
        desc["trust"] = dict(M=M, trmax=trmax, tr0=tr0, gtol=gtol)

        def trust(xs, m, tr, trm, old):
            ck.hit("trust_runs")
            x, fun, status, nit, trr, succ = tf(p, xs, dict(maxiter=m, gtol=gtol, old_fval=old,
                                                           initial_trust_radius=tr, max_trust_radius=trm))
            x = np.asarray(x)
            return dict(x=x, f=F(x), fun=float(fun), nit=int(nit), tr=float(trr), status=int(status))

        hist = []
        for m in range(0, M + 1):
            cur = trust(x0, m, tr0, trmax, np.nan)
            ck.hit("trust_iterate_checks")
            if abs(cur["fun"] - cur["f"]) > 1e-9 * (abs(cur["f"]) + 1.0):
                ck.violation("trust-ncg:fun-mismatch", "OptimizeResults.fun != f(OptimizeResults.x)",
                             fun=cur["fun"], f_of_x=cur["f"])
            if cur["f"] > f0 + 1e-12 * fscale:
                ck.violation("trust-ncg:uphill", "trust-region Newton-CG returned a point with higher "
                             "energy than its start", f_start=f0, f_result=cur["f"], maxiter=m,
                             status=cur["status"])
                break
            if not (0.0 < cur["tr"] <= trmax * (1 + 1e-12)):
                ck.violation("trust-ncg:radius-out-of-range", "trust radius left (0, max_trust_radius]",
                             trust_radius=cur["tr"], max_trust_radius=trmax, maxiter=m)
                break
            if hist and cur["nit"] == hist[-1]["nit"] + 1 and \
                    cur["f"] > hist[-1]["f"] + 1e-12 * fscale:
                # an iterate went up: restart the real minimiser *at* the predecessor with the
                # state it had there (radius, previous energy) - the statement is about starts
                pv = hist[-1]
                old = hist[-2]["f"] if len(hist) >= 2 else np.nan
                re = trust(pv["x"], 1, pv["tr"], 2.0 * max(trmax, pv["tr"]), old)
                if re["f"] > pv["f"] + 1e-12 * fscale:
                    ck.violation("trust-ncg:uphill", "trust-region Newton-CG (maxiter=1) returned a "
                                 "point with higher energy than its start", f_start=pv["f"],
                                 f_result=re["f"], status=re["status"], trust_radius=pv["tr"],
                                 found_at_iteration=m)
                else:
                    ck.violation("trust-ncg:iterate-increase", "an accepted trust-region iterate has "
                                 "higher energy than its predecessor", f_prev=pv["f"], f_next=cur["f"],
                                 iteration=m)
                break
            if hist and cur["nit"] == hist[-1]["nit"]:
                break          # finished before the limit
            hist.append(cur)
    nontriv = nontriv or (eg["nit"] >= 2 and eg["nfev"] - 1 - eg["nit"] > 0)
    ck.note(desc, nontrivial=bool(nontriv), klass=klass)
