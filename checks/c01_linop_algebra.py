"""C01 — Linear-operator algebra has exact matrix semantics.

Random expression trees over leaf operators with independently known dense
matrices are built through the public operator algebra of nifty.cl
(`+ - @ scalar* unary- .adjoint .inverse`).  A reference algebra on dense real
matrices (complex spaces as R^{2n}) mirrors the tree; every node of the tree
is probed with basis vectors in every mode it advertises and compared with the
reference matrix of that mode.  A reference capability calculus mirrors the
statement about advertised modes, and un-advertised modes must be refused.
"""
import numpy as np

from vf import linops as L
from vf.linops import TIMES, ADJ, INV, ADJINV, MODES, MODE_NAME

META = dict(
    id="C01", level="exploration",
    title="Linear-operator algebra has exact matrix semantics",
    technique="dense basis-vector probing of generated operator expression trees against a "
              "reference matrix algebra and a reference capability calculus",
    rule=("case = random expression AST (depth <= 3 quick / <= 5 thorough) over + - @ scalar* neg "
          ".adjoint .inverse (and adjoint-inverse in one step), plus flattened sums of 3-5 terms "
          "(scaling / diagonal / block-diagonal / opaque summands, random signs, random nesting "
          "(A-B)+C, A-(B-C), -(B)+A+C) on a DomainTuple (1-2 sub-spaces, <= 12 pixels, optional harmonic "
          "partner) or a 2-key MultiDomain with its two 1-key sub-domains; leaves: ScalingOperator "
          "(real, complex, 1, 0), DiagonalOperator (real/complex, full/partial spaces, every _trafo), "
          "MatrixProductOperator (plain / flatten / partial spaces), SandwichOperator.make, "
          "BlockDiagonalOperator, NullOperator, FFTOperator, HartleyOperator; every node of the tree "
          "is probed in all advertised modes with float64 e_k and complex128 i*e_k. "
          "non-trivial: >= 2 operations and (a simplification fired [class of a node differs from "
          "naive Sum/Chain/Adapter nesting] or partial-space diagonal or _trafo != 0 diagonal or "
          "complex scalar); distinct = distinct AST descriptor"),
    assumptions=[
        "tolerance: max|M_observed - M_reference| <= 1e-9 * S, S = largest entry of the entry-wise "
        "magnitude bound of the expression (|A|+|B| for sums, |A||B| for chains, |inv| for inverses): "
        "rounding errors are relative to the operands, not to a possibly cancelled result "
        "(e.g. F.inverse - F.adjoint/vol)",
        "inverse modes are compared only when every square sub-expression has cond <= 1e4 "
        "(leaf spectra in [0.4, 2.5]) and no sub-expression lost more than a factor 1e2 through "
        "cancellation; zero scalings / singular sums are generated but then only forward and "
        "adjoint modes are compared",
        "`.inverse` nodes are generated only on sub-expressions whose reference matrix is square "
        "with cond <= 1e3",
        "MatrixProductOperator exists only as an endomorphic (square) operator in this NIFTy "
        "version; its multi-dimensional single-space form without flatten/spaces is left to C02",
        "advertised capability must contain the reference capability; equality is required only on "
        "trees whose leaves are all opaque (MatrixProductOperator, FFT, Hartley)",
        "CPU only",
    ],
    need=["mode_matrix_comparisons", "capability_checks", "multisum_expressions",
          "flattened_sums_3plus_with_negated_diagonal", "unadvertised_mode_refusals",
          "inverse_mode_comparisons", "simplification_fired_nodes", "multidomain_union_sums",
          "input_unchanged_checks", "target_domain_checks"],
    quick=dict(cases=1400, workers=6, budget_s=90),
    thorough=dict(cases=24000, workers=16, budget_s=660),
    design_ref="DESIGN.md §5 C01",
    level_text=("generated operator expression trees, every node compared entry-wise with an "
                "independent dense matrix algebra in all advertised modes; exploration of tree "
                "shapes x leaf kinds x domains, not exhaustive"),
    level_note=("trusts numpy.linalg for the reference algebra; leaf reference actions are explicit "
                "NumPy formulas (explicit DFT matrices with the volume factor, broadcasting for "
                "partial diagonals, reshaped matrix products)"),
    max_skip_fraction=0.3,
)

RTOL = 1e-9


def init(ck):
    import nifty.cl as ift
    ck.state["ift"] = ift


class Node:
    __slots__ = ("op", "M", "cap", "dom", "tgt", "desc", "nops", "flags", "opaque", "cmax",
                 "kind", "naive", "square", "scale", "amp", "S")

    def __init__(self, op, M, cap, dom, tgt, desc, kind, naive, nops=0, flags=(), opaque=False,
                 cmax=1.0, scale=None, amp=1.0):
        self.op, self.M, self.cap, self.dom, self.tgt = op, M, cap, dom, tgt
        self.desc, self.kind, self.naive = desc, kind, naive
        self.nops, self.flags, self.opaque, self.cmax = nops, set(flags), opaque, cmax
        self.square = M.shape[0] == M.shape[1]
        # scale: magnitude the rounding errors of this expression are relative to (operand
        # magnitudes, not the possibly cancelled result); amp: max over the sub-tree of
        # scale/max|M| (loss of relative accuracy through cancellation)
        # `scale` argument: entry-wise magnitude matrix S (|A|+|B| for sums, |A||B| for chains ...)
        mx = float(np.max(np.abs(M), initial=0.0))
        self.S = np.abs(M) if scale is None else np.maximum(np.asarray(scale, dtype=float), np.abs(M))
        self.scale = float(np.max(self.S, initial=0.0))
        if mx > 0:
            a = self.scale / mx
        else:
            a = 1.0 if self.scale == 0 else float("inf")
        self.amp = max(float(amp), a)
        if self.square and M.size:
            try:
                c = float(np.linalg.cond(M))
            except np.linalg.LinAlgError:
                c = float("inf")
            if not np.isfinite(c):
                c = float("inf")
            self.cmax = max(self.cmax, c)


# --------------------------------------------------------------------- world ---
def rg(I, rng, maxn, ndim=None):
    nd = int(rng.integers(1, 3)) if ndim is None else ndim
    if nd == 2:
        shape = (int(rng.integers(1, 4)), int(rng.integers(2, 4)))
    else:
        shape = (int(rng.integers(1, maxn + 1)),)
    dist = tuple(float(np.round(np.exp(rng.uniform(-1.5, 1.5)), 3)) for _ in shape)
    return I.RGSpace(shape, distances=dist), dict(t="RG", shape=shape, dist=dist)


def gen_world(I, rng):
    multi = rng.integers(0, 20) < 7
    if not multi:
        for _ in range(100):
            nsp = int(rng.integers(1, 3))
            sps, ds = [], []
            for _ in range(nsp):
                if rng.integers(0, 4) == 0:
                    n = int(rng.integers(1, 5))
                    sps.append(I.UnstructuredDomain(n))
                    ds.append(dict(t="U", shape=(n,)))
                else:
                    s, d = rg(I, rng, 6)
                    sps.append(s)
                    ds.append(d)
            D = I.DomainTuple.make(tuple(sps))
            if 1 <= D.size <= 12:
                break
        else:
            s, d = rg(I, rng, 4, 1)
            sps, ds = [s], [d]
            D = I.DomainTuple.make(s)
        pool = [D]
        fft = None
        rgs = [i for i, d in enumerate(ds) if d["t"] == "RG"]
        if rgs and rng.integers(0, 4) > 0:
            fs = int(rgs[int(rng.integers(0, len(rgs)))])
            shp, dist = ds[fs]["shape"], ds[fs]["dist"]
            hdist = tuple(1.0 / (n * d) for n, d in zip(shp, dist))
            hsp = I.RGSpace(shp, distances=hdist, harmonic=True)
            sph = list(sps)
            sph[fs] = hsp
            Dh = I.DomainTuple.make(tuple(sph))
            pool.append(Dh)
            fft = dict(space=fs, D=D, Dh=Dh, hsp=hsp, psp=sps[fs],
                       dvol_p=float(np.prod(dist)), dvol_h=float(np.prod(hdist)))
        return dict(multi=False, pool=pool, fft=fft, desc=dict(world="tuple", spaces=ds,
                                                               fft=None if fft is None else fft["space"]))
    subs, ds = {}, {}
    for k in ("a", "b"):
        if rng.integers(0, 3) == 0:
            n = int(rng.integers(1, 4))
            subs[k] = I.DomainTuple.make(I.UnstructuredDomain(n))
            ds[k] = dict(t="U", shape=(n,))
        else:
            s, d = rg(I, rng, 4, 1 if rng.integers(0, 3) else 2)
            subs[k] = I.DomainTuple.make(s)
            ds[k] = d
    MD = I.MultiDomain.make(subs)
    MDa = I.MultiDomain.make({"a": subs["a"]})
    MDb = I.MultiDomain.make({"b": subs["b"]})
    return dict(multi=True, pool=[MD, MDa, MDb], fft=None, subs=subs,
                desc=dict(world="multi", spaces=ds))


# -------------------------------------------------------------------- leaves ---
def rscalar(rng):
    return float(np.round(rng.choice([-1.0, 1.0]) * rng.uniform(0.4, 2.5), 3))


def cscalar(rng):
    r = rng.uniform(0.4, 2.5)
    ph = rng.uniform(0.3, 2 * np.pi - 0.3)
    return complex(np.round(r * np.cos(ph), 3), np.round(r * np.sin(ph), 3))


def leaf_scaling(I, rng, X):
    u = rng.integers(0, 20)
    flags = set()
    if u < 8:
        c = rscalar(rng)
    elif u < 14:
        c = cscalar(rng)
        flags.add("complex_scalar")
    elif u < 17:
        c = 1.0
    else:
        c = 0.0
    sd = None
    if not L.is_multi(X) and rng.integers(0, 3) == 0:
        sd = np.float64
    op = I.ScalingOperator(X, c, sd)
    M = L.probe_ref(lambda a: scale_arr(a, c), X, X)
    return Node(op, M, 15, X, X, ["scaling", c, None if sd is None else "f8"], "leaf:scaling",
                "ScalingOperator", flags=flags)


def scale_arr(a, c):
    if isinstance(a, dict):
        return {k: c * v for k, v in a.items()}
    return c * a


def leaf_diag(I, rng, X):
    nsp = len(X)
    flags = set()
    spaces = None
    if nsp >= 2 and rng.integers(0, 2):
        spaces = (int(rng.integers(0, nsp)),)
        flags.add("partial_diag")
    sub = X if spaces is None else I.DomainTuple.make(tuple(X[i] for i in spaces))
    cplx = bool(rng.integers(0, 2))
    v = rng.uniform(0.4, 2.5, sub.shape) * rng.choice([-1.0, 1.0], sub.shape)
    if cplx:
        v = v * np.exp(1j * rng.uniform(0, 2 * np.pi, sub.shape))
    sd = np.float64 if rng.integers(0, 3) == 0 else None
    f = I.makeField(sub, v)
    op = I.DiagonalOperator(f, domain=X if (spaces is not None or rng.integers(0, 2)) else None,
                            spaces=spaces, sampling_dtype=sd)
    # broadcastable full-shape diagonal
    if spaces is None:
        full = v
    else:
        shp = []
        for i, d in enumerate(X):
            shp += list(d.shape) if i in spaces else [1] * len(d.shape)
        full = v.reshape(shp)
    trafo = int(rng.integers(0, 4)) if rng.integers(0, 2) else 0
    seq = []
    if trafo & 1:
        seq.append("adjoint")
    if trafo & 2:
        seq.append("inverse")
    if len(seq) == 2 and rng.integers(0, 2):
        seq.reverse()
    for s in seq:
        op = getattr(op, s)
    if trafo:
        flags.add("trafo_diag")
    eff = full
    if trafo & 1:
        eff = np.conj(eff)
    if trafo & 2:
        eff = 1.0 / eff
    M = L.probe_ref(lambda a: eff * a, X, X)
    return Node(op, M, 15, X, X, ["diag", "c" if cplx else "f", spaces, trafo,
                                  None if sd is None else "f8"],
                "leaf:diag", "DiagonalOperator", flags=flags)


def matrix_action(Mt, a, axes, nact):
    """apply Mt (shape act_shape+act_shape) on the given numpy axes of a, by reshaping to 2-D"""
    a = np.asarray(a)
    act_shape = tuple(a.shape[ax] for ax in axes)
    n = int(np.prod(act_shape))
    b = np.moveaxis(a, axes, tuple(range(len(axes))))
    rest = b.shape[len(axes):]
    r = Mt.reshape(n, n) @ b.reshape(n, -1)
    r = r.reshape(act_shape + rest)
    return np.moveaxis(r, tuple(range(len(axes))), axes)


def leaf_matrix(I, rng, X):
    nsp = len(X)
    cplx = bool(rng.integers(0, 3) == 0)
    allaxes = tuple(range(len(X.shape)))
    variants = ["flatten"]
    if len(X.shape) == 1:
        variants.append("plain")
    variants.append("spaces")
    v = variants[int(rng.integers(0, len(variants)))]
    if v == "plain":
        n = X.shape[0]
        mat = L.bounded_matrix(rng, n, cplx)
        op = I.MatrixProductOperator(X, mat)
        fn = lambda a: matrix_action(mat, a, allaxes, 1)
        d = ["matrix", "plain", "c" if cplx else "f"]
    elif v == "flatten":
        n = X.size
        mat = L.bounded_matrix(rng, n, cplx)
        op = I.MatrixProductOperator(X, mat, flatten=True)
        fn = lambda a: (mat @ np.asarray(a).reshape(-1)).reshape(X.shape)
        d = ["matrix", "flatten", "c" if cplx else "f"]
    else:
        k = int(rng.integers(0, nsp))
        shp = X[k].shape
        n = int(np.prod(shp))
        mat = L.bounded_matrix(rng, n, cplx).reshape(shp + shp)
        op = I.MatrixProductOperator(X, mat, spaces=(k,))
        axes = L.space_axes(X, k)
        fn = lambda a: matrix_action(mat, a, axes, len(axes))
        d = ["matrix", "spaces", k, "c" if cplx else "f"]
    M = L.probe_ref(fn, X, X)
    return Node(op, M, 3, X, X, d, "leaf:matrix", "MatrixProductOperator", opaque=True)


def leaf_null(I, rng, X, Y):
    op = I.NullOperator(X, Y)
    M = np.zeros((2 * L.dom_size(Y), 2 * L.dom_size(X)))
    return Node(op, M, 3, X, Y, ["null"], "leaf:null", "NullOperator")


def leaf_harmonic(I, rng, W, X, Y):
    """FFT or Hartley between the position domain and its harmonic partner (either direction),
    possibly realised as adjoint / inverse of the operator built in the opposite direction"""
    f = W["fft"]
    sp = f["space"]
    hart = bool(rng.integers(0, 2))
    cls = I.HartleyOperator if hart else I.FFTOperator
    name = "hartley" if hart else "fft"
    axes = L.space_axes(X, sp)
    n_sp = int(np.prod(X[sp].shape))

    def forward(dom_from):
        """(op, fn) of the operator constructed with domain=dom_from"""
        to_h = dom_from is f["D"]
        tgt_sp = f["hsp"] if to_h else f["psp"]
        dvol = f["dvol_p"] if to_h else f["dvol_h"]
        o = cls(dom_from, target=tgt_sp, space=sp if (len(dom_from) > 1 or rng.integers(0, 2)) else None)
        if hart:
            fn = lambda a: dvol * L.hartley_cplx(a, axes)
        else:
            sign = -1 if to_h else +1
            fn = lambda a: dvol * L.explicit_dft(a, axes, sign)
        return o, fn

    how = int(rng.integers(0, 3))
    if how == 0:
        op, fn = forward(X)
        M = L.probe_ref(fn, X, Y)
        naive = cls.__name__
    else:
        o, fn = forward(Y)
        Mo = L.probe_ref(fn, Y, X)
        if how == 1:
            op, M = o.adjoint, Mo.T
        else:
            op, M = o.inverse, np.linalg.inv(Mo)
        naive = "OperatorAdapter"
    return Node(op, M, 15, X, Y, [name, ["direct", "adjoint", "inverse"][how]], "leaf:" + name,
                naive, opaque=True)


def leaf_blockdiag(I, rng, W, X):
    keys = list(X.keys())
    ops, Ms, caps, descs, flags = {}, {}, 15, {}, set()
    for k in keys:
        if rng.integers(0, 4) == 0:
            n = X[k].size
            Ms[k] = np.eye(2 * n)
            descs[k] = None
            continue
        sub = leaf_endo_tuple(I, rng, W, X[k], allow_sandwich=False)
        ops[k] = sub.op
        Ms[k] = sub.M
        caps &= sub.cap
        descs[k] = sub.desc
        flags |= sub.flags
    op = I.BlockDiagonalOperator(X, ops)
    M = block_embed(X, Ms)
    return Node(op, M, caps, X, X, ["blockdiag", descs], "leaf:blockdiag", "BlockDiagonalOperator",
                flags=flags)


def block_embed(X, Ms):
    """block-diagonal real matrix on MultiDomain X from per-key real 2n_k x 2n_k matrices"""
    N = L.dom_size(X)
    M = np.zeros((2 * N, 2 * N))
    o = 0
    for k in X.keys():
        n = X[k].size
        idx = np.concatenate([np.arange(o, o + n), N + np.arange(o, o + n)])
        M[np.ix_(idx, idx)] = Ms[k]
        o += n
    return M


def leaf_endo_tuple(I, rng, W, X, allow_sandwich=True):
    u = int(rng.integers(0, 10))
    if u < 3:
        return leaf_scaling(I, rng, X)
    if u < 6:
        return leaf_diag(I, rng, X)
    if u < 8 or not allow_sandwich:
        return leaf_matrix(I, rng, X)
    if u < 9:
        return leaf_sandwich(I, rng, W, X)
    return leaf_null(I, rng, X, X)


def leaf_sandwich(I, rng, W, X):
    pool = W["pool"]
    Y = pool[int(rng.integers(0, len(pool)))]
    bun = gen_leaf(I, rng, W, X, Y, allow_sandwich=False)
    if rng.integers(0, 3) == 0:
        cheese = None
        Mc, cc, dc = np.eye(bun.M.shape[0]), 15, None
        fl = set()
    else:
        ch = gen_leaf(I, rng, W, Y, Y, allow_sandwich=False)
        cheese, Mc, cc, dc, fl = ch.op, ch.M, ch.cap, ch.desc, ch.flags
    op = I.SandwichOperator.make(bun.op, cheese)
    M = bun.M.T @ Mc @ bun.M
    cap = L.cap_adjoint(bun.cap) & cc & bun.cap
    sc = bun.S.T @ np.abs(Mc) @ bun.S
    return Node(op, M, cap, X, X, ["sandwich", bun.desc, dc], "leaf:sandwich", "SandwichOperator",
                flags=bun.flags | fl | {"sandwich"}, scale=sc)


def gen_leaf(I, rng, W, X, Y, allow_sandwich=True):
    if W["multi"]:
        if X is Y:
            u = int(rng.integers(0, 10))
            if u < 3:
                return leaf_scaling(I, rng, X)
            if u < 9:
                return leaf_blockdiag(I, rng, W, X)
            return leaf_null(I, rng, X, Y)
        return leaf_null(I, rng, X, Y)
    if X is Y:
        return leaf_endo_tuple(I, rng, W, X, allow_sandwich)
    if rng.integers(0, 8) == 0:
        return leaf_null(I, rng, X, Y)
    return leaf_harmonic(I, rng, W, X, Y)


# ---------------------------------------------------------------- operations ---
def embed(M, dom, tgt, DOM, TGT):
    """embed the matrix of an operator dom->tgt (sub-MultiDomains) into DOM->TGT"""
    def idx(sub, big):
        N = L.dom_size(big)
        pos, o = {}, 0
        for k in big.keys():
            pos[k] = o
            o += big[k].size
        re = np.concatenate([pos[k] + np.arange(sub[k].size) for k in sub.keys()]).astype(int)
        return np.concatenate([re, N + re])
    R = np.zeros((2 * L.dom_size(TGT), 2 * L.dom_size(DOM)))
    R[np.ix_(idx(tgt, TGT), idx(dom, DOM))] = M
    return R


class Gen:
    def __init__(self, ck, I, rng, W, maxdepth):
        self.ck, self.I, self.rng, self.W = ck, I, rng, W
        self.maxdepth = maxdepth
        self.nodes = []
        self.budget = 14 if maxdepth <= 3 else 26

    def reg(self, node):
        self.nodes.append(node)
        return node

    def gen(self, X, Y, depth):
        I, rng, W = self.I, self.rng, self.W
        if depth <= 0 or len(self.nodes) >= self.budget:
            return self.reg(gen_leaf(I, rng, W, X, Y))
        pool = W["pool"]
        ops = ["sum", "diff", "chain", "chain", "scal", "neg", "adj", "inv", "adjinv", "multisum",
               "multisum"]
        o = ops[int(rng.integers(0, len(ops)))]
        if o == "multisum":
            if X is Y:
                return self.multisum(X, depth)
            o = "chain"
        if o in ("sum", "diff"):
            neg = o == "diff"
            if W["multi"] and X is Y and X is pool[0] and rng.integers(0, 3) > 0:
                # union sum: summands live on sub-multidomains whose union is the full one
                combos = [(pool[1], pool[2]), (pool[2], pool[1]), (pool[0], pool[1]),
                          (pool[2], pool[0])]
                Xa, Xb = combos[int(rng.integers(0, len(combos)))]
                a = self.gen(Xa, Xa, depth - 1)
                b = self.gen(Xb, Xb, depth - 1)
                op = (a.op - b.op) if neg else (a.op + b.op)
                Mb = embed(b.M, Xb, Xb, X, Y)
                M = embed(a.M, Xa, Xa, X, Y) + (-Mb if neg else Mb)
                Su = embed(a.S, Xa, Xa, X, Y) + embed(b.S, Xb, Xb, X, Y)
                self.ck.hit("multidomain_union_sums")
                return self.reg(self.combine(op, M, 3 & a.cap & b.cap, X, Y, [o + "_union", a.desc, b.desc],
                                             o, "SumOperator", (a, b), scale=Su))
            a = self.gen(X, Y, depth - 1)
            b = self.gen(X, Y, int(rng.integers(0, depth)))
            op = (a.op - b.op) if neg else (a.op + b.op)
            M = a.M - b.M if neg else a.M + b.M
            return self.reg(self.combine(op, M, 3 & a.cap & b.cap, X, Y, [o, a.desc, b.desc], o,
                                         "SumOperator", (a, b), scale=a.S + b.S))
        if o == "chain":
            Z = pool[int(rng.integers(0, len(pool)))]
            a = self.gen(Z, Y, depth - 1)
            b = self.gen(X, Z, int(rng.integers(0, depth)))
            op = a.op @ b.op
            return self.reg(self.combine(op, a.M @ b.M, a.cap & b.cap, X, Y,
                                         ["chain", a.desc, b.desc], o, "ChainOperator", (a, b),
                                         scale=a.S @ b.S))
        if o == "scal":
            a = self.gen(X, Y, depth - 1)
            u = int(rng.integers(0, 10))
            fl = set()
            if u < 5:
                c = rscalar(rng)
            elif u < 8:
                c = cscalar(rng)
                fl.add("complex_scalar")
            elif u < 9:
                c = 0.0
            else:
                c = 2
            op = (c * a.op) if rng.integers(0, 2) else a.op.scale(c)
            Mc = L.cmat_to_real(np.eye(a.M.shape[0] // 2) * complex(c))
            n = self.combine(op, Mc @ a.M, a.cap, X, Y, ["scal", c, a.desc], o, "ChainOperator", (a,),
                             scale=abs(c) * a.S)
            n.flags |= fl
            return self.reg(n)
        if o == "neg":
            a = self.gen(X, Y, depth - 1)
            return self.reg(self.combine(-a.op, -a.M, a.cap, X, Y, ["neg", a.desc], o,
                                         "ChainOperator", (a,), scale=a.S))
        if o == "adjinv":
            # adjoint-inverse in one step: .adjoint.inverse, .inverse.adjoint or the documented
            # internal entry point _flip_modes(ADJOINT_BIT|INVERSE_BIT) (used by InversionEnabler)
            a = self.gen(X, Y, depth - 1)
            if a.square and a.cmax <= 1e3 and a.amp <= 1e2:
                how = int(rng.integers(0, 4)) % 3
                op = [lambda: a.op._flip_modes(3), lambda: a.op.adjoint.inverse, lambda: a.op.inverse.adjoint][how]()
                Mi = np.linalg.inv(a.M).T
                return self.reg(self.combine(op, Mi, L.cap_inverse(L.cap_adjoint(a.cap)), X, Y,
                                             ["adjinv", how, a.desc], "adjinv", "OperatorAdapter", (a,),
                                             scale=np.abs(Mi) * a.amp))
            return a
        a = self.gen(Y, X, depth - 1)
        if o == "inv" and a.square and a.cmax <= 1e3 and a.amp <= 1e2:
            op = a.op.inverse
            Mi = np.linalg.inv(a.M)
            return self.reg(self.combine(op, Mi, L.cap_inverse(a.cap), X, Y,
                                         ["inverse", a.desc], "inv", "OperatorAdapter", (a,),
                                         scale=np.abs(Mi) * a.amp))
        return self.reg(self.combine(a.op.adjoint, a.M.T, L.cap_adjoint(a.cap), X, Y,
                                     ["adjoint", a.desc], "adj", "OperatorAdapter", (a,), scale=a.S.T))

    def sum_term(self, X, depth):
        """one summand of a flattened sum: mostly diagonal-like / scaling leaves (the ones the
        sum simplification merges), sometimes an opaque leaf or a deeper sub-expression"""
        I, rng, W = self.I, self.rng, self.W
        u = int(rng.integers(0, 12))
        if depth > 1 and u == 0 and len(self.nodes) < self.budget:
            return self.gen(X, X, depth - 2)
        if W["multi"]:
            if u < 4:
                return self.reg(leaf_scaling(I, rng, X))
            if u < 11:
                return self.reg(leaf_blockdiag(I, rng, W, X))
            return self.reg(leaf_null(I, rng, X, X))
        if u < 6:
            return self.reg(leaf_diag(I, rng, X))
        if u < 9:
            return self.reg(leaf_scaling(I, rng, X))
        if u < 11:
            return self.reg(leaf_matrix(I, rng, X))
        return self.reg(leaf_null(I, rng, X, X))

    def multisum(self, X, depth):
        """flattened sum of 3-5 endomorphic terms with random signs in a random nesting:
        (A-B)+C, A-(B-C), -(B)+A+C, ... ; every intermediate sum is registered (and checked)"""
        rng = self.rng
        n = int(rng.integers(3, 6))
        terms = [self.sum_term(X, depth) for _ in range(n)]
        self.ck.hit("multisum_expressions")

        def build(lo, hi):
            """returns (node, [(leaf kind, effective sign)] in flattened order)"""
            if hi - lo == 1:
                t = terms[lo]
                sg = [(t.kind, +1)]
                if rng.integers(0, 6) == 0:    # unary minus on a summand
                    t = self.reg(self.combine(-t.op, -t.M, t.cap, X, X, ["neg", t.desc], "neg",
                                              "ChainOperator", (t,), scale=t.S))
                    sg = [("scaled", +1)]      # -D is a new (scaled) operator, not a flagged summand
                return t, sg
            k = int(rng.integers(lo + 1, hi))
            (a, sa), (b, sb) = build(lo, k), build(k, hi)
            neg = bool(rng.integers(0, 2))
            op = (a.op - b.op) if neg else (a.op + b.op)
            M = a.M - b.M if neg else a.M + b.M
            node = self.reg(self.combine(op, M, 3 & a.cap & b.cap, X, X,
                                         ["diff" if neg else "sum", a.desc, b.desc],
                                         "diff" if neg else "sum", "SumOperator", (a, b),
                                         scale=a.S + b.S))
            node.flags.add("multisum")
            sg = sa + [(kd, -x if neg else x) for kd, x in sb]
            if rng.integers(0, 8) == 0:        # unary minus on a partial sum
                node = self.reg(self.combine(-node.op, -node.M, node.cap, X, X, ["neg", node.desc],
                                             "neg", "ChainOperator", (node,), scale=node.S))
                sg = [(kd, -x) for kd, x in sg]
            return node, sg
        root, sg = build(0, n)
        dl = [x for kd, x in sg if kd in ("leaf:diag", "leaf:blockdiag")]
        if len(sg) >= 3 and len(dl) >= 2 and dl[0] < 0:
            self.ck.hit("flattened_sums_3plus_with_negated_diagonal")
        if len(sg) >= 3 and len(dl) >= 2:
            self.ck.hit("flattened_sums_3plus_with_two_diagonals")
        return root

    def combine(self, op, M, cap, X, Y, desc, kind, naive, kids, scale=None):
        n = Node(op, M, cap, X, Y, desc, kind, naive,
                 nops=1 + sum(k.nops for k in kids),
                 flags=set().union(*[k.flags for k in kids]),
                 opaque=all(k.opaque for k in kids),
                 cmax=max(k.cmax for k in kids), scale=scale,
                 amp=max(k.amp for k in kids))
        if type(op).__name__ != naive:
            n.flags.add("simplified")
        return n


# --------------------------------------------------------------------- oracle ---
def ref_mode_matrix(node, mode):
    if mode == TIMES:
        return node.M
    if mode == ADJ:
        return node.M.T
    Mi = np.linalg.inv(node.M)
    return Mi if mode == INV else Mi.T


def check_node(ck, I, rng, node, reported):
    op = node.op
    cls = type(op).__name__
    tag = f"{node.kind}->{cls}"

    def viol(key, what, **w):
        if key not in reported:
            reported.add(key)
            ck.violation(key, what, node=node.desc, **w)

    if not isinstance(op, I.LinearOperator):
        viol(f"not-linear-operator:{tag}", f"expression of kind {node.kind} is a {cls}, not a LinearOperator")
        return
    if op.domain != node.dom or op.target != node.tgt:
        viol(f"domain-target:{tag}", "domain/target of the expression differ from those of the "
             "matrix expression", got=[repr(op.domain)[:200], repr(op.target)[:200]])
        return
    cap = int(op.capability)
    ck.hit("capability_checks")
    if (cap & node.cap) != node.cap:
        viol(f"capability-missing:{tag}", f"advertised capability {cap} lacks modes of the reference "
             f"capability {node.cap}", advertised=cap, reference=node.cap)
    elif node.opaque and cap != node.cap:
        viol(f"capability-widened-on-opaque:{tag}", f"advertised capability {cap} != reference "
             f"{node.cap} on a tree of opaque leaves", advertised=cap, reference=node.cap)
    if node.opaque:
        ck.hit("capability_equality_checks_opaque")
    if "simplified" in node.flags and type(op).__name__ != node.naive:
        ck.hit("simplification_fired_nodes")
    mon = L.Monitor(ck, op, tag)
    for mode in MODES:
        din, dout = L.mode_domains(op, mode)
        if not (cap & mode):
            # (iii) un-advertised mode must be refused
            x = L.arr_to_field(L.cvec_to_arr(L.random_cvec(rng, L.dom_size(din), "f"), din, "f"), din)
            ck.hit("unadvertised_mode_refusals")
            try:
                y = op.apply(x, mode)
            except NotImplementedError:
                continue
            viol(f"unadvertised-mode-not-refused:{tag}:{MODE_NAME[mode]}",
                 f"{cls} does not advertise {MODE_NAME[mode]} (capability {cap}) but apply returned "
                 f"a {type(y).__name__}", capability=cap)
            continue
        if mode in (INV, ADJINV):
            if not node.square or node.cmax > 1e4 or node.amp > 1e2:
                ck.hit("inverse_modes_skipped_conditioning")
                continue
        with np.errstate(divide="ignore", invalid="ignore", over="ignore"):
            try:
                Mobs = L.probe(lambda x: mon.apply(x, mode), din, dout, "fc")
            except L.OutputError:
                continue
            except NotImplementedError:
                raise
            except Exception as e:   # an advertised mode crashed: report, go on with the other modes
                viol(L.crash_key(e), f"{cls} (built as {node.kind}) raised {type(e).__name__} in "
                     f"advertised mode {MODE_NAME[mode]}: {str(e).strip()[-200:]}",
                     tb=L.short_tb(e), mode=MODE_NAME[mode])
                ck.hit("advertised_mode_crashes")
                continue
        Mref = ref_mode_matrix(node, mode)
        if mode in (TIMES, ADJ):
            S = node.scale
        else:
            S = float(np.max(np.abs(Mref), initial=0.0)) * node.amp
        dev, ncmp = L.adev(Mobs, Mref, S)
        ck.hit("mode_matrix_comparisons")
        ck.hit("matrix_entries_compared", ncmp)
        if mode in (INV, ADJINV):
            ck.hit("inverse_mode_comparisons")
        if not dev <= RTOL:
            j = int(np.nanargmax(np.abs(np.nan_to_num(Mobs - Mref)).max(axis=0))) if Mobs.shape == Mref.shape else -1
            viol(f"matrix:{tag}:{MODE_NAME[mode]}",
                 f"dense matrix of {cls} (built as {node.kind}) in mode {MODE_NAME[mode]} differs from "
                 f"the matrix expression (dev {dev:.3g} relative to the operand scale {S:.3g})", dev=dev, worst_column=j,
                 observed_col=None if j < 0 else np.round(Mobs[:, j], 6).tolist(),
                 expected_col=None if j < 0 else np.round(Mref[:, j], 6).tolist())


def case(ck, i):
    I = ck.state["ift"]
    rng = ck.rng()
    W = gen_world(I, rng)
    maxdepth = ck.pick(3, 5)
    depth = int(rng.integers(1, maxdepth + 1))
    g = Gen(ck, I, rng, W, maxdepth)
    pool = W["pool"]
    X = pool[0] if rng.integers(0, 2) else pool[int(rng.integers(0, len(pool)))]
    Y = pool[int(rng.integers(0, len(pool)))] if rng.integers(0, 3) == 0 else X
    if rng.integers(0, 4) == 0:
        Y = X
        root = g.multisum(X, depth)
    else:
        root = g.gen(X, Y, depth)
    reported = set()
    for node in g.nodes:
        check_node(ck, I, rng, node, reported)
    nt = root.nops >= 2 and bool(root.flags & {"simplified", "partial_diag", "trafo_diag",
                                               "complex_scalar"})
    klass = ("multi" if W["multi"] else "tuple") + ":" + root.kind
    ck.note(dict(world=W["desc"], ast=root.desc), nontrivial=nt, klass=klass)
