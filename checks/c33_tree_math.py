"""C33 — Pytree vector arithmetic and custom maps match flat-array / jax.vmap semantics.

Part A (nifty.re.tree_math): every ``Vector`` dunder (binary, reflected, unary, comparison,
divmod, matmul), ``norm``, ``vdot``/``dot``, ``where``, ``size``/``shape``, reductions,
``conjugate``, ``zeros_like``/``ones_like``, ``stack``/``unstack``, ``unite``,
``mean``/``mean_and_std``, ``tree_shape``, ``map_forest`` on generated nested
dict/tuple/list pytrees.  Oracle: NumPy on the concatenated flat vectors (reductions, norms,
inner products) resp. on the corresponding flat segments (element-wise operations), re-split
by the structure; the result must be a ``Vector`` of the same structure.

Part B (nifty.re.custom_map): ``smap`` / ``lmap`` of harness-owned functions with 1-3 array or
pytree arguments and pytree outputs for generated ``in_axes`` / ``out_axes`` (int, None,
per-argument tuples, negative axes, full-structure pytrees, prefixes), batch sizes 1-4,
``unroll`` 1/2.  Oracle: ``jax.vmap`` with the same specification (values to 1e-13, and the same
accept/raise decision for invalid specifications).
"""
import operator
import numpy as np

META = dict(
    id="C33", level="exploration",
    title="Pytree vector arithmetic and custom maps match flat-array semantics",
    technique="differential execution against NumPy on flattened vectors and against jax.vmap",
    rule=("slot = (i + i//8) % 8. Slots 0-4 (Vector algebra): nested dict/tuple/list pytree (depth <= 3, 1-6 "
          "leaves, leaf shapes from {(),(2,),(3,2)} (+(3,),(1,),(2,2) thorough), dtype class float64 / "
          "complex128 / int32 / bool / mixed by slot), 6-10 operations per case drawn from the dunder, "
          "reduction and helper tables with tree, python-scalar, 0-d array and numpy-scalar operands on "
          "either side. Slots 5-7 (maps): function with 1-3 (pytree) arguments and array/tuple/dict "
          "output, generated in_axes/out_axes incl. None, negative, per-leaf pytrees, one exotic feature "
          "per case, batch 1-4, unroll 1-2. non-trivial: >= 3 leaves with >= 2 different shapes, or "
          "non-default axes (any axis != 0 or a None); distinct = distinct descriptor"),
    assumptions=[
        "element-wise results are compared leaf-segment-wise with NumPy (equivalent to the flat-vector "
        "operation for equal dtypes); reductions use the concatenated flat vector",
        "float floor-division / modulo elements within 1e-9 of a discontinuity are not compared",
        "axis specifications that smap/lmap *refuse* with ValueError/TypeError although jax.vmap accepts "
        "them (proper pytree prefixes, unhashable dict/list axes for the jitted smap, out_axes=None for "
        "the whole output) are counted (refused_* monitors) but not reported: an explicit refusal is not "
        "a wrong result; silently different values are always reported",
        "hash(Vector), bool(Vector) and random_like are not compared",
    ],
    need=["vec_binary", "vec_reflected", "vec_unary", "vec_compare", "vec_reduce", "vec_norm", "vec_dot",
          "vec_where", "vec_struct", "vec_forest", "map_smap", "map_lmap", "map_invalid_specs",
          "map_nondefault_axes"],
    quick=dict(cases=480, workers=8, budget_s=60),
    thorough=dict(cases=4000, workers=16, budget_s=700),
    design_ref="DESIGN.md §5 C33",
    level_text="differential testing on generated pytrees / axis specifications; exploration, not exhaustive",
    level_note="trusts NumPy element-wise / reduction semantics and jax.vmap as references",
)


def init(ck):
    import warnings
    import jax
    import jax.numpy as jnp
    import nifty.re as jft
    from vf import rehelp as H
    H.silence_nifty_logger()
    H.enable_compile_cache()
    warnings.filterwarnings("ignore")
    ck.state.update(jax=jax, jnp=jnp, jft=jft)


# ------------------------------------------------------------------- tree generator
def gen_struct(rng, nleaves, depth=0):
    """nested dict/tuple/list skeleton with exactly nleaves leaves (None placeholders)"""
    if nleaves == 1 and (depth > 0 or rng.random() < 0.7):
        if depth < 3 and rng.random() < 0.15:
            return {"s": None} if rng.random() < 0.5 else (None,)
        return None
    if depth >= 2:
        kids = [None] * nleaves
    else:
        k = int(rng.integers(1, min(3, nleaves) + 1)) if nleaves > 1 else 1
        cuts = sorted(rng.choice(np.arange(1, nleaves), k - 1, replace=False).tolist()) if k > 1 else []
        sizes = np.diff([0] + cuts + [nleaves]).tolist()
        kids = [gen_struct(rng, s, depth + 1) for s in sizes]
    kind = int(rng.integers(0, 3))
    if kind == 0:
        names = ["a", "b", "c", "d", "e", "f"]
        return {names[j]: kd for j, kd in enumerate(kids)}
    return tuple(kids) if kind == 1 else list(kids)


def fill(struct, it):
    if struct is None:
        return next(it)
    if isinstance(struct, dict):
        return {k: fill(v, it) for k, v in struct.items()}
    if isinstance(struct, tuple):
        return tuple(fill(v, it) for v in struct)
    return [fill(v, it) for v in struct]


def sdesc(struct):
    if struct is None:
        return "*"
    if isinstance(struct, dict):
        return "{" + ",".join(f"{k}:{sdesc(v)}" for k, v in struct.items()) + "}"
    o, c = ("(", ")") if isinstance(struct, tuple) else ("[", "]")
    return o + ",".join(sdesc(v) for v in struct) + c


def leaf(rng, shape, kind, role="a"):
    if kind == "f":
        return np.round(rng.standard_normal(shape) * 2, 3)
    if kind == "c":
        return np.round(rng.standard_normal(shape) * 2, 3) + 1j * np.round(rng.standard_normal(shape) * 2, 3)
    if kind in ("i", "l"):
        # "i": int32 (only operations with exact integer semantics are applied: JAX promotes
        # int32 -> float32 where NumPy gives float64); "l": int64 (mixed class)
        dt = np.int32 if kind == "i" else np.int64
        return rng.integers(-9, 10, shape).astype(dt)
    return rng.integers(0, 2, shape).astype(bool)


class T:
    """a generated tree in three views: numpy leaves (flatten order), Vector, kinds"""


def gen_tree(S, rng, struct, shapes, kinds, role="a"):
    jax, jnp, jft = S["jax"], S["jnp"], S["jft"]
    # leaves in *definition* order -> put into the skeleton -> canonical order via jax flatten
    np_tree = fill(struct, iter([leaf(rng, s, k, role) for s, k in zip(shapes, kinds)]))
    t = T()
    t.np_leaves = [np.asarray(l) for l in jax.tree_util.tree_leaves(np_tree)]
    t.vec = jft.Vector(jax.tree_util.tree_map(jnp.asarray, np_tree))
    t.np_tree = np_tree
    return t


def flat(leaves):
    return np.concatenate([np.ravel(l) for l in leaves]) if leaves else np.zeros(0)


# ------------------------------------------------------------------------ comparing
def kind_of(a):
    return np.asarray(a).dtype.kind.replace("u", "i")


def cmp_leaves(ck, key, what, got_tree, ref_leaves, S, exact=True, rtol=1e-13, skipmask=None, wit=None,
               want_vector=True, struct_of=None):
    jax, jft = S["jax"], S["jft"]
    wit = wit or {}
    if want_vector and not isinstance(got_tree, jft.Vector):
        ck.violation(key + ":type", f"{what}: result is {type(got_tree).__name__}, not a Vector", **wit)
        return False
    if struct_of is not None:
        if jax.tree_util.tree_structure(got_tree) != jax.tree_util.tree_structure(struct_of):
            ck.violation(key + ":structure", f"{what}: result has a different pytree structure", **wit)
            return False
    got = [np.asarray(l) for l in jax.tree_util.tree_leaves(got_tree)]
    if len(got) != len(ref_leaves):
        ck.violation(key + ":structure", f"{what}: {len(got)} leaves instead of {len(ref_leaves)}", **wit)
        return False
    for j, (g, r) in enumerate(zip(got, ref_leaves)):
        r = np.asarray(r)
        if g.shape != r.shape:
            ck.violation(key + ":shape", f"{what}: leaf {j} has shape {g.shape}, expected {r.shape}", **wit)
            return False
        if kind_of(g) != kind_of(r):
            ck.violation(key + ":dtype", f"{what}: leaf {j} has dtype kind {g.dtype}, NumPy gives {r.dtype}",
                         **wit)
            return False
        m = np.ones(r.shape, bool) if skipmask is None else ~skipmask[j]
        if exact or r.dtype.kind in "biu":
            ok = np.array_equal(g[m], r[m], equal_nan=(r.dtype.kind in "fc"))
        else:
            sc = np.max(np.abs(r[m]), initial=0.0) + np.max(np.abs(g[m]), initial=0.0)
            ok = bool(np.all(np.abs(g[m] - r[m]) <= rtol * sc + 1e-300)) and bool(np.all(np.isfinite(g[m]) == np.isfinite(r[m])))
        if not ok:
            ck.violation(key, f"{what}: values differ from the NumPy flat-vector result (leaf {j})",
                         got=np.ravel(g)[:6].tolist(), expected=np.ravel(r)[:6].tolist(), **wit)
            return False
    return True


def cmp_scalar(ck, key, what, got, ref, rtol=1e-12, wit=None):
    g, r = np.asarray(got), np.asarray(ref)
    if g.shape != ():
        ck.violation(key + ":shape", f"{what}: result is not a scalar (shape {g.shape})", **(wit or {}))
        return
    if not (abs(complex(g) - complex(r)) <= rtol * (abs(complex(r)) + abs(complex(g))) + 1e-300):
        ck.violation(key, f"{what}: differs from the NumPy flat-vector result", got=complex(g) if np.iscomplexobj(g) else float(g),
                     expected=complex(r) if np.iscomplexobj(r) else float(r), **(wit or {}))


# ---------------------------------------------------------------------- Part A ops
ARITH = {"f": ["add", "sub", "mul", "truediv", "floordiv", "mod", "pow"],
         "c": ["add", "sub", "mul", "truediv"],
         "i": ["add", "sub", "mul", "floordiv", "mod", "pow", "lshift", "rshift", "and_", "or_", "xor"],
         "b": ["and_", "or_", "xor"],
         "m": ["add", "sub", "mul", "truediv"]}
COMPARE = {"f": ["lt", "le", "gt", "ge", "eq", "ne"], "c": ["eq", "ne"], "i": ["lt", "le", "gt", "ge", "eq", "ne"],
           "b": ["eq", "ne"], "m": ["lt", "ge", "eq", "ne"]}
UNARY = {"f": ["neg", "pos", "abs"], "c": ["neg", "pos", "abs", "conj", "real", "imag"],
         "i": ["neg", "pos", "abs", "invert"], "b": ["invert"], "m": ["neg", "abs"]}
EXACT = {"add", "sub", "mul", "lt", "le", "gt", "ge", "eq", "ne", "and_", "or_", "xor", "lshift", "rshift",
         "neg", "pos", "invert", "real", "imag", "conj"}
NPOP = dict(add=np.add, sub=np.subtract, mul=np.multiply, truediv=np.true_divide, floordiv=np.floor_divide,
            mod=np.mod, pow=np.power, lshift=np.left_shift, rshift=np.right_shift, and_=np.bitwise_and,
            or_=np.bitwise_or, xor=np.bitwise_xor, lt=np.less, le=np.less_equal, gt=np.greater,
            ge=np.greater_equal, eq=np.equal, ne=np.not_equal)


def role_for(op, side):
    if op in ("truediv", "floordiv", "mod") and side == "rhs":
        return "div"
    if op in ("lshift", "rshift", "pow") and side == "rhs":
        return "small"
    return "a"


def prep_operands(op, a, b, cls):
    """make operands valid for the operation (positive bases, non-zero divisors)"""
    if op == "pow":
        if cls in ("f", "m"):
            a = [np.abs(x) + 0.5 if x.dtype.kind == "f" else x for x in a]
    if op in ("truediv", "floordiv", "mod"):
        b = [np.where(np.abs(x) < 0.25, 1.5, x).astype(x.dtype) if x.dtype.kind in "fc" else x for x in b]
    return a, b


def scalar_operand(rng, op, cls, form):
    if cls == "b":
        v = bool(rng.integers(0, 2))
    elif cls == "i":
        v = int(rng.integers(1, 4))
    elif cls == "c" and rng.random() < 0.5:
        v = complex(np.round(rng.standard_normal(), 2) + 1.5, np.round(rng.standard_normal(), 2))
    else:
        v = float(np.round(abs(rng.standard_normal()) + 0.5, 2))
        if op in ("lshift", "rshift", "and_", "or_", "xor") or (cls == "i" and op == "pow"):
            v = int(rng.integers(1, 4))
    return v


def wrap_scalar(S, v, form):
    jnp = S["jnp"]
    if form == "py":
        return v
    if form == "jnp0":
        return jnp.asarray(v)
    if form == "np0":
        return np.asarray(v)
    return np.asarray(v)[()]            # numpy scalar


def tie_mask(op, a_l, b_l):
    """elements of float // and % too close to a discontinuity"""
    if op not in ("floordiv", "mod"):
        return None
    ms = []
    for x, y in zip(a_l, b_l):
        x, y = np.broadcast_arrays(np.asarray(x), np.asarray(y))
        if x.dtype.kind == "f" or y.dtype.kind == "f":
            r = x.astype(float) / y.astype(float)
            ms.append(np.abs(r - np.round(r)) < 1e-9)
        else:
            ms.append(np.zeros(x.shape, bool))
    return ms


def do_binary(ck, S, rng, ta, tb, cls, desc_ops):
    jft = S["jft"]
    ops = ARITH[cls] + COMPARE[cls]
    op = ops[int(rng.integers(0, len(ops)))]
    form = ["tree", "tree", "tree", "tree", "py_r", "py_r", "py_l", "py_l", "jnp0_r", "jnp0_l", "jnp0_l", "np_r",
            "np0_r", "np_l", "tree", "py_l"][int(rng.integers(0, 16))]
    pyop = getattr(operator, op)
    npop = NPOP[op]
    a_l, b_l = [x.copy() for x in ta.np_leaves], [x.copy() for x in tb.np_leaves]
    if op in ("lshift", "rshift", "pow") and cls == "i":
        b_l = [np.abs(x) % 4 for x in b_l]
    if op in ("truediv", "floordiv", "mod") and cls in ("i", "m"):
        b_l = [np.where(x == 0, 3, x).astype(x.dtype) for x in b_l]
    a_l, b_l = prep_operands(op, a_l, b_l, cls)
    va = jft.Vector(S["jax"].tree_util.tree_unflatten(S["jax"].tree_util.tree_structure(ta.vec.tree), [S["jnp"].asarray(x) for x in a_l]))
    vb = jft.Vector(S["jax"].tree_util.tree_unflatten(S["jax"].tree_util.tree_structure(tb.vec.tree), [S["jnp"].asarray(x) for x in b_l]))
    key = f"vector:{op}"
    exact = op in EXACT and not (cls == "c" and op == "mul")
    mon = "vec_compare" if op in COMPARE["f"] else "vec_binary"
    wit = dict(op=op, form=form)
    with np.errstate(all="ignore"):
        if form == "tree":
            ref = [npop(x, y) for x, y in zip(a_l, b_l)]
            got = pyop(va, vb)
            mask = tie_mask(op, a_l, b_l)
        else:
            kindf, side = form.split("_")
            s = scalar_operand(rng, op, cls, kindf)
            if op in ("truediv", "floordiv", "mod") and side == "l":
                # scalar / tree: tree is the divisor
                a_l = [np.where(np.abs(x) < 0.25, 1.5, x).astype(x.dtype) if x.dtype.kind in "fc" else
                       np.where(x == 0, 3, x).astype(x.dtype) for x in a_l]
                va = jft.Vector(S["jax"].tree_util.tree_unflatten(S["jax"].tree_util.tree_structure(ta.vec.tree), [S["jnp"].asarray(x) for x in a_l]))
            if op == "pow" and side == "l" and cls == "i":
                a_l = [np.abs(x) % 4 for x in a_l]
                va = jft.Vector(S["jax"].tree_util.tree_unflatten(S["jax"].tree_util.tree_structure(ta.vec.tree), [S["jnp"].asarray(x) for x in a_l]))
            if op == "pow" and side == "l" and cls in ("f", "m"):
                a_l = [np.clip(x, -3, 3) for x in a_l]
                va = jft.Vector(S["jax"].tree_util.tree_unflatten(S["jax"].tree_util.tree_structure(ta.vec.tree), [S["jnp"].asarray(x) for x in a_l]))
            if op in ("lshift", "rshift") and side == "l":
                a_l = [np.abs(x) % 4 for x in a_l]
                va = jft.Vector(S["jax"].tree_util.tree_unflatten(S["jax"].tree_util.tree_structure(ta.vec.tree), [S["jnp"].asarray(x) for x in a_l]))
            sw = wrap_scalar(S, s, kindf)
            wit["scalar"] = repr(s)
            if side == "r":
                ref = [npop(x, s) for x in a_l]
                mask = tie_mask(op, a_l, [np.full(x.shape, s) for x in a_l]) if not isinstance(s, complex) else None
                got = pyop(va, sw)
            else:
                ref = [npop(s, x) for x in a_l]
                mask = tie_mask(op, [np.full(x.shape, s) for x in a_l], a_l) if not isinstance(s, complex) else None
                mon = "vec_reflected"
                if kindf in ("np", "np0"):
                    key = "vector:numpy-scalar-left-operand"
                    ck.hit("vec_numpy_left")
                    desc_ops.append(f"{op}/{form}")
                    try:
                        got = pyop(sw, va)
                    except Exception as e:
                        ck.violation(key, f"numpy scalar/0-d array {op} Vector raises {type(e).__name__} "
                                     "(NumPy's ufunc machinery takes over instead of Vector.__r*__)", **wit)
                        return
                    if not isinstance(got, jft.Vector):
                        ck.violation(key, f"numpy scalar/0-d array {op} Vector returns {type(got).__name__} "
                                     "instead of a Vector (NumPy's ufunc machinery takes over)", **wit)
                        return
                    ck.hit(mon)
                    cmp_leaves(ck, key, f"Vector {op} ({form})", got, ref, S, exact=False, skipmask=mask, wit=wit)
                    return
                else:
                    got = pyop(sw, va)
    ck.hit(mon)
    desc_ops.append(f"{op}/{form}")
    cmp_leaves(ck, key, f"Vector {op} ({form})", got, ref, S, exact=exact, skipmask=mask, wit=wit, struct_of=ta.vec)


def do_unary(ck, S, rng, ta, cls, desc_ops):
    ops = UNARY[cls]
    op = ops[int(rng.integers(0, len(ops)))]
    v = ta.vec
    a_l = ta.np_leaves
    if op == "neg":
        got, ref = -v, [np.negative(x) for x in a_l]
    elif op == "pos":
        got, ref = +v, [np.positive(x) for x in a_l]
    elif op == "abs":
        got, ref = abs(v), [np.abs(x) for x in a_l]
    elif op == "invert":
        got, ref = ~v, [np.invert(x) for x in a_l]
    elif op == "conj":
        got = v.conj() if rng.random() < 0.5 else S["jft"].conj(v)
        ref = [np.conj(x) for x in a_l]
    elif op == "real":
        got, ref = v.real, [np.real(x) for x in a_l]
    else:
        got, ref = v.imag, [np.imag(x) for x in a_l]
    ck.hit("vec_unary")
    desc_ops.append(op)
    cmp_leaves(ck, f"vector:{op}", f"Vector {op}", got, ref, S, exact=(op in EXACT or cls != "c"), wit=dict(op=op),
               struct_of=v)


def do_reduce(ck, S, rng, ta, tb, cls, desc_ops):
    jft = S["jft"]
    fa, fb = flat(ta.np_leaves), flat(tb.np_leaves)
    choices = ["size", "norm", "norm", "dot", "vdot", "sum"]
    if cls == "i":
        choices = ["size", "dot", "vdot", "sum"]
    if cls in ("f", "i", "m"):
        choices += ["min", "max"]
    if cls == "b":
        choices = ["size", "any", "all", "sum"]
    what = choices[int(rng.integers(0, len(choices)))]
    desc_ops.append(what)
    v, w = ta.vec, tb.vec
    if what == "size":
        ck.hit("vec_struct")
        n = fa.size
        got = dict(size=jft.size(v), shape=jft.shape(v), len=len(v), psize=v.size, pshape=v.shape)
        exp = dict(size=n, shape=(n,), len=n, psize=n, pshape=(n,))
        if got != exp:
            ck.violation("vector:size", "size/shape/len of a Vector differ from the flat vector", got=got, expected=exp)
        return
    if what == "norm":
        r = rng.random()
        ordv = [1, 2, np.inf, -np.inf, 3][int(rng.integers(0, 5))] if r < 0.93 else 0
        ck.hit("vec_norm")
        fa_ = fa.astype(complex) if cls == "c" else fa.astype(float)
        ref = np.linalg.norm(fa_, ord=ordv)
        got = jft.norm(v, ord=ordv) if not (ordv == 2 and rng.random() < 0.5) else jft.norm(v)
        cmp_scalar(ck, "vector:norm" if ordv != 0 else "vector:norm:ord=0", f"norm(ord={ordv})", got, ref,
                   wit=dict(ord=str(ordv)))
        desc_ops[-1] = f"norm{ordv}"
        return
    if what in ("dot", "vdot"):
        ck.hit("vec_dot")
        if cls == "b":
            return
        if what == "vdot":
            cmp_scalar(ck, "vector:vdot", "vdot(a,b)", jft.vdot(v, w), np.vdot(fa, fb))
        else:
            form = int(rng.integers(0, 3))
            got = [lambda: jft.dot(v, w), lambda: v @ w, lambda: v.dot(w)][form]()
            cmp_scalar(ck, "vector:dot", "dot / matmul", got, np.dot(fa, fb), wit=dict(form=form))
        return
    ck.hit("vec_reduce")
    npf = dict(sum=np.sum, min=np.min, max=np.max, any=np.any, all=np.all)[what]
    meth = rng.random() < 0.4 and what in ("sum", "min", "max")
    got = getattr(v, what)() if meth else getattr(jft, what)(v)
    cmp_scalar(ck, f"vector:{what}", f"{what} reduction", got, npf(fa), wit=dict(method=bool(meth)))


def do_where(ck, S, rng, ta, tb, cls, struct, shapes, desc_ops):
    jft, jax, jnp = S["jft"], S["jax"], S["jnp"]
    ck.hit("vec_where")
    tc = gen_tree(S, rng, struct, shapes, ["b"] * len(shapes))
    form = ["ttt", "tts", "tst", "stt", "sts"][int(rng.integers(0, 5))]
    desc_ops.append("where/" + form)
    sx = float(np.round(rng.standard_normal(), 2))
    cond = tc.vec if form[0] == "t" else bool(rng.integers(0, 2))
    x = ta.vec if form[1] == "t" else sx
    y = tb.vec if form[2] == "t" else -sx
    if form == "sts":
        return
    got = jft.where(cond, x, y)
    ref = []
    for c, a, b in zip(tc.np_leaves, ta.np_leaves, tb.np_leaves):
        ref.append(np.where(c if form[0] == "t" else cond, a if form[1] == "t" else sx, b if form[2] == "t" else -sx))
    cmp_leaves(ck, "where", f"where ({form})", got, ref, S, exact=True, wit=dict(form=form), want_vector=True)


def do_struct(ck, S, rng, ta, tb, cls, desc_ops):
    jft, jax, jnp = S["jft"], S["jax"], S["jnp"]
    from nifty.re.tree_math.forest_math import unite
    what = ["zeros_like", "ones_like", "copy", "divmod", "tree_shape", "getitem", "unite"][int(rng.integers(0, 7))]
    if what == "divmod" and cls not in ("f", "i"):
        what = "copy"
    desc_ops.append(what)
    ck.hit("vec_struct")
    v = ta.vec
    if what in ("zeros_like", "ones_like"):
        got = getattr(jft, what)(v)
        fill_ = 0 if what == "zeros_like" else 1
        ref = [np.full(x.shape, fill_, dtype=x.dtype) for x in ta.np_leaves]
        cmp_leaves(ck, f"vector:{what}", what, got, ref, S, struct_of=v)
    elif what == "copy":
        got = v.copy()
        cmp_leaves(ck, "vector:copy", "copy", got, ta.np_leaves, S, struct_of=v)
        if v.ravel() is not v:
            ck.violation("vector:ravel", "Vector.ravel() is not the vector itself")
    elif what == "divmod":
        b_l = [np.where(np.abs(x) < 0.25, 1.5, x).astype(x.dtype) if x.dtype.kind == "f" else
               np.where(x == 0, 3, x).astype(x.dtype) for x in tb.np_leaves]
        vb = jft.Vector(jax.tree_util.tree_unflatten(jax.tree_util.tree_structure(tb.vec.tree), [jnp.asarray(x) for x in b_l]))
        q, r = divmod(v, vb)
        mask = tie_mask("floordiv", ta.np_leaves, b_l)
        with np.errstate(all="ignore"):
            cmp_leaves(ck, "vector:divmod", "divmod quotient", q, [np.floor_divide(x, y) for x, y in zip(ta.np_leaves, b_l)], S,
                       exact=False, skipmask=mask, struct_of=v)
            cmp_leaves(ck, "vector:divmod", "divmod remainder", r, [np.mod(x, y) for x, y in zip(ta.np_leaves, b_l)], S,
                       exact=False, skipmask=mask, struct_of=v)
    elif what == "tree_shape":
        got = jft.tree_shape(v)
        exp = [tuple(x.shape) for x in ta.np_leaves]
        gl = jax.tree_util.tree_leaves(got, is_leaf=lambda x: isinstance(x, tuple) and all(isinstance(e, int) for e in x))
        if [tuple(g) for g in gl] != exp:
            ck.violation("tree_shape", "tree_shape differs from the leaf shapes", got=str(gl), expected=str(exp))
    elif what == "getitem":
        tr = v.tree
        if isinstance(tr, dict):
            k = sorted(tr)[0]
            ok = (v[k] is tr[k]) and (k in v)
        elif isinstance(tr, (tuple, list)):
            ok = v[0] is tr[0]
        else:
            ok = True
        if not ok:
            ck.violation("vector:getitem", "Vector indexing does not return the sub-tree")
    else:
        # unite on flat dicts with partially overlapping keys
        ka, kb = {"p": 0, "q": 1}, {"q": 2, "r": 3}
        arrs = [np.round(rng.standard_normal(3), 3) for _ in range(4)]
        da = {k: jnp.asarray(arrs[j]) for k, j in ka.items()}
        db = {k: jnp.asarray(arrs[j]) for k, j in kb.items()}
        opn = ["add", "sub", "mul"][int(rng.integers(0, 3))]
        wrapv = rng.random() < 0.5
        got = unite(jft.Vector(da) if wrapv else da, jft.Vector(db) if wrapv else db, op=getattr(operator, opn))
        exp = {"p": arrs[0], "q": NPOP[opn](arrs[1], arrs[2]), "r": arrs[3]}
        gt = got.tree if wrapv else got
        if wrapv and not isinstance(got, jft.Vector):
            ck.violation("unite:type", "unite of Vectors is not a Vector")
        elif sorted(gt) != ["p", "q", "r"] or not all(np.array_equal(np.asarray(gt[k]), exp[k]) for k in exp):
            ck.violation("unite", "unite differs from the key-wise union with op on common keys", op=opn)


def do_forest(ck, S, rng, struct, shapes, cls, desc_ops):
    """stack/unstack, mean, mean_and_std, map_forest on a tuple of equal-structure trees"""
    jft, jax, jnp = S["jft"], S["jax"], S["jnp"]
    ck.hit("vec_forest")
    n = int(rng.integers(2, 5))
    kinds = ["f"] * len(shapes)
    trees = [gen_tree(S, rng, struct, shapes, kinds) for _ in range(n)]
    what = ["stack", "mean", "mean_std", "map_forest", "stack_axis"][int(rng.integers(0, 5))]
    desc_ops.append(what)
    asvec = rng.random() < 0.5
    forest = tuple(t.vec if asvec else t.vec.tree for t in trees)
    L = len(trees[0].np_leaves)
    if what in ("stack", "stack_axis"):
        axis = 0
        if what == "stack_axis":
            nd = min(x.ndim for x in trees[0].np_leaves)
            axis = int(rng.integers(0, nd + 1)) if rng.random() < 0.6 else -1
        st = jft.stack(forest, axis=axis) if axis != 0 or rng.random() < 0.5 else jft.stack(forest)
        ref = [np.stack([t.np_leaves[j] for t in trees], axis=axis) for j in range(L)]
        ok = cmp_leaves(ck, "stack", f"stack(axis={axis})", st, ref, S, want_vector=asvec)
        if ok:
            key = "unstack" if axis == 0 else "unstack:axis!=0"
            try:
                un = jft.unstack(st, axis=axis) if axis != 0 or rng.random() < 0.5 else jft.unstack(st)
            except Exception as e:
                ck.violation(key, f"unstack(stack(trees, axis={axis}), axis={axis}) raises {type(e).__name__}: "
                             f"{str(e)[:120]}", axis=axis, n=n, shapes=[list(s) for s in shapes])
                return
            if len(un) != n:
                ck.violation(key, f"unstack returns {len(un)} trees instead of {n}", axis=axis)
                return
            for t, u in zip(trees, un):
                if not cmp_leaves(ck, key, f"unstack(axis={axis})", u, t.np_leaves, S, want_vector=asvec):
                    return
    elif what == "mean":
        m = jft.mean(forest)
        ref = [np.mean([t.np_leaves[j] for t in trees], axis=0) for j in range(L)]
        cmp_leaves(ck, "mean", "mean of a forest", m, ref, S, exact=False, rtol=1e-13, want_vector=asvec)
    elif what == "mean_std":
        cb = bool(rng.integers(0, 2))
        m, s = jft.mean_and_std(forest, correct_bias=cb)
        refm = [np.mean([t.np_leaves[j] for t in trees], axis=0) for j in range(L)]
        refs = [np.std([t.np_leaves[j] for t in trees], axis=0, ddof=1 if cb else 0) for j in range(L)]
        cmp_leaves(ck, "mean_and_std:mean", "mean_and_std (mean)", m, refm, S, exact=False, rtol=1e-13, want_vector=asvec)
        # std via E[x^2]-E[x]^2: cancellation error ~ eps*E[x^2]/std
        got = [np.asarray(l) for l in jax.tree_util.tree_leaves(s)]
        for j, (g, r) in enumerate(zip(got, refs)):
            msq = np.mean([t.np_leaves[j] ** 2 for t in trees], axis=0)
            tol = 1e-9 * np.abs(r) + 64 * 2.2e-16 * msq / np.maximum(r, 1e-300) * np.sqrt(n / max(n - 1, 1))
            bad = ~(np.abs(g - r) <= tol) & (r > 1e-6 * np.sqrt(msq))
            if g.shape != r.shape or np.any(bad):
                ck.violation("mean_and_std:std", "standard deviation differs from numpy.std", correct_bias=cb,
                             got=np.ravel(g)[:4].tolist(), expected=np.ravel(r)[:4].tolist())
                break
    else:
        mp = ["vmap", "smap", "lmap"][int(rng.integers(0, 3))]
        a = float(np.round(rng.standard_normal(), 2))

        def f(t):
            return jax.tree_util.tree_map(lambda x: jnp.sin(x) * a + x.sum(), t)
        out = jft.map_forest(f, map=mp)(forest)
        if len(out) != n:
            ck.violation("map_forest", f"map_forest returns {len(out)} trees instead of {n}", map=mp)
            return
        for t, o in zip(trees, out):
            ref = [np.sin(x) * a + x.sum() for x in t.np_leaves]
            if not cmp_leaves(ck, "map_forest", f"map_forest(map={mp})", o, ref, S, exact=False, rtol=1e-13,
                              want_vector=asvec, wit=dict(map=mp)):
                return


SHAPES_Q = [(), (2,), (3, 2)]
SHAPES_T = [(), (2,), (3, 2), (3,), (1,), (2, 2)]
CLASSES = ["f", "c", "i", "b", "m"]


def case_vector(ck, S, rng, slot):
    cls = CLASSES[slot]
    nleaves = int(rng.integers(1, 7))
    struct = gen_struct(rng, nleaves)
    pool = SHAPES_T if ck.thorough() else SHAPES_Q
    shapes = [pool[int(rng.integers(0, len(pool)))] for _ in range(nleaves)]
    if cls == "m":
        kinds = [("f", "l")[int(rng.integers(0, 2))] for _ in range(nleaves)]
    else:
        kinds = [cls] * nleaves
    ta = gen_tree(S, rng, struct, shapes, kinds)
    tb = gen_tree(S, rng, struct, shapes, kinds)
    ops = []
    nops = int(rng.integers(6, 11))
    for _ in range(nops):
        r = rng.random()
        if r < 0.45:
            do_binary(ck, S, rng, ta, tb, cls, ops)
        elif r < 0.58:
            do_unary(ck, S, rng, ta, cls, ops)
        elif r < 0.78:
            do_reduce(ck, S, rng, ta, tb, cls, ops)
        elif r < 0.85 and cls in ("f", "i", "m"):
            do_where(ck, S, rng, ta, tb, cls, struct, shapes, ops)
        elif r < 0.93:
            do_struct(ck, S, rng, ta, tb, cls, ops)
        elif cls in ("f", "m"):
            do_forest(ck, S, rng, struct, shapes, cls, ops)
        else:
            do_unary(ck, S, rng, ta, cls, ops)
    nt = nleaves >= 3 and len(set(shapes)) >= 2
    ck.note(dict(part="vector", cls=cls, struct=sdesc(struct), shapes=[list(s) for s in shapes], ops=ops),
            nontrivial=nt, klass="vector_" + cls)


# --------------------------------------------------------------------------- Part B
REFUSABLE = {"proper-prefix", "unhashable-axes", "out-axes-none-all"}
E_SHAPES = [(3,), (2, 3)]


def insert_axis(shape, k, B):
    return tuple(shape[:k]) + (B,) + tuple(shape[k:])


def case_map(ck, S, rng, slot):
    jax, jnp, jft = S["jax"], S["jnp"], S["jft"]
    e = E_SHAPES[int(rng.integers(0, len(E_SHAPES)))]
    nd = len(e)
    nargs = int(rng.integers(1, 4))
    B = int(rng.integers(1, 5))
    feature = ["basic", "basic", "basic", "pytree-arg", "out-none-input", "out-none-computed", "proper-prefix",
               "unhashable-axes", "out-axes-none-all", "invalid-len", "invalid-out-struct", "invalid-axis",
               "invalid-all-none"][int(rng.integers(0, 13))]
    # which arguments are mapped, and along which axis
    mapped = [bool(rng.integers(0, 4)) for _ in range(nargs)]
    if feature in ("out-none-input", "out-none-computed", "out-axes-none-all") and nargs == 1:
        nargs, mapped = 2, [True, False]
    if not any(mapped):
        mapped[int(rng.integers(0, nargs))] = True
    if feature in ("out-none-input", "out-none-computed", "out-axes-none-all") and all(mapped):
        mapped[-1] = False
        if not any(mapped):
            mapped[0] = True
    if feature == "invalid-all-none":
        mapped = [False] * nargs
    axes = []
    for m in mapped:
        if not m:
            axes.append(None)
        else:
            k = int(rng.integers(0, nd + 1))
            axes.append(k - (nd + 1) if rng.random() < 0.3 else k)
    args = []
    for m, ax in zip(mapped, axes):
        shp = e if not m else insert_axis(e, ax % (nd + 1), B)
        args.append(jnp.asarray(np.round(rng.standard_normal(shp), 3)))
    in_axes = tuple(axes)
    same = [a for a in axes if a is not None]
    if nargs >= 1 and all(mapped) and len(set(same)) == 1 and rng.random() < 0.5:
        in_axes = same[0]                       # a single int for all arguments
    # pytree first argument
    ptree = feature in ("pytree-arg", "proper-prefix", "unhashable-axes")
    unm = [j for j, m in enumerate(mapped) if not m]
    ucoef = float(np.round(rng.uniform(1.5, 3.0), 2))
    outform = ["array", "tuple", "dict"][int(rng.integers(0, 3))]
    if feature in ("out-none-input", "out-none-computed", "out-axes-none-all"):
        outform = "array"       # keep the features separate: no nested out_axes here

    def core(*a):
        a = list(a)
        if ptree:
            p = a[0]
            if isinstance(p, dict):
                a[0] = p["p"] + 2.0 * p["q"]
            elif isinstance(p[0], tuple):
                a[0] = p[0][0] + 0.5 * p[0][1] + 2.0 * p[1]
            else:
                a[0] = p[0] + 2.0 * p[1]
        tot = sum(x.sum() for x in a[1:]) if len(a) > 1 else 0.0
        oA = a[0] * (1.0 + tot)
        oB = jnp.sin(a[-1]) + a[0].mean()
        oC = sum((x ** 2).sum() for x in a)
        if outform == "array":
            out = oA
        elif outform == "tuple":
            out = (oA, oC)
        else:
            out = {"x": oA, "y": (oB, oC)}
        if feature == "out-none-input":
            return (out, a[unm[0]])
        if feature == "out-none-computed":
            return (out, ucoef * a[unm[0]] + 1.0)
        if feature == "out-axes-none-all":
            return ucoef * a[unm[0]] + 1.0
        return out
    # out axes
    def oax(ndim_out):
        k = int(rng.integers(0, ndim_out + 1))
        return k - (ndim_out + 1) if rng.random() < 0.3 else k
    if outform == "array":
        out_axes = oax(nd)
    elif outform == "tuple":
        out_axes = (oax(nd), 0 if rng.random() < 0.6 else -1)
    else:
        # a dict of axes is only generated under the "unhashable-axes" feature
        out_axes = {"x": oax(nd), "y": (oax(nd), 0)} if feature == "unhashable-axes" else (0 if rng.random() < 0.7 else -1)
    if outform == "tuple" and rng.random() < 0.3:
        out_axes = 0
    if feature in ("out-none-input", "out-none-computed"):
        out_axes = (out_axes, None)
    if feature == "out-axes-none-all":
        out_axes = None
    # pytree argument and its axis spec
    if ptree:
        ax0 = axes[0]
        a0 = args[0]
        other = jnp.asarray(np.round(rng.standard_normal(a0.shape), 3))
        if not isinstance(in_axes, tuple):
            in_axes = tuple(axes)
        if feature == "pytree-arg":
            qun = rng.random() < 0.5 and ax0 is not None
            q = jnp.asarray(np.round(rng.standard_normal(e), 3)) if qun else other
            args[0] = (a0, q)
            if not qun and rng.random() < 0.4:
                in_axes = (ax0,) + tuple(in_axes[1:])        # one int/None for the whole pytree argument
            else:
                in_axes = ((ax0, None if qun else ax0),) + tuple(in_axes[1:])
        elif feature == "proper-prefix":
            # ((mapped, mapped), unmapped) with the prefix (axis, None): jax.vmap broadcasts the axis
            q = jnp.asarray(np.round(rng.standard_normal(e), 3))
            args[0] = ((a0, other), q)
            in_axes = ((ax0, None),) + tuple(in_axes[1:])
        else:
            args[0] = {"p": a0, "q": other}
            in_axes = ({"p": ax0, "q": ax0},) + tuple(in_axes[1:])
    if feature == "invalid-len":
        in_axes = tuple(axes) + (0,)
    if feature == "invalid-out-struct":
        out_axes = (0, 0, 0) if outform != "array" else (0, 0)
    if feature == "invalid-axis":
        j = [k for k, m in enumerate(mapped) if m][0]
        bad = list(axes)
        bad[j] = nd + 2
        in_axes = tuple(bad)
        if ptree:
            feature = "basic"
    unroll = int(rng.integers(1, 3))
    nondefault = any(a not in (0,) for a in axes) or out_axes not in (0,)
    desc = dict(part="map", feature=feature, e=list(e), nargs=nargs, B=B, in_axes=repr(in_axes), out_axes=repr(out_axes),
                out=outform, unroll=unroll)
    # reference
    try:
        ref = jax.vmap(core, in_axes, out_axes)(*args)
        ref_exc = None
    except Exception as ex:
        ref, ref_exc = None, ex
    if feature.startswith("invalid"):
        ck.hit("map_invalid_specs")
    if nondefault:
        ck.hit("map_nondefault_axes")
    which = ["smap", "lmap"] if slot == 5 else (["smap"] if slot == 6 else ["lmap"])
    for mname in which:
        ck.hit("map_" + mname)
        try:
            if mname == "smap":
                got = jft.smap(core, in_axes, out_axes, unroll=unroll)(*args)
            else:
                got = jft.lmap(core, in_axes, out_axes)(*args)
            exc = None
        except Exception as ex:
            got, exc = None, ex
        if ref_exc is not None:
            if exc is None:
                ck.violation(f"{mname}:{feature}:accepts-what-vmap-rejects",
                             f"{mname} accepts an axis specification that jax.vmap rejects "
                             f"({type(ref_exc).__name__})", desc=desc)
            continue
        if exc is not None:
            if feature in REFUSABLE and isinstance(exc, (ValueError, TypeError)):
                ck.hit("refused_" + feature)
                continue
            ck.violation(f"{mname}:{feature}:raises", f"{mname} raises {type(exc).__name__} for a specification "
                         f"jax.vmap handles: {str(exc)[:160]}", desc=desc)
            continue
        gl, gt = jax.tree_util.tree_flatten(got)
        rl, rt_ = jax.tree_util.tree_flatten(ref)
        if gt != rt_ or any(np.shape(g) != np.shape(r) for g, r in zip(gl, rl)):
            ck.violation(f"{mname}:{feature}:structure", f"{mname} output structure/shapes differ from jax.vmap",
                         got=[list(np.shape(g)) for g in gl], expected=[list(np.shape(r)) for r in rl], desc=desc)
            continue
        for g, r in zip(gl, rl):
            g, r = np.asarray(g), np.asarray(r)
            if not np.all(np.abs(g - r) <= 1e-13 * (np.max(np.abs(r), initial=0) + np.max(np.abs(g), initial=0)) + 1e-300):
                ck.violation(f"{mname}:{feature}:value", f"{mname} result differs from jax.vmap", desc=desc,
                             got=np.ravel(g)[:5].tolist(), expected=np.ravel(r)[:5].tolist())
                break
    ck.note(desc, nontrivial=bool(nondefault), klass="map_" + feature)


def case(ck, i):
    S = ck.state
    rng = ck.rng()
    slot = (i + i // 8) % 8          # rotate: every round of 8 covers all slots, every worker all slots
    if slot < 5:
        case_vector(ck, S, rng, slot)
    else:
        case_map(ck, S, rng, slot)
