"""C25 — The classic VI driver resumes after a crash with identical results.

Fault enumeration on ``nifty.cl.optimize_kl`` (see C24 / vf/fsfault): every mutating
file-system event of a small 3-iteration run with an output directory is a kill
point (before / after / after+flushed / torn); a fresh process then re-runs the same
command with ``resume=True``.  Oracle: the resumed run terminates normally
("impossible" otherwise) and returns samples and mean bit-identical to the
uninterrupted reference ("silently wrong" otherwise); additionally the persisted final
sample list must load to the same values.
"""
from vf.fsfault import crashcheck as CC

META = dict(
    id="C25", level="fault_enumeration",
    title="The classic VI driver resumes after a crash with identical results",
    technique=("file-system failpoint injection: SIGKILL at every recorded open/write/close/remove/rename "
               "event (before / after / after+flushed / torn) of the real driver, then resume and compare "
               "bit-wise"),
    rule=("reference run: 2-key model, 3 global iterations, 2 mirrored sample pairs, output directory; configs: "
          "save_strategy in {latest, all} (quick); thorough adds geoVI, plots, HDF5 export and a sample count "
          "changing 2->0->2. case = (config, event index, phase); quick: one crash point per (file class, event "
          "kind, phase) and config; thorough: every event x phase + sampled double crashes. non-trivial: crash "
          "point on a file that resume reads (samples, mean, last_finished_iteration, random state, histories); "
          "distinct = (config, event, phase)"),
    assumptions=["process kills with lost / flushed user-space buffers and torn writes are modelled; loss of "
                 "un-synced page cache after close (power failure) is not",
                 "HDF5 files are written by a C library: only create/close are kill points"],
    need=["crash_children_killed", "resume_runs", "digest_comparisons", "reference_event_lists_equal",
          "audit_crosschecks"],
    quick=dict(cases=200, workers=15, budget_s=70),
    thorough=dict(cases=4000, workers=16, budget_s=1500),
    design_ref="DESIGN.md §5 C25",
    level_text=("exhaustive (thorough tier) over the enumerated file-system event list of the given runs x crash "
                "phases; quick tier one representative per event class and save strategy"),
    level_note=("event list completeness is monitored against sys.addaudithook and (thorough) strace; small model; "
                "single process (MPI variants of save/load are C26/C22)"),
    max_skip_fraction=0.3,
)

CMP_KEYS = ["samples", "n_samples", "list_type", "mean", "persisted"]


def configs(tier):
    base = [dict(save_strategy="latest"), dict(save_strategy="all")]
    if tier == "quick":
        return base
    return base + [dict(save_strategy="latest", geovi=True), dict(save_strategy="all", geovi=True),
                   dict(save_strategy="latest", n_samples=[2, 0, 2]), dict(save_strategy="all", n_samples=[2, 0, 2]),
                   dict(save_strategy="latest", plots=True, export=True),
                   dict(save_strategy="all", plots=True, export=True)]


def cfg_tag(cfg):
    t = cfg.get("save_strategy", "latest")
    if cfg.get("n_samples"):
        t += "+nsamples-change"
    return t


def windows(e, events, resumed=False):
    """semantic position of a crash point in strategy 'latest' (iterations >= 1):
    'mean'  : after the mean file of iteration k was moved into place and before
              last_finished_iteration was advanced (state of iteration k-1 is gone, marker says k-1)
    'files' : after the first sample/mean file of iteration k was replaced or removed and before the
              marker was advanced (files of two generations are mixed)"""
    idx = e["idx"]
    commits = [x["i"] for x in events if x["kind"] == "rename" and x["path"] == "last_finished_iteration"]
    nxt = [c for c in commits if c > idx or (c == idx and e["phase"] == "before")]
    if not nxt:
        return set()
    j_commit = nxt[0]
    prev = [c for c in commits if c < j_commit]
    if not prev and not resumed:
        return set()            # first iteration: nothing committed yet, resume starts from scratch
    j_prev = prev[-1] if prev else -1      # resumed run: the directory already holds a committed iteration
    out = set()
    mut = [x["i"] for x in events if j_prev < x["i"] < j_commit and x["kind"] in ("rename", "remove")
           and x["path"].startswith("pickle/latest.")]
    if mut and (idx > mut[0] or (idx == mut[0] and e["phase"] != "before")):
        out.add("files")
    means = [x["i"] for x in events if j_prev < x["i"] < j_commit and x["kind"] == "rename"
             and x["path"].endswith("latest.mean.pickle")]
    j_mean = means[0] if means else (mut[-1] if mut else None)
    if j_mean is not None and (idx > j_mean or (idx == j_mean and e["phase"] != "before")):
        out.add("mean")
    return out


def keyfn(outcome, e, cfg, events):
    # mechanism key: outcome @ save strategy : semantic window, else class of the file the crash hit.
    # For double crashes the deciding crash is the second one; its event list comes from a recording
    # probe of the resumed run (crashcheck passes it as e["second_event"], e["second_events"]).
    e_eff, ev_eff, resumed = e, events, False
    if e.get("second_event") is not None:
        e_eff, ev_eff = e["second_event"], e["second_events"]
        # the resumed run continues from a committed iteration iff the first crash came after a commit
        commits = [x["i"] for x in events if x["kind"] == "rename" and x["path"] == "last_finished_iteration"]
        resumed = any(c < e["idx"] or (c == e["idx"] and e["phase"] != "before") for c in commits)
    if cfg.get("save_strategy", "latest") == "latest":
        # the outcome is attributable to a known window if EITHER crash lies in it
        w = windows(e_eff, ev_eff, resumed) | windows(e, events)
        if outcome == "resume-differs" and "mean" in w:
            return f"resume-differs@{cfg_tag(cfg)}:samples-and-mean-replaced-before-commit"
        if outcome.startswith("resume-raises") and "files" in w and cfg.get("n_samples"):
            return f"resume-raises@{cfg_tag(cfg)}:list-type-changes-in-place"
    tag = ":second-crash" if e.get("second_event") is not None else ""
    return f"{outcome}@{cfg_tag(cfg)}:{CC.fclass(e_eff['path'])}{tag}"


RESUME_READS = ("pickle/latest", "pickle/iteration_", "last_finished_iteration", "pickle/nifty_random_state",
                "pickle/energy_history", "pickle/minisanity_history")


def nontrivial(e, ref):
    # temporary files (".tmp.<name>") are the new generation of the file resume reads
    return e["path"].replace(".tmp.", "").startswith(RESUME_READS)


def parent_pre(pk):
    CC.parent_pre(pk, "cl", configs(pk.tier), CMP_KEYS, n_double=25, timeout=300,
                  ignore_strace=lambda p: p.endswith((".png",)))


def init(ck):
    CC.load_plan(ck)


def case(ck, i):
    CC.run_case(ck, i, "cl", CMP_KEYS, keyfn, nontrivial, timeout=300)


def parent_post(pk):
    pk.exhaustive = bool(pk.tier == "thorough" and pk.notrun == 0 and not pk.fatal
                         and not getattr(pk, "partial", False) and not pk.skips)
