"""C25 — The classic VI driver resumes after a crash with identical results.

Fault enumeration on ``nifty.cl.optimize_kl`` (see C24 / vf/fsfault): every mutating
file-system event of a small 3-iteration run with an output directory is a kill
point (before / after / after+flushed / torn); a fresh process then re-runs the same
command with ``resume=True``.  Oracle: the resumed run terminates normally
("impossible" otherwise) and returns samples and mean bit-identical to the
uninterrupted reference ("silently wrong" otherwise); additionally the persisted final
sample list must load to the same values.
"""
from vf.fsfault import crashcheck as CC

META = dict(
    id="C25", level="fault_enumeration",
    title="The classic VI driver resumes after a crash with identical results",
    technique=("file-system failpoint injection: SIGKILL at every recorded open/write/close/remove/rename "
               "event (before / after / after+flushed / torn) of the real driver, then resume and compare "
               "bit-wise"),
    rule=("reference run: 2-key model, 3 global iterations, 2 mirrored sample pairs, output directory; configs: "
          "save_strategy in {latest, all} (quick); thorough adds geoVI, plots, HDF5 export and a sample count "
          "changing 2->0->2. case = (config, event index, phase); quick: one crash point per (file class, event "
          "kind, phase) and config; thorough: every event x phase + sampled double crashes. non-trivial: crash "
          "point on a file that resume reads (samples, mean, last_finished_iteration, random state, histories); "
          "distinct = (config, event, phase)"),
    assumptions=["process kills with lost / flushed user-space buffers and torn writes are modelled; loss of "
                 "un-synced page cache after close (power failure) is not",
                 "HDF5 files are written by a C library: only create/close are kill points"],
    need=["crash_children_killed", "resume_runs", "digest_comparisons", "reference_event_lists_equal",
          "audit_crosschecks"],
    quick=dict(cases=200, workers=15, budget_s=70),
    thorough=dict(cases=4000, workers=16, budget_s=1500),
    design_ref="DESIGN.md §5 C25",
    level_text=("exhaustive (thorough tier) over the enumerated file-system event list of the given runs x crash "
                "phases; quick tier one representative per event class and save strategy"),
    level_note=("event list completeness is monitored against sys.addaudithook and (thorough) strace; small model; "
                "single process (MPI variants of save/load are C26/C22)"),
    max_skip_fraction=0.3,
)

CMP_KEYS = ["samples", "n_samples", "list_type", "mean", "persisted"]


def configs(tier):
    base = [dict(save_strategy="latest"), dict(save_strategy="all")]
    if tier == "quick":
        return base
    return base + [dict(save_strategy="latest", geovi=True), dict(save_strategy="all", geovi=True),
                   dict(save_strategy="latest", n_samples=[2, 0, 2]), dict(save_strategy="all", n_samples=[2, 0, 2]),
                   dict(save_strategy="latest", plots=True, export=True),
                   dict(save_strategy="all", plots=True, export=True)]


def cfg_tag(cfg):
    t = cfg.get("save_strategy", "latest")
    if cfg.get("n_samples"):
        t += "+nsamples-change"
    return t


def in_uncommitted_overwrite_window(e, events):
    """strategy 'latest': the crash lies after the mean file of iteration k was moved into place
    (samples and mean of iteration k-1 are gone) and before last_finished_iteration was advanced"""
    idx = e["idx"]
    commits = [x["i"] for x in events if x["kind"] == "rename" and x["path"] == "last_finished_iteration"]
    nxt = [c for c in commits if c > idx or (c == idx and e["phase"] == "before")]
    if not nxt:
        return False
    j_commit = nxt[0]
    prev = [c for c in commits if c < j_commit]
    if not prev:
        return False            # first iteration: nothing committed yet, resume starts from scratch
    j_prev = prev[-1]
    means = [x["i"] for x in events if j_prev < x["i"] < j_commit and x["kind"] == "rename"
             and x["path"].endswith(("latest.mean.pickle", "latest.0.pickle"))]
    means = [x["i"] for x in events if j_prev < x["i"] < j_commit and x["kind"] == "rename"
             and x["path"].endswith("latest.mean.pickle")] or means[-1:]
    if not means:
        return False
    j_mean = means[0]
    return idx > j_mean or (idx == j_mean and e["phase"] != "before")


def keyfn(outcome, e, cfg, events):
    # mechanism key: outcome @ save strategy : semantic window, else class of the file the crash hit
    if outcome == "resume-differs" and cfg.get("save_strategy", "latest") == "latest" \
            and in_uncommitted_overwrite_window(e, events):
        return f"resume-differs@{cfg_tag(cfg)}:samples-and-mean-replaced-before-commit"
    return f"{outcome}@{cfg_tag(cfg)}:{CC.fclass(e['path'])}"


RESUME_READS = ("pickle/latest", "pickle/iteration_", "last_finished_iteration", "pickle/nifty_random_state",
                "pickle/energy_history", "pickle/minisanity_history")


def nontrivial(e, ref):
    return e["path"].startswith(RESUME_READS)


def parent_pre(pk):
    CC.parent_pre(pk, "cl", configs(pk.tier), CMP_KEYS, n_double=25, timeout=300,
                  ignore_strace=lambda p: p.endswith((".png",)))


def init(ck):
    CC.load_plan(ck)


def case(ck, i):
    CC.run_case(ck, i, "cl", CMP_KEYS, keyfn, nontrivial, timeout=300)


def parent_post(pk):
    pk.exhaustive = bool(pk.tier == "thorough" and pk.notrun == 0 and not pk.fatal
                         and not getattr(pk, "partial", False) and not pk.skips)
