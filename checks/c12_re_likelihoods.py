"""C12 — JAX likelihoods factor their metric and equal the Fisher information.

Observed: dense real matrices (probing with all basis vectors, complex spaces as
R^{2n}) of ``metric(p,.)``, ``left_sqrt_metric(p,.)``, ``right_sqrt_metric(p,.)`` of
every likelihood class of ``nifty.re.likelihood_impl`` on array, batched and
pytree (``Vector`` of dict / tuple) data; the Jacobian (``jax.linearize``, forward mode) of its
``transformation``; ``energy`` differences; and the same quantities after
``.amend(model)`` (also chained), ``lh1 + lh2 (+ lh3)`` and ``.freeze(...)``.

Oracles (none of them uses NIFTy code):
  M = L.R,  R = L^T (real coordinates),  M = Fisher and L.L^T = Fisher with the
  closed-form Fisher information of the documented distribution in the documented
  parameters (block ``diag(s)-ss^T`` per categorical row, ``(nu+1)/((nu+3)sigma^2)`` for
  Student-t, ...), energy differences = differences of scipy log-pdfs,
  L = (dT)^T for globally transformable likelihoods, E_data[(dT)^T dT] = M by exact
  sigma-point quadrature for the documented "local approximation"
  (VariableCovarianceGaussian; NDVariableCovarianceGaussian only where it is exact),
  amend: M' = J^T M J, L' = J^T L, R' = R J with J = forward-mode Jacobian of the harness' own
  forward model; sum: M = sum_i M_i, L = [L_1 ... L_k], R = [R_1; ...; R_k];
  freeze: rows/columns of the liquid coordinates of the full matrices.
"""
import numpy as np

from vf import rehelp as H

META = dict(
    id="C12", level="exploration",
    title="JAX likelihoods factor their metric and equal the Fisher information",
    technique="dense probing of metric / sqrt-metrics of live likelihood objects vs closed-form "
              "Fisher matrices, jacfwd pull-backs and exact composition algebra",
    rule=("case = one likelihood family (Gaussian, StudentT, Poissonian, Categorical, "
          "VariableCovarianceGaussian, VariableCovarianceStudentT, NDVariableCovarianceGaussian) with "
          "generated data container (array / Vector-dict / Vector-tuple, bucketed leaf shapes), noise "
          "model, dtype, axis, parameter point, optionally wrapped in a composition "
          "(amend / chained amend / sum of 2-3 amended likelihoods on overlapping keys / freeze of a "
          "proper key subset) with generated linear or nonlinear forward models. "
          "non-trivial: batched (>1 row / >1 leaf) or pytree data, or a composed likelihood; "
          "distinct = distinct descriptor (family, variant, shapes, composition, model kinds, seedless)"),
    assumptions=[
        "noise_std_inv handed to Gaussian/StudentT is the Hermitian square root of noise_cov_inv "
        "(\"the square root\" of the docstring); a dense noise model with per-pixel dof is not generated",
        "StudentT / VariableCovarianceStudentT only with real data",
        "NDVariableCovarianceGaussian: Fisher compared on symmetric matrix tangents only (the class "
        "requires symmetric input); its 'local approximation' transformation is compared in "
        "expectation only where that is exact (d = 1, and the mean-mean block for d > 1)",
        "keyword arguments routed through likelihood_argnames are not generated",
        "Categorical tangents are probed on the logits space (the true tangent space of its "
        "left_sqrt_metric), independent of what lsm_tangents_shape declares",
    ],
    need=["cmp_M=LR", "cmp_R=Lh", "cmp_M=Fisher", "cmp_LLh=Fisher", "cmp_L=dTh", "cmp_E[dTdT]=M",
          "cmp_energy", "cmp_amend", "cmp_sum", "cmp_freeze", "categorical_batched"],
    quick=dict(cases=96, workers=8, budget_s=60),
    thorough=dict(cases=1600, workers=16, budget_s=780),
    design_ref="DESIGN.md §5 C12",
    level_text=("every identity is decided on complete dense matrices of the live objects at generated "
                "points; exploration of families x containers x noise models x compositions on small "
                "bucketed shapes, not exhaustive"),
    level_note=("closed-form Fisher matrices are textbook results re-derived in the harness and tied to "
                "the classes through scipy log-pdf energy differences; jax autodiff of the harness' own "
                "forward models is trusted; un-jitted evaluation only"),
    max_skip_fraction=0.2,
)

RTOL = 1e-9
XKEYS = (("u", (3,)), ("v", (2,)), ("w", ()))


def init(ck):
    import jax
    import jax.numpy as jnp
    import nifty.re as jft
    H.silence_nifty_logger()
    H.enable_compile_cache()
    ck.state.update(jax=jax, jnp=jnp, jft=jft)


# --------------------------------------------------------------------------- utils
class B:  # plain record
    pass


def pick(rng, seq):
    return seq[int(rng.integers(0, len(seq)))]


def gen_container(rng, single, multi):
    r = rng.random()
    if r < 0.45:
        return "arr", [pick(rng, single)]
    if r < 0.8:
        return "vdict", [pick(rng, multi), pick(rng, multi)]
    return "vtuple", [pick(rng, multi), pick(rng, multi)]


def wrap(S, kind, lv):
    jft, jnp = S["jft"], S["jnp"]
    lv = [jnp.asarray(a) for a in lv]
    if kind == "arr":
        return lv[0]
    if kind == "vdict":
        return jft.Vector({"a": lv[0], "b": lv[1]})
    return jft.Vector((lv[0], lv[1]))


def tmap(S, f, *t):
    return S["jax"].tree_util.tree_map(f, *t)


def npl(tree):
    return [np.asarray(l) for l in H.leaves(tree)]


SINGLE = [(3,), (2, 2)]
MULTI = [(2,), (3,)]
SINGLE_T = [(3,), (4,), (2, 2), (2, 3)]      # thorough tier: wider shape buckets
MULTI_T = [(2,), (3,), (2, 2)]


def buckets(S, quick, thorough):
    return thorough if S.get("thorough") else quick


# ------------------------------------------------------------------------ families
def fam_gauss(S, rng, student=False):
    jnp = S["jnp"]
    jft = S["jft"]
    kind, shapes = gen_container(rng, buckets(S, SINGLE, SINGLE_T), buckets(S, MULTI, MULTI_T))
    cplx = (not student) and rng.random() < 0.35
    noises = ["none", "cov_arr", "cov_call", "std_call", "both_arr", "both_call", "dense"]
    noise = pick(rng, noises)
    if noise == "dense" and kind != "arr":
        noise = "both_call"

    def rnd(s):
        a = rng.standard_normal(s)
        return a + 1j * rng.standard_normal(s) if cplx else a
    d_np = [rnd(s) for s in shapes]
    data = wrap(S, kind, d_np)
    w_np = [np.exp(rng.uniform(-1.0, 1.0, s)) for s in shapes]
    W = wrap(S, kind, w_np)
    Ws = wrap(S, kind, [np.sqrt(w) for w in w_np])
    nreal = sum(int(np.prod(s)) for s in shapes)
    rep = 2 if cplx else 1
    Sreal = None
    if noise == "none":
        cov = std = None
        Ninv_real = np.eye(nreal * rep)
        Sreal = np.eye(nreal * rep)
    elif noise == "dense":
        Ninv, q, w = H.rand_spd(rng, nreal, 0.4, 3.0, cplx=cplx)
        Sm = (q * np.sqrt(w)) @ q.conj().T
        Nj, Sj = jnp.asarray(Ninv), jnp.asarray(Sm)
        shp = shapes[0]
        cov = lambda x: (Nj @ x.reshape(-1)).reshape(shp)
        std = lambda x: (Sj @ x.reshape(-1)).reshape(shp)
        Ninv_real = H.cmat_to_real_blocks(Ninv) if cplx else Ninv
        Sreal = H.cmat_to_real_blocks(Sm) if cplx else Sm
    else:
        dg = np.concatenate([np.concatenate([w.ravel()] * rep) for w in w_np])
        Ninv_real = np.diag(dg)
        Sreal = np.diag(np.sqrt(dg))
        cov_c = lambda x: W * x
        std_c = lambda x: Ws * x
        cov, std = dict(cov_arr=(W, None), cov_call=(cov_c, None), std_call=(None, std_c),
                        both_arr=(W, Ws), both_call=(cov_c, std_c))[noise]
    b = B()
    b.data_tmpl = data
    if student:
        dofk = pick(rng, ["scalar", "array"]) if noise != "dense" else "scalar"
        if dofk == "scalar":
            dof_np = [np.full(s, float(np.round(rng.uniform(1.5, 8.0), 3))) for s in shapes]
            dof_np = [np.full(s, dof_np[0].flat[0]) for s in shapes]
            dof = float(dof_np[0].flat[0])
        else:
            dof_np = [np.round(rng.uniform(1.5, 8.0, s), 3) for s in shapes]
            dof = wrap(S, kind, dof_np)
        c = np.concatenate([((d + 1) / (d + 3)).ravel() for d in dof_np])
        nu = np.concatenate([d.ravel() for d in dof_np])
        b.make = lambda dat: jft.StudentT(dat, dof, cov, std)
        b.cls = "StudentT"
        b.fisher = lambda p: Sreal.T @ np.diag(c) @ Sreal

        def eref(p):
            from scipy.stats import t as tdist
            z = Sreal @ (H.tree_to_real(data) - H.tree_to_real(p))
            return -float(np.sum(tdist.logpdf(z, nu)))
        b.variant = f"{noise}/dof={dofk}"
    else:
        b.make = lambda dat: jft.Gaussian(dat, cov, std)
        b.cls = "Gaussian"
        b.fisher = lambda p: Ninv_real

        def eref(p):
            r = H.tree_to_real(data) - H.tree_to_real(p)
            return 0.5 * float(r @ Ninv_real @ r)
        b.variant = f"{noise}/{'c' if cplx else 'f'}"
    b.eref = eref
    b.lh = b.make(data)
    b.dom_tmpl = data
    b.tan_tmpl = data
    b.constrain = lambda t: t
    b.trafo = "global"
    b.fisher_E = None
    b.batched = kind != "arr" or len(shapes[0]) > 1
    b.desc = dict(fam=b.cls, kind=kind, shapes=shapes, var=b.variant)
    return b


def fam_student(S, rng):
    return fam_gauss(S, rng, student=True)


def fam_poisson(S, rng):
    jnp, jft = S["jnp"], S["jft"]
    kind, shapes = gen_container(rng, buckets(S, SINGLE, SINGLE_T), buckets(S, MULTI, MULTI_T))
    d_np = [rng.poisson(3.0, s).astype(np.int64) for s in shapes]
    data = wrap(S, kind, d_np)
    b = B()
    b.cls, b.variant = "Poissonian", ""
    b.make = lambda dat: jft.Poissonian(dat)
    b.lh = b.make(data)
    b.dom_tmpl = wrap(S, kind, [np.zeros(s) for s in shapes])
    b.tan_tmpl = b.dom_tmpl
    b.constrain = lambda t: tmap(S, lambda a: jnp.exp(0.6 * a) + 0.2, t)
    b.trafo = "global"
    b.fisher = lambda p: np.diag(1.0 / H.tree_to_real(p))
    b.fisher_E = None

    def eref(p):
        from scipy.stats import poisson
        return -float(np.sum(poisson.logpmf(H.tree_to_real(data), H.tree_to_real(p))))
    b.eref = eref
    b.batched = kind != "arr" or len(shapes[0]) > 1
    b.desc = dict(fam=b.cls, kind=kind, shapes=shapes)
    return b


CAT = [((3,), -1), ((1, 3), -1), ((2, 3), -1), ((3, 2), 0), ((3, 3), -1), ((2, 2, 3), -1)]
CAT_T = CAT + [((4,), 0), ((2, 4), 1), ((3, 3), 0), ((2, 3, 2), 1), ((4, 5), -1)]
CAT_MULTI = {-1: [(2, 3), (1, 3)], 0: [(3, 2), (3, 1)]}
CAT_MULTI_T = {-1: [(2, 3), (1, 3), (1, 2)], 0: [(3, 2), (2, 2), (3, 1)]}


def fam_categorical(S, rng):
    jnp, jft = S["jnp"], S["jft"]
    r = rng.random()
    if r < 0.6:
        kind = "arr"
        shp, axis = pick(rng, buckets(S, CAT, CAT_T))
        shapes = [shp]
    else:
        kind = "vdict" if r < 0.85 else "vtuple"
        axis = int(pick(rng, [-1, 0]))
        cm = buckets(S, CAT_MULTI, CAT_MULTI_T)
        shapes = [pick(rng, cm[axis]), pick(rng, cm[axis])]
    d_np = []
    for s in shapes:
        ds = list(s)
        k = ds[axis]
        ds[axis] = 1
        d_np.append(rng.integers(0, k, ds).astype(np.int64))
    data = wrap(S, kind, d_np)
    b = B()
    b.cls = "Categorical"
    b.make = lambda dat: jft.Categorical(dat, axis=axis)
    b.lh = b.make(data)
    b.dom_tmpl = wrap(S, kind, [np.zeros(s) for s in shapes])
    b.tan_tmpl = b.dom_tmpl
    b.constrain = lambda t: t
    b.trafo = None
    rows = sum(int(np.prod(s)) // s[axis] for s in shapes)
    b.rows = rows
    b.variant = "batched" if rows > 1 else "single"

    def fisher(p):
        from scipy.special import softmax
        blocks, n = [], 0
        pl = npl(p)
        tot = sum(a.size for a in pl)
        F = np.zeros((tot, tot))
        for a in pl:
            s = softmax(a, axis=axis)
            idx = np.arange(a.size).reshape(a.shape) + n
            k = a.shape[axis]
            sm = np.moveaxis(s, axis, -1).reshape(-1, k)
            im = np.moveaxis(idx, axis, -1).reshape(-1, k)
            for srow, irow in zip(sm, im):
                F[np.ix_(irow, irow)] = np.diag(srow) - np.outer(srow, srow)
            n += a.size
        return F
    b.fisher = fisher
    b.fisher_E = None

    def eref(p):
        from scipy.special import log_softmax
        e = 0.0
        for a, d in zip(npl(p), d_np):
            e -= float(np.sum(np.take_along_axis(log_softmax(a, axis=axis), d, axis)))
        return e
    b.eref = eref
    b.batched = rows > 1
    b.desc = dict(fam=b.cls, kind=kind, shapes=shapes, axis=axis, rows=rows)
    return b


def _ptype(S, rng):
    jft = S["jft"]
    if rng.random() < 0.5:
        return "tuple", (lambda t: tuple(t))
    return "Vector", (lambda t: jft.Vector(tuple(t)))


def fam_vcg(S, rng):
    jnp, jft = S["jnp"], S["jft"]
    kind, shapes = gen_container(rng, buckets(S, [(3,), (2, 2)], [(3,), (2, 2), (4,)]), [(2,), (3,)])
    cplx = rng.random() < 0.4
    pname, pt = _ptype(S, rng)

    def rnd(s):
        a = rng.standard_normal(s)
        return a + 1j * rng.standard_normal(s) if cplx else a
    d_np = [rnd(s) for s in shapes]
    data = wrap(S, kind, d_np)
    b = B()
    b.cls, b.variant = "VariableCovarianceGaussian", ("c" if cplx else "f")
    b.make = lambda dat: jft.VariableCovarianceGaussian(dat)
    b.lh = b.make(data)
    b.data_tmpl = data
    zr = wrap(S, kind, [np.zeros(s) for s in shapes])
    b.dom_tmpl = pt((tmap(S, jnp.zeros_like, data), zr))
    b.tan_tmpl = b.dom_tmpl
    b.constrain = lambda t: pt((t[0], tmap(S, lambda a: jnp.exp(0.5 * a), t[1])))
    b.trafo = "local"
    rep = 2 if cplx else 1
    fct = 2.0 * rep

    def split(p):
        m = H.tree_to_real(p[0])
        s = H.tree_to_real(p[1])
        srep = np.concatenate([np.concatenate([a.ravel()] * rep) for a in npl(p[1])])
        return m, s, srep

    def fisher(p):
        m, s, srep = split(p)
        return np.diag(np.concatenate([srep ** 2, fct / s ** 2]))
    b.fisher = fisher
    b.fisher_E = None

    def eref(p):
        from scipy.stats import norm
        m, s, srep = split(p)
        return -float(np.sum(norm.logpdf(H.tree_to_real(data), m, 1.0 / srep)))
    b.eref = eref

    def sigma(p):
        m, s, srep = split(p)
        N = m.size
        out = []
        for j in range(N):
            for sg in (1.0, -1.0):
                d = m.copy()
                d[j] += sg * np.sqrt(N) / srep[j]
                out.append(H.real_to_tree(d, data))
        return out
    b.sigma = sigma
    b.local_rows = None       # all rows/cols compared
    b.batched = kind != "arr" or len(shapes[0]) > 1
    b.desc = dict(fam=b.cls, kind=kind, shapes=shapes, var=b.variant, ptype=pname)
    return b


def fam_vcst(S, rng):
    jnp, jft = S["jnp"], S["jft"]
    kind, shapes = gen_container(rng, buckets(S, [(3,), (2, 2)], [(3,), (2, 2), (4,)]), [(2,), (3,)])
    pname, pt = _ptype(S, rng)
    d_np = [rng.standard_normal(s) for s in shapes]
    data = wrap(S, kind, d_np)
    dofk = pick(rng, ["scalar", "array"])
    if dofk == "scalar":
        dof = float(np.round(rng.uniform(1.5, 8.0), 3))
        dof_np = [np.full(s, dof) for s in shapes]
    else:
        dof_np = [np.round(rng.uniform(1.5, 8.0, s), 3) for s in shapes]
        dof = wrap(S, kind, dof_np)
    nu = np.concatenate([d.ravel() for d in dof_np])
    b = B()
    b.cls, b.variant = "VariableCovarianceStudentT", f"dof={dofk}"
    b.make = lambda dat: jft.VariableCovarianceStudentT(dat, dof)
    b.lh = b.make(data)
    zr = wrap(S, kind, [np.zeros(s) for s in shapes])
    b.dom_tmpl = pt((zr, zr))
    b.tan_tmpl = b.dom_tmpl
    b.constrain = lambda t: pt((t[0], tmap(S, lambda a: jnp.exp(0.5 * a), t[1])))
    b.trafo = None

    def fisher(p):
        sg = H.tree_to_real(p[1])
        return np.diag(np.concatenate([(nu + 1) / (nu + 3) / sg ** 2, 2 * nu / (nu + 3) / sg ** 2]))
    b.fisher = fisher
    b.fisher_E = None

    def eref(p):
        from scipy.stats import t as tdist
        m, sg = H.tree_to_real(p[0]), H.tree_to_real(p[1])
        return -float(np.sum(tdist.logpdf(H.tree_to_real(data), nu, loc=m, scale=sg)))
    b.eref = eref
    b.batched = kind != "arr" or len(shapes[0]) > 1
    b.desc = dict(fam=b.cls, kind=kind, shapes=shapes, var=b.variant, ptype=pname)
    return b


ND_SINGLE = [(1,), (2,), (2, 1), (2, 2)]
ND_SINGLE_T = [(1,), (2,), (3,), (2, 1), (2, 2), (2, 3)]
ND_MULTI = {1: [(1,), (2, 1)], 2: [(2,)]}
ND_MULTI_T = {1: [(1,), (2, 1)], 2: [(2,), (2, 2)]}


def fam_ndvcg(S, rng):
    jnp, jft = S["jnp"], S["jft"]
    r = rng.random()
    if r < 0.7:
        kind, shapes = "arr", [pick(rng, buckets(S, ND_SINGLE, ND_SINGLE_T))]
    else:
        kind = "vdict" if r < 0.9 else "vtuple"
        d = int(pick(rng, [1, 2]))
        nm_ = buckets(S, ND_MULTI, ND_MULTI_T)
        shapes = [pick(rng, nm_[d]), pick(rng, nm_[d])]
    d = shapes[0][-1]
    covariance = bool(rng.integers(0, 2))
    pname, pt = _ptype(S, rng)
    d_np = [rng.standard_normal(s) for s in shapes]
    data = wrap(S, kind, d_np)
    b = B()
    b.cls, b.variant = "NDVariableCovarianceGaussian", ("cov" if covariance else "prec")
    b.make = lambda dat: jft.NDVariableCovarianceGaussian(dat, covariance=covariance)
    b.lh = b.make(data)
    b.data_tmpl = data
    zm = wrap(S, kind, [np.zeros(s) for s in shapes])
    zM = wrap(S, kind, [np.zeros(s + (d,)) for s in shapes])
    b.dom_tmpl = pt((zm, zM))
    b.tan_tmpl = b.dom_tmpl
    eye = jnp.eye(d)

    def spd(g):
        g = 0.7 * g
        return jnp.einsum("...ij,...kj->...ik", g, g) + 0.5 * eye
    b.constrain = lambda t: pt((t[0], tmap(S, spd, t[1])))
    b.trafo = "local"
    nm = sum(int(np.prod(s)) for s in shapes)
    nM = nm * d
    pairs = [(i, j) for i in range(d) for j in range(i, d)]

    def mats(p):
        return [a.reshape(-1, d, d) for a in npl(p[1])]

    # embedding of (mean, symmetric-matrix coordinates) into (mean, full-matrix coordinates)
    nb = nm // d
    E = np.zeros((nm + nM, nm + nb * len(pairs)))
    E[:nm, :nm] = np.eye(nm)
    for bb in range(nb):
        for a, (i, j) in enumerate(pairs):
            col = nm + bb * len(pairs) + a
            E[nm + bb * d * d + i * d + j, col] = 1.0
            E[nm + bb * d * d + j * d + i, col] = 1.0
    b.fisher_E = E

    def fisher(p):
        A = np.concatenate(mats(p), axis=0)          # (nb, d, d)
        F = np.zeros((E.shape[1], E.shape[1]))
        for bb, a in enumerate(A):
            ai = np.linalg.inv(a)
            F[bb * d:(bb + 1) * d, bb * d:(bb + 1) * d] = ai if covariance else a
            for x, (i, j) in enumerate(pairs):
                Sa = np.zeros((d, d)); Sa[i, j] = Sa[j, i] = 1.0
                for y, (k, l) in enumerate(pairs):
                    Sb = np.zeros((d, d)); Sb[k, l] = Sb[l, k] = 1.0
                    F[nm + bb * len(pairs) + x, nm + bb * len(pairs) + y] = \
                        0.5 * np.trace(ai @ Sa @ ai @ Sb)
        return F
    b.fisher = fisher

    def eref(p):
        from scipy.stats import multivariate_normal as mvn
        m = H.tree_to_real(p[0]).reshape(-1, d)
        A = np.concatenate(mats(p), axis=0)
        dd = H.tree_to_real(data).reshape(-1, d)
        e = 0.0
        for mb, ab, db in zip(m, A, dd):
            c = ab if covariance else np.linalg.inv(ab)
            e -= float(mvn.logpdf(db, mb, c))
        return e
    b.eref = eref

    def sigma(p):
        m = H.tree_to_real(p[0])
        A = np.concatenate(mats(p), axis=0)
        N = m.size
        out = []
        for bb, ab in enumerate(A):
            c = ab if covariance else np.linalg.inv(ab)
            w, q = np.linalg.eigh(c)
            rt = (q * np.sqrt(w)) @ q.T
            for j in range(d):
                for sg in (1.0, -1.0):
                    dv = m.copy()
                    dv[bb * d:(bb + 1) * d] += sg * np.sqrt(N) * rt[:, j]
                    out.append(H.real_to_tree(dv, data))
        return out
    b.sigma = sigma
    # in expectation the local transformation reproduces the metric exactly only for d == 1;
    # for d > 1 only the mean-mean block is exact
    b.local_rows = None if d == 1 else np.arange(nm)
    b.batched = kind != "arr" or len(shapes[0]) > 1
    b.desc = dict(fam=b.cls, kind=kind, shapes=shapes, var=b.variant, ptype=pname)
    return b


FAMILIES = [("gauss", fam_gauss), ("student", fam_student), ("poisson", fam_poisson),
            ("categorical", fam_categorical), ("categorical", fam_categorical),
            ("vcg", fam_vcg), ("vcst", fam_vcst), ("ndvcg", fam_ndvcg)]


# -------------------------------------------------------------------- comparisons
def cmp(ck, mon, a, b, key, what, rtol=RTOL, **wit):
    ck.hit(mon)
    if not H.close(a, b, rtol):
        a_, b_ = np.asarray(a), np.asarray(b)
        ck.violation(key, what, max_dev=H.dev(a_, b_), scale=max(H.maxabs(a_), H.maxabs(b_)), **wit)
        return False
    return True


def probe(lh, p, dom_tmpl, tan_tmpl):
    M = H.dense_map(lambda t: lh.metric(p, t), dom_tmpl)
    L = H.dense_map(lambda t: lh.left_sqrt_metric(p, t), tan_tmpl)
    R = H.dense_map(lambda t: lh.right_sqrt_metric(p, t), dom_tmpl)
    return M, L, R


def rand_free(S, rng, tmpl, scale=0.8):
    n = H.tree_real_size(tmpl)
    return H.real_to_tree(scale * rng.standard_normal(n), tmpl)


def check_base(ck, S, rng, b, p, mats, full=True):
    """all single-likelihood identities at the point p"""
    M, L, R = mats
    cls = b.cls
    kv = f"{cls}:batched" if (cls == "Categorical" and b.batched) else cls
    if cls == "Categorical" and b.batched:
        ck.hit("categorical_batched")
    ck.hit("fam_" + cls)
    wit = dict(desc=b.desc)
    ok_R = cmp(ck, "cmp_R=Lh", R, L.T, f"R=Lh:{cls}",
               f"right_sqrt_metric of {cls} is not the adjoint of left_sqrt_metric "
               f"(dense R {R.shape} vs L^T {L.T.shape})", **wit)
    if ok_R:
        cmp(ck, "cmp_M=LR", M, L @ R, f"M=LR:{kv}",
            f"metric of {cls} differs from left_sqrt_metric after right_sqrt_metric", **wit)
    else:
        ck.hit("cmp_M=LR_skipped_R_bad")
    F = b.fisher(p)
    E = b.fisher_E
    if E is None:
        Me, LLe = M, L @ L.T
    else:
        Me, LLe = E.T @ M @ E, E.T @ (L @ L.T) @ E
        cmp(ck, "cmp_LLh=M_full", L @ L.T, M, f"LLh=M:{kv}",
            f"L.L^H of {cls} differs from its metric on the full tangent space", **wit)
    cmp(ck, "cmp_M=Fisher", Me, F, f"M=Fisher:{kv}",
        f"metric of {cls} is not the Fisher information of the documented distribution", **wit)
    cmp(ck, "cmp_LLh=Fisher", LLe, F, f"LLh=Fisher:{kv}",
        f"left_sqrt_metric of {cls} is not a square root of the Fisher information "
        f"(L.L^H != Fisher)", **wit)
    # energy differences against scipy log-pdfs
    p2 = b.constrain(rand_free(S, rng, b.dom_tmpl))
    e1, e2 = float(b.lh.energy(p)), float(b.lh.energy(p2))
    r1, r2 = b.eref(p), b.eref(p2)
    ck.hit("cmp_energy")
    if abs((e1 - e2) - (r1 - r2)) > 1e-9 * (abs(e1) + abs(e2) + abs(r1) + abs(r2)) + 1e-12:
        ck.violation(f"energy:{cls}", f"energy differences of {cls} are not -log pdf differences of the "
                     "documented distribution", nifty=e1 - e2, ref=r1 - r2, **wit)
    # pull-back of the transformation
    if b.trafo == "global":
        J = H.jac_real(b.lh.transformation, p)
        cmp(ck, "cmp_L=dTh", L, J.T, f"L=dTh:{cls}",
            f"left_sqrt_metric of {cls} is not the pull-back (Jacobian adjoint) of transformation",
            **wit)
        cmp(ck, "cmp_dThdT=M", J.T @ J, M, f"dThdT=M:{cls}",
            f"transformation of {cls} does not pull the Euclidean metric back to metric", **wit)
    elif b.trafo == "local":
        pts = b.sigma(p) if full else []
        if 0 < len(pts) <= (24 if S.get("thorough") else 16):
            acc = 0.0
            for dat in pts:
                J = H.jac_real(b.make(dat).transformation, p)
                acc = acc + J.T @ J
            acc = acc / len(pts)
            A, Bm = acc, M
            if b.local_rows is not None:
                ix = np.ix_(b.local_rows, b.local_rows)
                A, Bm = acc[ix], M[ix]
            cmp(ck, "cmp_E[dTdT]=M", A, Bm, f"E[dThdT]=M:{cls}:{b.variant}",
                f"data average of the pulled-back Euclidean metric of the local transformation of "
                f"{cls} differs from its metric", **wit)
    else:
        try:
            b.lh.transformation(p)
            ck.violation(f"transformation-exists:{cls}", "harness assumes no transformation", **wit)
        except NotImplementedError:
            ck.hit("no_transformation")


class Skip_(Exception):
    pass


# ---------------------------------------------------------------- forward models
def x_point(S, rng):
    jnp, jft = S["jnp"], S["jft"]
    return jft.Vector({k: jnp.asarray(rng.standard_normal(s)) for k, s in XKEYS})


def make_forward(S, rng, b, keys, in_tmpl=None):
    """harness-owned forward model  x (Vector of dict) -> valid point of b's domain"""
    jnp = S["jnp"]
    sizes = dict(XKEYS) if in_tmpl is None else {k: np.shape(v) for k, v in in_tmpl.items()}
    allk = sorted(sizes)
    nf = sum(int(np.prod(sizes[k], dtype=int)) for k in allk)
    mask = np.concatenate([np.full(int(np.prod(sizes[k], dtype=int)), float(k in keys)) for k in allk])
    nout = H.tree_real_size(b.dom_tmpl)
    nz = 16 if nout <= 16 else 32       # fixed inner width: eager kernels are shared between cases
    kind = pick(rng, ["lin", "tanh", "quad", "sin"])
    W = jnp.asarray(0.6 * rng.standard_normal((nz, nf)) * mask)
    W1 = jnp.asarray(0.8 * rng.standard_normal((nf, nf)) * mask)
    bb = jnp.asarray(0.4 * rng.standard_normal(nz))
    msk = jnp.asarray(mask)

    def f(x):
        feat = jnp.concatenate([jnp.ravel(x[k]) for k in allk]) * msk
        if kind == "lin":
            z = W @ feat + bb
        elif kind == "tanh":
            z = W @ jnp.tanh(W1 @ feat) + bb
        elif kind == "quad":
            z = W @ (feat * jnp.roll(feat, 1)) + 0.3 * (W @ feat) + bb
        else:
            z = jnp.sin(W @ feat) + bb
        return b.constrain(H.unflat_jax(z[:nout], b.dom_tmpl))
    return f, dict(model=kind, keys=list(keys))


def key_subset(rng, must=None):
    names = [k for k, _ in XKEYS]
    while True:
        sel = [k for k in names if rng.random() < 0.6]
        if must is not None and must not in sel:
            sel.append(must)
        if sel:
            return tuple(sorted(sel))


def tan_container(S, lh, tmpl_dict):
    """tangent template of a LikelihoodSum with the container type the sum declares"""
    jft = S["jft"]
    if isinstance(lh.lsm_tangents_shape, jft.Vector):
        return jft.Vector(tmpl_dict)
    return tmpl_dict


def amended(S, rng, ck, b, keys, chained=False, full=True):
    """build lh.amend(f) and check the amend identities; returns record for sums/freezes"""
    jnp, jft = S["jnp"], S["jft"]
    x0 = S["x0"]
    if not chained:
        f, fd = make_forward(S, rng, b, keys)
        A = b.lh.amend(f)
    else:
        nmid = 4
        allk = sorted(k for k, _ in XKEYS)
        mask = np.concatenate([np.full(int(np.prod(dict(XKEYS)[k], dtype=int)), float(k in keys))
                               for k in allk])
        Wm = jnp.asarray(0.7 * rng.standard_normal((nmid, mask.size)) * mask)

        def h(x):
            feat = jnp.concatenate([jnp.ravel(x[k]) for k in allk])
            return jft.Vector({"m": jnp.tanh(Wm @ feat)})
        g, fd = make_forward(S, rng, b, ("m",), in_tmpl={"m": np.zeros(nmid)})
        A = b.lh.amend(g).amend(h)
        f = lambda x: g(h(x))
        fd = dict(fd, chained=True, keys=list(keys))
    if not full:       # extra summand of a sum: only its observed matrices are needed
        r = B()
        r.lh, r.b, r.fd = A, b, fd
        r.M, r.L, r.R = probe(A, x0, x0, b.tan_tmpl)
        return r
    y0 = f(x0)
    J = H.jac_real(f, x0)
    mats_in = probe(b.lh, y0, b.dom_tmpl, b.tan_tmpl)
    check_base(ck, S, rng, b, y0, mats_in, full=full)
    Mi, Li, Ri = mats_in
    MA, LA, RA = probe(A, x0, x0, b.tan_tmpl)
    w = dict(desc=b.desc, model=fd)
    tag = "amend2" if chained else "amend"
    cmp(ck, "cmp_amend", MA, J.T @ Mi @ J, f"{tag}:M=JhMJ",
        "metric of an amended likelihood is not J^H M J", **w)
    cmp(ck, "cmp_amend", LA, J.T @ Li, f"{tag}:L=JhL",
        "left_sqrt_metric of an amended likelihood is not J^H L", **w)
    cmp(ck, "cmp_amend", RA, Ri @ J, f"{tag}:R=RJ",
        "right_sqrt_metric of an amended likelihood is not R J", **w)
    ck.hit("cmp_amend")
    eA, ei = float(A.energy(x0)), float(b.lh.energy(y0))
    if abs(eA - ei) > 1e-12 * (abs(eA) + abs(ei)) + 1e-300:
        ck.violation(f"{tag}:energy", "energy of an amended likelihood differs from energy(f(x))",
                     amended=eA, inner=ei, **w)
    if b.trafo is not None:
        cmp(ck, "cmp_amend", H.tree_to_real(A.transformation(x0)),
            H.tree_to_real(b.lh.transformation(y0)), f"{tag}:transformation",
            "transformation of an amended likelihood differs from transformation(f(x))",
            rtol=1e-12, **w)
    r = B()
    r.lh, r.M, r.L, r.R, r.b, r.fd = A, MA, LA, RA, b, fd
    return r


def check_freeze(ck, S, rng, lh, mats, tan_tmpl, what):
    """freeze a proper non-empty key subset of the Vector-of-dict point x0"""
    x0 = S["x0"]
    names = [k for k, _ in XKEYS]
    nfz = int(rng.integers(1, len(names)))
    frozen = tuple(sorted(rng.choice(names, nfz, replace=False).tolist()))
    lp, pl = lh.freeze(primals=x0, point_estimates=frozen)
    # liquid coordinates in the flattening order of x0 (dict keys sorted)
    idx, o = [], 0
    for k in sorted(names):
        n = int(np.prod(dict(XKEYS)[k], dtype=int))
        if k not in frozen:
            idx += list(range(o, o + n))
        o += n
    idx = np.array(idx, dtype=int)
    M, L, R = mats
    Mp, Lp, Rp = probe(lp, pl, pl, tan_tmpl)
    w = dict(frozen=list(frozen), of=what)
    cmp(ck, "cmp_freeze", Mp, M[np.ix_(idx, idx)], "freeze:M",
        "metric of a frozen likelihood is not the liquid block of the full metric", **w)
    cmp(ck, "cmp_freeze", Lp, L[idx, :], "freeze:L",
        "left_sqrt_metric of a frozen likelihood is not the liquid rows of the full one", **w)
    cmp(ck, "cmp_freeze", Rp, R[:, idx], "freeze:R",
        "right_sqrt_metric of a frozen likelihood is not the liquid columns of the full one", **w)
    ck.hit("cmp_freeze")
    e1, e2 = float(lp.energy(pl)), float(lh.energy(x0))
    if abs(e1 - e2) > 1e-12 * (abs(e1) + abs(e2)) + 1e-300:
        ck.violation("freeze:energy", "energy of a frozen likelihood differs from the full energy",
                     frozen_e=e1, full=e2, **w)
    try:
        t_full = lh.transformation(x0)
    except NotImplementedError:
        t_full = None
    if t_full is not None:
        cmp(ck, "cmp_freeze", H.tree_to_real(lp.transformation(pl)), H.tree_to_real(t_full),
            "freeze:transformation", "transformation of a frozen likelihood differs", rtol=1e-12, **w)
    return list(frozen)


# --------------------------------------------------------------------------- case
COMPS = ["none", "amend", "sum", "freeze_amend", "none", "amend2", "freeze_sum", "none", "amend", "sum"]


def case(ck, i):
    S = ck.state
    rng = ck.rng()
    # composition cycles with the per-family case counter so that every worker reaches every
    # composition kind within its first few cases even when the machine is heavily loaded
    rnd = i // len(FAMILIES)
    comp = COMPS[rnd % len(COMPS)]
    # family rotates with the round number: each round of 8 consecutive indices covers all families
    # with the same composition kind, and every worker process cycles through all families
    fname, fam = FAMILIES[(i + rnd) % len(FAMILIES)]
    S["thorough"] = ck.thorough()
    S["x0"] = x_point(S, rng)
    try:
        desc = _run(ck, S, rng, comp, fam)
    except Skip_ as e:
        ck.skip(str(e))
        return


def _run(ck, S, rng, comp, fam):
    b = fam(S, rng)
    desc = dict(comp=comp, base=b.desc)
    if comp == "none":
        p = b.constrain(rand_free(S, rng, b.dom_tmpl))
        check_base(ck, S, rng, b, p, probe(b.lh, p, b.dom_tmpl, b.tan_tmpl))
        nt = bool(b.batched)
    elif comp in ("amend", "amend2", "freeze_amend"):
        r = amended(S, rng, ck, b, key_subset(rng), chained=(comp == "amend2"))
        desc["model"] = r.fd
        if comp == "freeze_amend":
            desc["frozen"] = check_freeze(ck, S, rng, r.lh, (r.M, r.L, r.R), b.tan_tmpl, "amend")
        nt = True
    else:
        nsum = 2 if rng.random() < 0.7 else 3
        recs = [amended(S, rng, ck, b, key_subset(rng, must="u"))]
        for _ in range(nsum - 1):
            fam2 = fam if rng.random() < 0.6 else pick(rng, [fam_gauss, fam_poisson])
            b2 = fam2(S, rng)
            recs.append(amended(S, rng, ck, b2, key_subset(rng, must="u"), full=False))
        lh = recs[0].lh + recs[1].lh
        if nsum == 3:
            lh = lh + recs[2].lh if rng.random() < 0.5 else S["jft"].likelihood.LikelihoodSum(
                recs[0].lh, recs[1].lh, recs[2].lh)
        tmpl = tan_container(S, lh, {f"lh_{k}": r.b.tan_tmpl for k, r in enumerate(recs)})
        x0 = S["x0"]
        Ms, Ls, Rs = probe(lh, x0, x0, tmpl)
        w = dict(summands=[r.b.desc for r in recs])
        cmp(ck, "cmp_sum", Ms, sum(r.M for r in recs), "sum:M=sumMi",
            "metric of a likelihood sum is not the sum of the summands' metrics", **w)
        # tangent coordinates: dict keys lh_0, lh_1, ... in sorted (= index) order
        cmp(ck, "cmp_sum", Ls, np.concatenate([r.L for r in recs], axis=1), "sum:L=[Li]",
            "left_sqrt_metric of a likelihood sum is not the row of the summands' left square roots",
            **w)
        cmp(ck, "cmp_sum", Rs, np.concatenate([r.R for r in recs], axis=0), "sum:R=[Ri]",
            "right_sqrt_metric of a likelihood sum is not the stack of the summands' right square "
            "roots", **w)
        ck.hit("cmp_sum")
        es, ei = float(lh.energy(x0)), sum(float(r.lh.energy(x0)) for r in recs)
        if abs(es - ei) > 1e-12 * (abs(es) + abs(ei)) + 1e-300:
            ck.violation("sum:energy", "energy of a likelihood sum is not the sum of energies",
                         sum_e=es, parts=ei, **w)
        desc["summands"] = [dict(base=r.b.desc, model=r.fd) for r in recs[1:]]
        desc["model"] = recs[0].fd
        if comp == "freeze_sum":
            desc["frozen"] = check_freeze(ck, S, rng, lh, (Ms, Ls, Rs), tmpl, "sum")
        nt = True
    ck.note(desc, nontrivial=nt, klass=f"{b.cls}/{comp}")
    return desc
