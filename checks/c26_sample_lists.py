"""C26 — Sample lists persist faithfully and report exact statistics.

Histories of save / overwrite / load operations on one file base are executed
against the real SampleList / ResidualSampleList classes (single process in the
worker, or on 1-4 simulated MPI tasks through vf/simcomm/proc.py, task counts
chosen independently per operation) and checked against a small reference
model of the directory ("the most recently saved list").  Statistics
(average, sample_stat, StatCalculator, exported HDF5 datasets read back with
h5py) are compared with extended-precision references.
"""
import math
import os
import shutil
import tempfile

import numpy as np

META = dict(
    id="C26", level="exploration",
    title="Sample lists persist faithfully and report exact statistics",
    technique=("history monitor against an executable reference model of the save directory; statistics "
               "oracle in extended precision; HDF5 read-back"),
    rule=("family A (in-process, comm=None): histories of 3-10 operations over one base "
          "{save plain/residual list of n=1..6 (every fifth list 9..13: two-digit sample indices) Field or MultiField samples with overwrite True/False, load as "
          "either class}; family B: the same with every operation executed on an independently chosen number "
          "(1-4, or none) of simulated MPI tasks, one process per rank; family C: StatCalculator / sample_stat / "
          "average / save_to_hdf5 on generated value sequences (constant, huge offset + tiny spread, complex, "
          "length 1-50). non-trivial: a shorter save after a longer one followed by a load, or different task "
          "counts between a save and a later load, or offset/complex statistics; distinct = history descriptor"),
    assumptions=["lists with zero samples are not generated (degenerate: nothing to load)",
                 "simulated communicator instead of a real MPI library (cannot be loaded here)"],
    need=["loads_checked", "saves_done", "stat_comparisons", "hdf5_datasets_checked", "mpi_ops"],
    quick=dict(cases=420, workers=14, budget_s=75),
    thorough=dict(cases=8000, workers=16, budget_s=900),
    design_ref="DESIGN.md §5 C26",
    level_text="generated histories against a reference model; exploration, not exhaustive",
    level_note="pickle/h5py are trusted; files are small; task counts <= 4",
)


def init(ck):
    from vf.simcomm import proc
    proc.install_mpi_stub()
    import nifty.cl as ift
    ck.state["ift"] = ift


# ---------------------------------------------------------------- histories ---
def gen_history(rng, length):
    multi = bool(rng.integers(0, 2))
    ops = []
    for j in range(length):
        r = rng.integers(0, 10)
        if r < 5 or j == 0:
            kind = ("save_plain", "save_residual")[int(rng.integers(0, 2))]
            # mostly short lists; every fifth one has two-digit sample indices (9-13 samples)
            nn = int(rng.integers(1, 7)) if rng.integers(0, 5) else int(rng.integers(9, 14))
            ops.append(dict(kind=kind, n=nn, multi=multi,
                            overwrite=bool(rng.integers(0, 4) > 0), vseed=int(rng.integers(0, 2 ** 31)),
                            scale=float(10.0 ** rng.integers(-3, 4)),
                            offset=float(rng.choice([0.0, 0.0, 1e6, -3e8]))))
        else:
            ops.append(dict(kind=("load_plain", "load_residual")[int(rng.integers(0, 2))]))
    return ops


def gen_mpi_history(rng):
    """family B: half of the histories follow the 'shrink / failed save' templates that need several
    tasks to go wrong (longer list, then a shorter list of either class saved with overwrite on >=2
    tasks, load; then a save without overwrite that must fail as a whole, load again)"""
    if rng.integers(0, 2):
        return gen_history(rng, int(rng.integers(3, 6))), None
    multi = bool(rng.integers(0, 2))

    def sv(kind, n, ow):
        return dict(kind=kind, n=n, multi=multi, overwrite=ow, vseed=int(rng.integers(0, 2 ** 31)),
                    scale=1.0, offset=0.0)
    k1 = ("save_plain", "save_residual")[int(rng.integers(0, 2))]
    k2 = k1 if rng.integers(0, 3) else ("save_plain", "save_residual")[int(rng.integers(0, 2))]
    n1 = int(rng.integers(3, 7)) if rng.integers(0, 4) else int(rng.integers(10, 14))
    n2 = int(rng.integers(1, n1))
    ld = lambda k: dict(kind="load_plain" if k == "save_plain" else "load_residual")  # noqa
    ops = [sv(k1, n1, True), sv(k2, n2, True), ld(k2),
           sv(k2, int(rng.integers(n2 + 1, max(8, n2 + 3))), False), ld(k2)]
    sizes = [int(rng.integers(0, 5)), int(rng.integers(2, 5)), int(rng.integers(0, 5)),
             int(rng.integers(2, 5)), int(rng.integers(0, 5))]
    return ops, sizes


def expected_samples(ift, op):
    from vf.simcomm.workloads import make_samples, fb
    mean, items, neg = make_samples(ift, op)
    if op["kind"] == "save_plain":
        return [fb(s) for s in items], None, items
    smp = [mean.flexible_addsub(r, n) for r, n in zip(items, neg)]
    return [fb(s) for s in smp], fb(mean), smp


def raw_of(ift, f):
    if isinstance(f, ift.MultiField):
        return np.concatenate([np.asarray(f[k].asnumpy()).reshape(-1) for k in sorted(f.keys())])
    return np.asarray(f.asnumpy()).reshape(-1)


def ref_stats(vals):
    """mean and unbiased variance (|x-mean|^2) in extended precision; vals: list of 1-D arrays"""
    A = np.array(vals)
    n = A.shape[0]
    cplx = np.iscomplexobj(A)
    L = A.astype(np.clongdouble if cplx else np.longdouble)
    m = L.sum(axis=0) / n
    if n > 1:
        v = (np.abs(L - m) ** 2).sum(axis=0) / (n - 1)
    else:
        v = np.zeros(A.shape[1], dtype=np.longdouble)
    return m, v


def stats_ok(got_m, got_v, vals, what, ck, key_prefix):
    m, v = ref_stats(vals)
    A = np.array(vals)
    scale = float(np.max(np.abs(A))) + 1e-300
    spread = float(np.max(np.abs(A - np.asarray(m, dtype=A.dtype)))) + 1e-300
    ck.hit("stat_comparisons", 2)
    em = float(np.max(np.abs(np.asarray(got_m).astype(m.dtype) - m)))
    if em > 1e-13 * scale * max(1, len(vals)):
        ck.violation(f"{key_prefix}:mean", f"{what}: mean deviates by {em:.3g} (scale {scale:.3g})",
                     n=len(vals))
    if got_v is not None and len(vals) > 1:
        gv = np.asarray(got_v)
        if np.iscomplexobj(gv) and float(np.max(np.abs(gv.imag))) > 1e-9 * float(np.max(np.abs(v)) + 1e-300):
            ck.violation(f"{key_prefix}:var-complex",
                         f"{what}: variance of complex samples is not the real E|x-mean|^2 "
                         f"(got complex values, max imag {float(np.max(np.abs(gv.imag))):.3g})", n=len(vals))
            return
        ev = float(np.max(np.abs(gv.real.astype(np.longdouble) - v)))
        vmax = float(np.max(v)) + 1e-300
        ratio = min(scale / spread, 1e30)
        tol = vmax * (1e-9 + 1e-13 * ratio ** 2 * len(vals)) + 1e-300
        if ev > tol:
            ck.violation(f"{key_prefix}:var", f"{what}: variance deviates by {ev:.3g} (max var {vmax:.3g}, "
                         f"tol {tol:.3g})", n=len(vals))


def run_history(ck, ift, ops, base, mpi, rng, wd, sizes=None):
    """executes the history; judges each op against the reference model"""
    from vf.simcomm import workloads as W
    from vf.simcomm import proc
    state = None          # dict(kind, digests, mean, n, vals)
    hist = []
    prev_sizes = []
    longest = 0
    shrink_then_load = False
    size_change = False
    pending_shrink = False
    last_save_size = None
    for j, op in enumerate(ops):
        size = 0
        if mpi:
            size = int(rng.integers(0, 5)) if sizes is None else sizes[j]
        params = dict(op=op, base=base)
        if mpi:
            w = proc.run_world(size, "sl_op", params, os.path.join(wd, f"op{j}"), timeout=300)
            ck.hit("mpi_ops")
            if w["timed_out"]:
                from vf.runner import Skip
                raise Skip("world timed out")
            ro = w["router"]
            outs = []
            for r in w["results"]:
                if r is None or not r["ok"]:
                    outs.append(dict(ok=False, error=(r or {}).get("error", "rank died")))
                else:
                    outs.append(r["result"])
            if ro and (ro["deadlock"] or ro["problems"]):
                # a rank that raised inside the operation leaves the others blocked in a
                # collective: that is a *failed* operation (judged below), not a deadlock of
                # its own. A deadlock without any rank error is a violation.
                genuine = [o.get("error") for o in outs if not o["ok"]
                           and "deadlock detected" not in str(o.get("error"))]
                if not genuine:
                    ck.violation("samplelist-mpi-deadlock-or-protocol",
                                 f"op {op['kind']} on {size} tasks: deadlock={ro['deadlock']} "
                                 f"problems={ro['problems']}", history=hist + [op])
                    return hist
                outs = [dict(ok=False, error=genuine[0]) for _ in outs]
        else:
            outs = [W.sl_op(None, params, 0)]
        oks = [o["ok"] for o in outs]
        hist.append(dict(op, size=size, ok=oks))
        if op["kind"].startswith("save"):
            exists = state is not None
            must_fail = exists and not op["overwrite"]
            if must_fail:
                if any(oks):
                    ck.violation("save-without-overwrite-succeeded",
                                 "saving over an existing list with overwrite=False did not raise on every task",
                                 history=hist)
                    return hist
                continue            # state unchanged
            if not all(oks):
                ck.violation(f"save-raises:{op['kind']}",
                             f"a valid save failed: {[o.get('error') for o in outs if not o['ok']][:2]}",
                             history=hist)
                return hist
            ck.hit("saves_done")
            dig, mean, smp = expected_samples(ift, op)
            if state is not None and op["n"] < state["n"]:
                pending_shrink = True
            state = dict(kind="plain" if op["kind"] == "save_plain" else "residual", dig=dig, mean=mean,
                         n=op["n"], vals=[raw_of(ift, s) for s in smp])
            last_save_size = size
        else:
            want_kind = "plain" if op["kind"] == "load_plain" else "residual"
            if state is None:
                if any(oks):
                    ck.violation("load-of-nothing-succeeded", "load succeeded although nothing was saved",
                                 history=hist)
                continue
            if state["kind"] != want_kind:
                # class mismatch: must fail, or return the latest save
                for o in outs:
                    if o["ok"] and o.get("loaded") != state["dig"]:
                        ck.violation(f"class-mismatch-load-returns-garbage:{op['kind']}",
                                     f"loading a {state['kind']} list as {want_kind} returned {o.get('n')} samples "
                                     "that are not the latest save", history=hist)
                        return hist
                ck.hit("mismatch_loads_checked")
                continue
            if not all(oks):
                ck.violation(f"load-raises:{op['kind']}",
                             f"loading the latest save failed: {[o.get('error') for o in outs if not o['ok']][:2]}",
                             history=hist)
                return hist
            ck.hit("loads_checked")
            if pending_shrink:
                shrink_then_load = True
            if last_save_size is not None and size != last_save_size:
                size_change = True
            for rk, o in enumerate(outs):
                if o["n"] != state["n"] or o["loaded"] != state["dig"]:
                    stale = o["n"] > state["n"]
                    ck.violation("load-returns-stale-or-wrong-samples" if stale else "load-differs-from-save",
                                 f"load returned {o['n']} samples, expected {state['n']}; equal prefix: "
                                 f"{o['loaded'][:state['n']] == state['dig']}", history=hist, rank=rk)
                    return hist
                if want_kind == "residual" and o.get("mean") != state["mean"]:
                    ck.violation("load-mean-differs", "loaded mean is not the saved one", history=hist)
                    return hist
                # statistics of the loaded list
                gm = _flat(o["stat_mean_raw"])
                gv = _flat(o["stat_var_raw"])
                stats_ok(gm, gv if state["n"] > 1 else None, state["vals"], "sample_stat of loaded list", ck,
                         "sample_stat")
    return hist, shrink_then_load, size_change


def _flat(x):
    if isinstance(x, dict):
        return np.concatenate([np.asarray(x[k]).reshape(-1) for k in sorted(x)])
    return np.asarray(x).reshape(-1)


# ---------------------------------------------------------------- statistics ---
def stat_case(ck, ift, rng, wd):
    n = int(rng.integers(1, 51))
    kind = ("plain", "offset", "complex", "constant", "multi")[int(rng.integers(0, 5))]
    dom = ift.DomainTuple.make((ift.RGSpace(2), ift.UnstructuredDomain(2)))
    vals = []
    for _ in range(n):
        a = rng.standard_normal(dom.shape)
        if kind == "offset":
            a = 1e8 + 1e-3 * a
        elif kind == "complex":
            a = a + 1j * rng.standard_normal(dom.shape) * 3 + (2 - 1j)
        elif kind == "constant":
            a = np.full(dom.shape, 4.25)
        vals.append(a)
    if kind == "multi":
        md = ift.MultiDomain.make({"u": dom, "v": ift.DomainTuple.make(ift.UnstructuredDomain(3))})
        flds = [ift.MultiField.from_dict({"u": ift.makeField(dom, a),
                                          "v": ift.makeField(md["v"], rng.standard_normal(3))}) for a in vals]
    else:
        flds = [ift.makeField(dom, a) for a in vals]
    raws = [raw_of(ift, f) for f in flds]
    ck.note(dict(family="stats", kind=kind, n=n), nontrivial=(kind in ("offset", "complex") and n >= 2),
            klass="stats:" + kind)
    # StatCalculator
    sc = ift.StatCalculator()
    for f in flds:
        sc.add(f)
    m = raw_of(ift, sc.mean)
    v = raw_of(ift, sc.var) if n > 1 else None
    stats_ok(m, v, raws, "StatCalculator", ck, "StatCalculator")
    # SampleList.average / sample_stat, with an operator applied on the fly
    sl = ift.SampleList(flds)
    stats_ok(raw_of(ift, sl.average()), None, raws, "SampleList.average", ck, "average")
    m2, v2 = sl.sample_stat()
    stats_ok(raw_of(ift, m2), raw_of(ift, v2) if n > 1 else None, raws, "SampleList.sample_stat", ck,
             "sample_stat")
    if kind not in ("multi",):
        op = ift.ScalingOperator(dom, 3.0)
        m3, v3 = sl.sample_stat(op)
        stats_ok(raw_of(ift, m3), raw_of(ift, v3) if n > 1 else None, [3.0 * r for r in raws],
                 "sample_stat(op)", ck, "sample_stat")
    # HDF5 export and read-back
    if kind != "complex" or True:
        import h5py
        fn = os.path.join(wd, "exp.hdf5")
        sl.save_to_hdf5(fn, samples=True, mean=True, std=(n > 1), overwrite=True)
        with h5py.File(fn, "r") as hf:
            def rd(g):
                if isinstance(g, h5py.Dataset):
                    return np.asarray(g[()]).reshape(-1)
                return np.concatenate([rd(g[k]) for k in sorted(g.keys())])
            nsm = len(hf["samples"].keys())
            if nsm != n:
                ck.violation("hdf5:sample-count", f"HDF5 file has {nsm} samples, list has {n}")
            for j in range(min(n, nsm)):
                ck.hit("hdf5_datasets_checked")
                if not np.array_equal(rd(hf["samples"][str(j)]), raws[j]):
                    ck.violation("hdf5:sample-values", f"HDF5 samples/{j} differs from sample {j}")
                    break
            hm = rd(hf["stats"]["mean"])
            ck.hit("hdf5_datasets_checked")
            hv = None
            if n > 1:
                sd = rd(hf["stats"]["standard deviation"])
                ck.hit("hdf5_datasets_checked")
                hv = sd * np.conj(sd) if np.iscomplexobj(sd) else sd ** 2
            stats_ok(hm, hv, raws, "HDF5 stats", ck, "hdf5-stats")


def case(ck, i):
    ift = ck.state["ift"]
    rng = ck.rng()
    wd = tempfile.mkdtemp(prefix="c26_", dir=os.environ.get("VERIF_WORKDIR", "/tmp"))
    try:
        fam = i % 14
        if fam == 0:          # family B: multi-process history (expensive)
            ops, sizes = gen_mpi_history(rng)
            ck.note(dict(family="mpi", ops=ops), klass="mpi")
            r = run_history(ck, ift, ops, os.path.join(wd, "base"), True, rng, wd, sizes)
            if isinstance(r, tuple):
                hist, shr, szc = r
                ck.note(dict(family="mpi", history=hist), nontrivial=(shr or szc), klass="mpi")
        elif fam in (1, 2, 3):
            stat_case(ck, ift, rng, wd)
        else:
            ops = gen_history(rng, int(rng.integers(3, 11)))
            ck.note(dict(family="single", ops=ops), klass="single")
            r = run_history(ck, ift, ops, os.path.join(wd, "base"), False, rng, wd)
            if isinstance(r, tuple):
                hist, shr, szc = r
                ck.note(dict(family="single", history=hist), nontrivial=shr, klass="single")
    finally:
        shutil.rmtree(wd, ignore_errors=True)
