"""C02 — Every library linear operator is adjoint/inverse consistent and correct.

A registry (vf/linops_reg.py) holds one constructor generator per exported
linear operator class / operator-returning function of nifty.cl.  Each case
draws one class (round-robin over the registry) and a random admissible
configuration, constructs the real operator and observes, through a monitor
on every `apply` call:

 (a) adjointness:  real matrix of ADJOINT_TIMES == transpose of the real matrix of TIMES
 (b) advertised inverses: M_inv M = 1 = M M_inv, M_adjinv == M_inv^T
 (c) linearity: apply(a x + b y) == a apply(x) + b apply(y), apply(x) == M vec(x)
 (d) outputs are Fields on the declared target/domain
 (e) documented action: independent NumPy reference of TIMES, probed the same way
 (f) input bytes unchanged by apply; constructor arguments unchanged
"""
import numpy as np

from vf import linops as L
from vf.linops import TIMES, ADJ, INV, ADJINV, MODES, MODE_NAME

META = dict(
    id="C02", level="exploration",
    title="Every library linear operator is adjoint/inverse consistent and correct",
    technique="per-class constructor generators; dense basis-vector probing of every advertised "
              "mode; independent NumPy 'documented action' oracle per class; apply() monitor",
    rule=("case i = registry entry (round-robin schedule, 3 slots per entry and round, 1 for JaxLinearOperator) with a randomly drawn admissible configuration "
          "(domains: RG 1-2-D with random distances / default distances, HP nside 1, GL, LM, "
          "Unstructured, DOFSpace, PowerSpace; spaces subsets; shapes; real/complex data; every "
          "documented constructor argument); all advertised modes probed with float64 e_k and "
          "complex128 i*e_k (restricted to the dtypes the class documents). "
          "non-trivial: operator acts on a proper sub-space, or non-uniform volumes, or complex "
          "data, or a non-default constructor argument; distinct = distinct configuration descriptor"),
    assumptions=[
        "GPU paths are out of scope (device_id = -1 only)",
        "tolerance 1e-9 norm-wise; exceptions stated per class: LOSResponse reference 2e-5 (weights "
        "are stored in float32 and grid crossings are shifted by 1e-7), Gridder/Nufft 500*eps "
        "(approximate transforms with requested accuracy eps), InversionEnabler inverse modes 1e-6 "
        "(CG with tol_abs_gradnorm 1e-12 on a well-conditioned SPD operator)",
        "SHTOperator / HarmonicTransformOperator on the sphere and FuncConvolutionOperator have no "
        "independent documented-action oracle here (normalisation / mean handling not documented; "
        "C09 covers the transforms): adjointness, linearity, target and input-unchanged are "
        "checked.  Gridder/Nufft references are direct sums in ducc's sign/centre convention",
        "SplitOperator is driven with ints/None/unit-step or exactly dividing slices/one index "
        "list or mask per key (the documented 'tuple of integers or None' plus the forms the code "
        "handles explicitly); JaxLinearOperator with linear jnp functions only",
        "exported classes that are not linear operators or need external data are reported as "
        "uncovered through monitors named 'uncovered_export:<name>'",
    ],
    need=["adjointness_comparisons", "linearity_checks", "documented_action_comparisons",
          "inverse_product_checks", "input_unchanged_checks", "target_domain_checks",
          "registry_crosscheck"],
    quick=dict(cases=960, workers=8, budget_s=90),
    thorough=dict(cases=16000, workers=16, budget_s=700),
    design_ref="DESIGN.md §5 C02",
    level_text=("every registered operator class is constructed in generated configurations and "
                "compared entry-wise with its own adjoint/inverse and with an independent NumPy "
                "definition; exploration of configurations, not exhaustive"),
    level_note=("the reference definitions are the harness author's reading of the class "
                "documentation; volumes of RG/HP/GL/LM spaces are computed independently"),
    max_skip_fraction=0.3,
)


def init(ck):
    import nifty.cl as ift
    from vf import linops_reg as R
    ck.state["ift"] = ift
    ck.state["R"] = R
    # schedule: every entry 3x per round, the expensive ones (jit compilation per operator) 1x
    names = []
    for rep in range(3):
        names += [n for n in sorted(R.REGISTRY.keys()) if rep == 0 or n not in R.HEAVY]
    ck.state["names"] = names


def crosscheck(ck, I, R):
    """registry vs. what nifty.cl exports (evidence note through hit counters)"""
    import inspect
    ck.hit("registry_crosscheck")
    covered = set()
    for e in R.REGISTRY.values():
        covered |= set(e["covers"])
    ck.hit("registry_entries", len(R.REGISTRY))
    for name in sorted(dir(I)):
        obj = getattr(I, name)
        if inspect.isclass(obj) and issubclass(obj, I.LinearOperator):
            if name in covered:
                ck.hit("covered_export:" + name)
            elif name in R.ABSTRACT:
                ck.hit("abstract_export_not_applicable:" + name)
            else:
                ck.hit("uncovered_export:" + name)
        elif inspect.isfunction(obj) and name in R.LINEAR_FUNCTIONS:
            if name in covered:
                ck.hit("covered_export:" + name)
            else:
                ck.hit("uncovered_export:" + name)

    def rec(c, seen):
        for s in c.__subclasses__():
            if s not in seen:
                seen.add(s)
                rec(s, seen)
        return seen
    for c in rec(I.LinearOperator, set()):
        if c.__name__ not in covered and not hasattr(I, c.__name__) \
                and c.__module__.startswith("nifty.cl"):
            ck.hit("uncovered_internal:" + c.__name__)


def case(ck, i):
    I, R = ck.state["ift"], ck.state["R"]
    names = ck.state["names"]
    if i == 0:
        crosscheck(ck, I, R)
    name = names[i % len(names)]
    entry = R.REGISTRY[name]
    rng = ck.rng()
    reported = set()

    def viol(key, what, **w):
        if key not in reported:
            reported.add(key)
            ck.violation(key, what, **w)

    # ---------------------------------------------------------------- construct
    try:
        with np.errstate(all="ignore"):
            spec = entry["gen"](I, rng)
    except R.Unavailable as e:
        ck.note(dict(cls=name, unavailable=str(e)), klass=name)
        ck.skip("unavailable:" + name)
        return
    except R.CtorCrash as e:
        viol(L.crash_key(e.exc, f"{name}:construct-crash"),
             f"constructing {name} with a documented configuration raised "
             f"{type(e.exc).__name__}: {str(e.exc).strip()[-200:]}", config=e.desc, tb=L.short_tb(e.exc))
        ck.note(dict(cls=name, cfg=e.desc), nontrivial=True, klass=name)
        return
    op, desc = spec["op"], dict(cls=name, cfg=spec["desc"])
    ck.note(desc, nontrivial=bool(spec.get("nontrivial", False)), klass=name)
    ck.hit("constructed:" + name)
    rtol = spec.get("rtol", 1e-9)
    kinds = {m: spec.get("kinds", {}).get(m, "fc") for m in MODES}
    keep = [(k, L.fbytes(v)) for k, v in spec.get("keep", [])]

    if not isinstance(op, I.LinearOperator):
        viol(f"{name}:not-a-linear-operator", f"{name} produced a {type(op).__name__}")
        return
    try:
        cap = int(op.capability)
        dom, tgt = op.domain, op.target
    except Exception as e:
        viol(L.crash_key(e, f"{name}:attribute-crash"),
             f"{name}: reading capability/domain/target raised {type(e).__name__}: {e}",
             tb=L.short_tb(e))
        return
    if not isinstance(dom, (I.DomainTuple, I.MultiDomain)) or \
            not isinstance(tgt, (I.DomainTuple, I.MultiDomain)):
        viol(f"{name}:domain-type", "domain/target is not a DomainTuple/MultiDomain")
        return
    for what, got, exp in spec.get("expect", []):
        ck.hit("declared_attribute_checks")
        if got != exp:
            viol(f"{name}:declared-{what.split(chr(91))[0]}", f"{name}: declared {what} differs from the documented one",
                 got=repr(got)[:300], expected=repr(exp)[:300])
    if spec.get("cap") is not None:
        ck.hit("declared_attribute_checks")
        if cap != spec["cap"]:
            viol(f"{name}:capability", f"{name} advertises capability {cap}, documented {spec['cap']}")

    mon = L.Monitor(ck, op, name)
    mon.violation = lambda key, what, **w: viol(key, what, config=spec["desc"], **w)

    # ------------------------------------------------------------ dense probing
    Ms = {}
    for mode in MODES:
        if not cap & mode:
            continue
        din, dout = L.mode_domains(op, mode)
        try:
            with np.errstate(all="ignore"):
                Ms[mode] = L.probe(lambda x: mon.apply(x, mode), din, dout, kinds[mode])
            ck.hit("modes_probed")
        except L.OutputError:
            pass
        except Exception as e:
            viol(L.crash_key(e, f"{name}:apply-crash"),
                 f"{name}.apply raised {type(e).__name__} in advertised mode {MODE_NAME[mode]}: "
                 f"{str(e).strip()[-200:]}", config=spec["desc"], tb=L.short_tb(e), mode=MODE_NAME[mode])

    def compare(A, B, key, what, tol, counter):
        dev, n = L.mdev(A, B)
        ck.hit(counter)
        ck.hit("matrix_entries_compared", n)
        if not dev <= tol:
            D = np.abs(np.nan_to_num(np.asarray(A) - np.asarray(B)))
            r, c = np.unravel_index(int(np.argmax(D)), D.shape) if D.size else (0, 0)
            viol(key, what + f" (norm-wise rel. dev {dev:.3g}, tol {tol:g})", config=spec["desc"],
                 dev=dev, worst=[int(r), int(c)],
                 a=float(np.asarray(A)[r, c]) if D.size else None,
                 b=float(np.asarray(B)[r, c]) if D.size else None)
            return False
        return True

    # (a) adjointness
    if TIMES in Ms and ADJ in Ms:
        compare(Ms[ADJ], Ms[TIMES].T, f"{name}:adjoint-mismatch",
                f"{name}: real matrix of ADJOINT_TIMES is not the transpose of the matrix of TIMES "
                "(<y,Ax> != <A^H y,x>)", rtol, "adjointness_comparisons")
        if L.is_complex_linear(Ms[TIMES]):
            ck.hit("complex_linear_operators")
        elif np.all(np.isfinite(Ms[TIMES])):
            ck.hit("merely_real_linear_operators")
    # (b) inverses  (only where the forward matrix is well conditioned: the classes document
    #     that inverting singular diagonals / kernels is the user's responsibility)
    itol = spec.get("inv_rtol", rtol)
    inv_ok = False
    if TIMES in Ms and np.all(np.isfinite(Ms[TIMES])) and Ms[TIMES].shape[0] == Ms[TIMES].shape[1] \
            and Ms[TIMES].size:
        try:
            inv_ok = bool(np.linalg.cond(Ms[TIMES]) <= 1e6)
        except np.linalg.LinAlgError:
            inv_ok = False
    if not inv_ok and (INV in Ms or ADJINV in Ms):
        if TIMES in Ms and np.all(np.isfinite(Ms[TIMES])) and \
                Ms[TIMES].shape[0] == Ms[TIMES].shape[1]:
            ck.hit("inverse_skipped_conditioning")
            Ms.pop(INV, None)
            Ms.pop(ADJINV, None)
    if INV in Ms and TIMES in Ms and np.all(np.isfinite(Ms[INV])) and np.all(np.isfinite(Ms[TIMES])):
        n = Ms[TIMES].shape[1]
        if Ms[TIMES].shape[0] == n:
            cond = np.linalg.cond(Ms[TIMES])
            if True:
                compare(Ms[INV] @ Ms[TIMES], np.eye(n), f"{name}:inverse-mismatch",
                        f"{name}: INVERSE_TIMES after TIMES is not the identity", max(itol, 1e-9 * cond),
                        "inverse_product_checks")
                compare(Ms[TIMES] @ Ms[INV], np.eye(n), f"{name}:inverse-mismatch",
                        f"{name}: TIMES after INVERSE_TIMES is not the identity", max(itol, 1e-9 * cond),
                        "inverse_product_checks")
        else:
            viol(f"{name}:inverse-nonsquare", f"{name} advertises INVERSE_TIMES but is not square")
    if ADJINV in Ms and INV in Ms:
        compare(Ms[ADJINV], Ms[INV].T, f"{name}:adjoint-inverse-mismatch",
                f"{name}: ADJOINT_INVERSE_TIMES is not the transpose of INVERSE_TIMES", itol,
                "adjointness_comparisons")
    elif ADJINV in Ms and ADJ in Ms and np.all(np.isfinite(Ms[ADJINV])) \
            and np.all(np.isfinite(Ms[ADJ])) and Ms[ADJ].shape[0] == Ms[ADJ].shape[1]:
        compare(Ms[ADJINV] @ Ms[ADJ], np.eye(Ms[ADJ].shape[0]), f"{name}:adjoint-inverse-mismatch",
                f"{name}: ADJOINT_INVERSE_TIMES does not invert ADJOINT_TIMES", itol,
                "inverse_product_checks")

    # (c) linearity  (independent of the probed matrices, then against them)
    for mode in MODES:
        if mode not in Ms:
            continue
        din, dout = L.mode_domains(op, mode)
        n = L.dom_size(din)
        k = "c" if "c" in kinds[mode] else "f"
        ltol = itol if mode in (INV, ADJINV) else rtol
        try:
            with np.errstate(all="ignore"):
                zx, zy = L.random_cvec(rng, n, k), L.random_cvec(rng, n, k)
                clin = k == "c" and L.is_complex_linear(Ms[mode])
                al = complex(rng.standard_normal(), rng.standard_normal() if clin else 0.0)
                be = complex(rng.standard_normal(), rng.standard_normal() if clin else 0.0)
                f = lambda z: L.field_to_cvec(
                    mon.apply(L.arr_to_field(L.cvec_to_arr(z, din, k), din), mode), dout)
                lhs = f(al * zx + be * zy)
                fx, fy = f(zx), f(zy)
                rhs = al * fx + be * fy
                sc = np.max(np.abs(al * fx), initial=0.0) + np.max(np.abs(be * fy), initial=0.0)
                ck.hit("linearity_checks")
                d = float(np.max(np.abs(lhs - rhs), initial=0.0))
                if not d <= ltol * max(sc, 1e-300) + 1e-300:
                    viol(f"{name}:nonlinear:{MODE_NAME[mode]}",
                         f"{name}: apply(a x + b y) != a apply(x) + b apply(y) in {MODE_NAME[mode]} "
                         f"(dev {d / max(sc, 1e-300):.3g})", config=spec["desc"])
                # apply(x) against the probed matrix (covers dtype paths: complex x vs float64 e_k)
                pred = Ms[mode] @ L.c2r(zx)
                if np.all(np.isfinite(pred)):
                    ck.hit("matrix_prediction_checks")
                    obs = L.c2r(fx)
                    d = float(np.max(np.abs(pred - obs), initial=0.0))
                    sc2 = float(np.max(np.abs(Ms[mode]), initial=0.0) * np.sum(np.abs(L.c2r(zx))))
                    if not d <= ltol * max(sc2, 1e-300) + 1e-300:
                        viol(f"{name}:dtype-path-inconsistent:{MODE_NAME[mode]}",
                             f"{name}: apply on a random {'complex' if k == 'c' else 'real'} field "
                             f"differs from the matrix assembled from basis vectors in "
                             f"{MODE_NAME[mode]} (dev {d / max(sc2, 1e-300):.3g})", config=spec["desc"])
        except L.OutputError:
            pass
        except Exception as e:
            viol(L.crash_key(e, f"{name}:apply-crash"),
                 f"{name}.apply raised {type(e).__name__} on a random field in {MODE_NAME[mode]}: "
                 f"{str(e).strip()[-200:]}", config=spec["desc"], tb=L.short_tb(e), mode=MODE_NAME[mode])

    # (e) documented action
    if spec.get("ref") is not None and TIMES in Ms:
        Mref = L.probe_ref(spec["ref"], dom, tgt, kinds[TIMES])
        compare(Ms[TIMES], Mref, f"{name}:action-mismatch",
                f"{name}: TIMES differs from the documented definition", spec.get("ref_rtol", rtol),
                "documented_action_comparisons")
    elif spec.get("ref") is None:
        ck.hit("no_reference_oracle:" + name)
    # (f) constructor arguments unchanged
    for k, b in keep:
        ck.hit("ctor_argument_unchanged_checks")
        v = dict(spec.get("keep", []))[k]
        if L.fbytes(v) != b:
            viol(f"{name}:ctor-argument-modified", f"{name}: constructor argument '{k}' was modified")
    if spec.get("cleanup"):
        spec["cleanup"]()
