"""C23 — Distributed summation is partition-independent and cannot deadlock.

The real ``nifty.cl.utilities.allreduce_sum`` runs on k rank threads whose every
communicator call is parked by a controlled scheduler (vf/simcomm/threads.py)
that enumerates *all* interleavings of rendezvous / collective completions under
synchronous-send semantics.  Monitors: deadlock detector (unfinished rank, no
enabled transition), protocol monitor (send/recv kind mismatch, ranks in
different collectives, buffer mismatch), result oracle (expression tree for
symbolic summands, bits for numeric ones) against (a) an independently written
pairwise-tree reference and (b) the single-process ``allreduce_sum(.., None)``.
"""
import itertools
import struct

import numpy as np

META = dict(
    id="C23", level="exploration",
    title="Distributed summation is partition-independent and cannot deadlock",
    technique=("controlled-scheduler monitor: real allreduce_sum on rank threads, exhaustive DFS over "
               "all rendezvous interleavings under synchronous sends; deadlock/protocol/result oracles"),
    rule=("case = (ordered partition of n summands over k tasks incl. empty tasks, summand type); quick: "
          "all partitions with n<=6,k<=3 for symbolic summands + floats, plus a seeded sample of the "
          "rest (n<=8,k<=4) and of ndarray/Field/MultiField summands; thorough: all 710 partitions for "
          "symbolic and float summands + samples of typed ones. For each case ALL scheduler "
          "interleavings are explored (memoised on the per-rank program-counter vector). "
          "non-trivial: >=2 non-empty ranks and >=2 point-to-point rendezvous; distinct = (partition,type)"),
    assumptions=["ranks are threads of one process: valid because allreduce_sum touches no process-global "
                 "state; a real MPI library (buffering, progress engine) cannot be loaded in this sandbox — "
                 "the simulated communicator is stricter on blocking (every send synchronous, every "
                 "collective a full barrier) than any MPI implementation",
                 "n = 0 summands in total is outside the statement (the code asserts)"],
    need=["schedules_explored", "global_states", "rendezvous_fired", "results_compared",
          "deadlock_checks"],
    quick=dict(cases=420, workers=6, budget_s=75),
    thorough=dict(cases=2200, workers=16, budget_s=800),
    design_ref="DESIGN.md §5 C23",
    level_text=("exhaustive enumeration, within n<=8 summands / k<=4 tasks, of partitions and of all "
                "communication interleavings of the real function under synchronous-send semantics"),
    level_note=("trusted: the thread scheduler in vf/simcomm/threads.py faithfully implements MPI "
                "matching rules for the 11 communicator methods NIFTy uses; pickling stands in for MPI "
                "object transport"),
)


# ------------------------------------------------------------- partitions ---
def compositions(n, k):
    """all ordered k-tuples of non-negative ints summing to n"""
    if k == 1:
        yield (n,)
        return
    for first in range(n + 1):
        for rest in compositions(n - first, k - 1):
            yield (first,) + rest


def all_partitions(nmax, kmax):
    out = []
    for k in range(1, kmax + 1):
        for n in range(1, nmax + 1):
            out.extend(compositions(n, k))
    return out


ALL = all_partitions(8, 4)                       # 710
SMALL = [p for p in ALL if sum(p) <= 6 and len(p) <= 3]   # 116
REST = [p for p in ALL if not (sum(p) <= 6 and len(p) <= 3)]
TYPED = ("ndarray", "field", "multifield", "complex", "int")


def plan(tier, i, rng):
    """case index -> (partition, type)"""
    if tier == "quick":
        if i < len(SMALL):
            return SMALL[i], "sym"
        i -= len(SMALL)
        if i < len(SMALL):
            return SMALL[i], "float"
        i -= len(SMALL)
        # seeded sample
        if i % 2 == 0:
            return REST[int(rng.integers(0, len(REST)))], ("sym", "float")[int(rng.integers(0, 2))]
        return ALL[int(rng.integers(0, len(ALL)))], TYPED[int(rng.integers(0, len(TYPED)))]
    if i < len(ALL):
        return ALL[i], "sym"
    i -= len(ALL)
    if i < len(ALL):
        return ALL[i], "float"
    return ALL[int(rng.integers(0, len(ALL)))], TYPED[int(rng.integers(0, len(TYPED)))]


# --------------------------------------------------------------- summands ---
class Sym:
    """symbolic summand: addition builds the expression tree"""
    __slots__ = ("t",)

    def __init__(self, t):
        self.t = t

    def __add__(self, o):
        if not isinstance(o, Sym):
            return NotImplemented
        return Sym(("+", self.t, o.t))

    def __eq__(self, o):
        return isinstance(o, Sym) and self.t == o.t

    def __hash__(self):
        return hash(self.t)

    def __reduce__(self):
        return (Sym, (self.t,))

    def __repr__(self):
        def r(t):
            return str(t) if not isinstance(t, tuple) else f"({r(t[1])}+{r(t[2])})"
        return r(self.t)


def make_summands(ift, typ, n, rng):
    if typ == "sym":
        return [Sym(j) for j in range(n)]
    if typ == "float":
        return [float(np.ldexp(1.0 + rng.random(), int(rng.integers(-30, 31))) *
                      (1 if rng.integers(0, 2) else -1)) for _ in range(n)]
    if typ == "complex":
        return [complex(rng.standard_normal() * 10.0 ** int(rng.integers(-8, 9)),
                        rng.standard_normal()) for _ in range(n)]
    if typ == "int":
        return [int(rng.integers(-1000, 1000)) for _ in range(n)]
    if typ == "ndarray":
        shp = tuple(int(x) for x in rng.integers(1, 4, int(rng.integers(1, 3))))   # 0-d arrays decay to numpy scalars under + (outside the documented summand types)
        cplx = bool(rng.integers(0, 2))
        out = []
        for _ in range(n):
            a = rng.standard_normal(shp) * 10.0 ** rng.integers(-8, 9, shp)
            if cplx:
                a = a + 1j * rng.standard_normal(shp)
            out.append(np.asarray(a))
        return out
    dom = ift.DomainTuple.make((ift.RGSpace(int(rng.integers(1, 4))),
                                ift.UnstructuredDomain(int(rng.integers(1, 3)))))
    if typ == "field":
        return [ift.makeField(dom, rng.standard_normal(dom.shape) * 10.0 ** rng.integers(-8, 9, dom.shape))
                for _ in range(n)]
    if typ == "multifield":
        dom2 = ift.DomainTuple.make(ift.UnstructuredDomain(2))
        return [ift.MultiField.from_dict({
            "a": ift.makeField(dom, rng.standard_normal(dom.shape) * 10.0 ** rng.integers(-8, 9, dom.shape)),
            "b": ift.makeField(dom2, rng.standard_normal(dom2.shape))}) for _ in range(n)]
    raise ValueError(typ)


def canon(ift, x):
    """canonical comparable form (tree for Sym, bits for numbers/arrays/fields)"""
    from vf.clgen import fbytes
    if isinstance(x, Sym):
        return ("sym", x.t)
    if isinstance(x, float):
        return ("float", struct.pack("<d", x))
    if isinstance(x, complex):
        return ("complex", struct.pack("<dd", x.real, x.imag))
    if isinstance(x, int):
        return ("int", x)
    if isinstance(x, (ift.Field, ift.MultiField)):
        dom = repr(x.domain)
        return (type(x).__name__, dom, fbytes(x))
    if isinstance(x, np.ndarray):
        return ("ndarray", fbytes(x))
    return ("other", repr(x))


def pairwise_reference(vals):
    """independent statement of the documented pairwise tree"""
    v = list(vals)
    n = len(v)
    step = 1
    while step < n:
        for j in range(0, n, 2 * step):
            if j + step < n:
                v[j] = v[j] + v[j + step]
        step *= 2
    return v[0]


def init(ck):
    import nifty.cl as ift
    from vf.simcomm import threads
    ck.state["ift"] = ift
    ck.state["threads"] = threads


def case(ck, i):
    ift = ck.state["ift"]
    T = ck.state["threads"]
    from nifty.cl.utilities import allreduce_sum
    rng = ck.rng()
    part, typ = plan(ck.tier, i, rng)
    n, k = sum(part), len(part)
    vals = make_summands(ift, typ, n, rng)
    offs = np.concatenate([[0], np.cumsum(part)])
    local = [vals[offs[r]:offs[r + 1]] for r in range(k)]

    ref_tree = canon(ift, pairwise_reference(vals))
    single = canon(ift, allreduce_sum(list(vals), None))
    ck.hit("results_compared")
    if single != ref_tree:
        ck.violation("single-process-sum-not-pairwise-tree:" + typ,
                     "allreduce_sum(comm=None) does not evaluate the documented pairwise tree",
                     n=n, got=repr(single)[:300], want=repr(ref_tree)[:300])

    def fn(comm, rank):
        return allreduce_sum(list(local[rank]), comm)

    ex = T.Explorer(k, fn, max_runs=ck.pick(4000, 100000)).explore()
    ck.hit("schedules_explored", ex.runs)
    ck.hit("global_states", len(ex.states))
    ck.hit("deadlock_checks", len(ex.states))
    ck.hit("transitions_fired", ex.transitions)
    nrdv = sum(1 for e in (ex.sample_trace or []) if e[1] == "p2p")
    ck.hit("rendezvous_fired", nrdv)
    if ex.truncated:
        ck.hit("exploration_truncated")
    desc = dict(partition=list(part), type=typ, schedules=ex.runs, states=len(ex.states),
                max_enabled=ex.max_enabled,
                trace=[list(map(str, e[1:])) for e in (ex.sample_trace or [])][:40])
    nonempty = sum(1 for p in part if p > 0)
    ck.note(desc, nontrivial=(nonempty >= 2 and nrdv >= 2), klass=f"{typ}:k={k}")

    if ex.stalled:
        raise __import__("vf.runner", fromlist=["Skip"]).Skip("scheduler watchdog (rank thread did not park)")
    for choices, pend in ex.deadlocks[:1]:
        ck.violation("deadlock", f"deadlock: ranks blocked with no enabled rendezvous: {pend}",
                     partition=list(part), type=typ, choices=choices, pending=pend)
    for choices, errs in ex.rank_errors[:1]:
        ck.violation("rank-exception", f"a rank raised while the others wait: {errs}",
                     partition=list(part), type=typ, choices=choices)
    for choices, perr in ex.protocol_errors[:1]:
        ck.violation("protocol-mismatch", f"message protocol mismatch: {perr}",
                     partition=list(part), type=typ, choices=choices)
    outcomes = set()
    for results, errors in ex.complete_runs:
        for r in range(k):
            if errors[r] is not None:
                ck.violation(f"rank-exception:{type(errors[r]).__name__}",
                             f"rank {r} raised {errors[r]!r}", partition=list(part), type=typ)
                break
        else:
            cs = tuple(canon(ift, x) for x in results)
            outcomes.add(cs)
            ck.hit("results_compared", k)
    for cs in outcomes:
        bad = [r for r in range(k) if cs[r] != ref_tree]
        if bad:
            ck.violation("result-differs-from-single-process:" + typ,
                         f"ranks {bad} returned a value different from the single-process pairwise sum",
                         partition=list(part), got=repr(cs[bad[0]])[:300], want=repr(ref_tree)[:300])
            break
    if len(outcomes) > 1:
        ck.violation("schedule-dependent-result", "different interleavings gave different results",
                     partition=list(part), type=typ)
    if not ex.complete_runs and not ex.deadlocks and not ex.protocol_errors and not ex.rank_errors:
        ck.violation("no-complete-run", "no schedule ran to completion", partition=list(part))


def parent_post(pk):
    full = (pk.tier == "thorough" and pk.notrun == 0 and not pk.fatal
            and pk.hits.get("exploration_truncated", 0) == 0 and not getattr(pk, "partial", False))
    pk.exhaustive = bool(full)
    pk.extra["states"] = pk.hits.get("global_states", 0)
    pk.extra["transitions"] = pk.hits.get("transitions_fired", 0)
    pk.extra["interleavings"] = pk.hits.get("schedules_explored", 0)
    pk.extra["bounds"] = dict(quick="all partitions n<=6,k<=3 (116) x {sym,float} + seeded samples",
                              thorough="all 710 partitions n<=8,k<=4 x {sym,float} + seeded typed samples")
