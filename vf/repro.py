"""Reproducibility workloads for C21, run in fresh interpreter processes:
    python -m vf.repro <name> '<json params>'
prints one JSON line  {"digest": ..., "values": ...}.
"""
import hashlib
import json
import sys

import numpy as np


def _dig(parts):
    h = hashlib.sha256()
    for a in parts:
        a = np.ascontiguousarray(np.asarray(a))
        h.update(str(a.dtype).encode() + str(a.shape).encode() + a.tobytes())
    return h.hexdigest()


def _cl():
    from vf.simcomm.proc import install_mpi_stub
    install_mpi_stub()
    import nifty.cl as ift
    return ift


def _mf_parts(ift, f):
    if isinstance(f, ift.MultiField):
        return [f[k].asnumpy() for k in sorted(f.keys())]
    return [f.asnumpy()]


def cl_draw_chain(p):
    """draw_sample of several covariance operators + from_random on a MultiDomain with many keys
    (dict/set iteration order is the realistic threat to reproducibility)"""
    ift = _cl()
    parts = []
    with ift.random.Context(p.get("seed", 5)):
        doms = {f"key_{c}": ift.RGSpace(3 + i % 3) for i, c in enumerate("zyxwvutsrqponm")}
        md = ift.MultiDomain.make(doms)
        f = ift.from_random(md, "normal")
        parts += _mf_parts(ift, f)
        g = ift.from_random(md, "uniform")
        parts += _mf_parts(ift, g)
        d = ift.makeOp(f.ptw("exp"), sampling_dtype=float)
        parts += _mf_parts(ift, d.draw_sample())
        parts += _mf_parts(ift, d.draw_sample(from_inverse=True))
        s = ift.ScalingOperator(md, 3.0, sampling_dtype=float)
        parts += _mf_parts(ift, s.draw_sample())
        dom = ift.RGSpace(4)
        sw = ift.SandwichOperator.make(ift.HarmonicSmoothingOperator(dom, 0.3),
                                       ift.ScalingOperator(dom, 2.0, sampling_dtype=float))
        parts += _mf_parts(ift, sw.draw_sample())
    return dict(digest=_dig(parts))


def cl_kl(p):
    ift = _cl()
    from vf.simcomm import workloads as W
    out = W.kl(None, dict(n_samples=2, three_keys=True, seed=p.get("seed", 5), geovi=p.get("geovi", False)), 0)
    out.pop("n_local", None)
    return dict(digest=hashlib.sha256(json.dumps(out, sort_keys=True).encode()).hexdigest())


def cl_okl(p):
    ift = _cl()
    from vf.simcomm import workloads as W
    out = W.okl(None, dict(n_samples=2, three_keys=True, seed=p.get("seed", 5), geovi=p.get("geovi", False),
                           n_iter=2), 0)
    return dict(digest=hashlib.sha256(json.dumps(out, sort_keys=True).encode()).hexdigest())


def re_okl(p):
    """JAX optimize_kl under a given (residual_map, kl_map, jit) setting; solvers pinned to fixed
    iteration counts (miniter == maxiter) so that no convergence decision can flip on round-off"""
    import jax
    jax.config.update("jax_enable_x64", True)
    import jax.numpy as jnp
    import nifty.re as jft
    rng = np.random.default_rng(p.get("model_seed", 1))
    data = jnp.asarray(rng.standard_normal(4))
    Wm = jnp.asarray(rng.standard_normal((4, 3)))

    def fwd(x):
        return Wm @ jnp.tanh(x["a"]) * jnp.exp(0.3 * x["b"][0]) + x["b"][1]

    lh = jft.Gaussian(data, noise_cov_inv=lambda x: 4.0 * x, noise_std_inv=lambda x: 2.0 * x).amend(fwd)
    pos = {"a": jnp.asarray(rng.standard_normal(3) * 0.1), "b": jnp.asarray(rng.standard_normal(2) * 0.1)}
    fix = dict(miniter=p.get("nit", 3), maxiter=p.get("nit", 3))
    lin_extra, nl_extra = {}, {}
    if p.get("residual_map", "lmap") in ("vmap", "smap"):
        # vmapping the residual functions needs the traceable (static) solvers — documented requirement
        from nifty.re import conjugate_gradient as jcg
        from nifty.re import optimize as jopt
        lin_extra = dict(cg=jcg.static_cg)
        nl_extra = dict(minimize=jopt._static_newton_cg)
    samples, state = jft.optimize_kl(
        lh, jft.Vector(pos), key=jax.random.PRNGKey(p.get("key", 42)),
        n_total_iterations=p.get("n_iter", 2), n_samples=p.get("n_samples", 2),
        sample_mode=p.get("sample_mode", "nonlinear_resample"),
        draw_linear_kwargs=dict(cg_name=None, cg_kwargs=dict(absdelta=1e-14, **{"miniter": 5, "maxiter": 5}),
                                **lin_extra),
        nonlinearly_update_kwargs=dict(minimize_kwargs=dict(name=None, xtol=0.0, absdelta=0.0,
                                                            cg_kwargs=dict(name=None, miniter=5, maxiter=5),
                                                            **fix), **nl_extra),
        kl_kwargs=dict(minimize_kwargs=dict(name=None, xtol=0.0, absdelta=0.0,
                                            cg_kwargs=dict(name=None, miniter=5, maxiter=5), **fix)),
        residual_map=p.get("residual_map", "lmap"), kl_map=p.get("kl_map", "vmap"), jit=p.get("jit", True),
        odir=None)
    leaves = [np.asarray(x) for x in jax.tree_util.tree_leaves(samples.pos)] + \
             [np.asarray(x) for x in jax.tree_util.tree_leaves(samples._samples)]
    return dict(digest=_dig(leaves), values=[x.tolist() for x in leaves])


def re_draws(p):
    """nifty.re random_like / sample drawing with a fixed key"""
    import jax
    jax.config.update("jax_enable_x64", True)
    import jax.numpy as jnp
    import nifty.re as jft
    key = jax.random.PRNGKey(p.get("key", 7))
    tree = {c: jnp.zeros((2 + i % 3,)) for i, c in enumerate("zyxwvutsrq")}
    r = jft.random_like(key, jft.Vector(tree))
    leaves = [np.asarray(x) for x in jax.tree_util.tree_leaves(r)]
    return dict(digest=_dig(leaves))


def re_history(p):
    """a sequence of JAX optimize_kl runs on the SAME likelihood object in one process; returns the
    digest of the last run. The result of a run must not depend on what ran before it (compiled
    executables cached on static arguments, module-level state ...)."""
    import jax
    jax.config.update("jax_enable_x64", True)
    import jax.numpy as jnp
    import nifty.re as jft
    N = 4
    rng = np.random.default_rng(p.get("model_seed", 1))
    resp = jnp.asarray(rng.standard_normal((2 * N, N)))
    data = jnp.asarray(rng.standard_normal(2 * N))

    def forward(q):
        return resp @ (jnp.exp(0.5 * q["amp"]) * q["xi"])

    dom = {"amp": jft.ShapeWithDtype((N,), jnp.float64), "xi": jft.ShapeWithDtype((N,), jnp.float64)}
    model = jft.Model(forward, domain=jft.Vector(dom))
    lh = jft.Gaussian(data, noise_std_inv=lambda x: 3.0 * x).amend(model)
    pos = jft.Vector({"amp": jnp.asarray(rng.standard_normal(N) * 0.3),
                      "xi": jnp.asarray(rng.standard_normal(N) * 0.3)})
    last = None
    for cfg in p["history"]:
        pe = cfg.get("point_estimates")
        if cfg.get("pe_form") == "bool_vector":
            pe = jft.Vector({"amp": "amp" in pe, "xi": "xi" in pe})
        else:
            pe = tuple(pe)
        samples, _ = jft.optimize_kl(
            lh, pos, key=jax.random.PRNGKey(cfg.get("key", 3)), n_total_iterations=1,
            n_samples=cfg.get("n_samples", 2), point_estimates=pe, constants=tuple(cfg.get("constants", ())),
            jit=cfg.get("jit", True), sample_mode=cfg.get("sample_mode", "linear_resample"),
            draw_linear_kwargs=dict(cg_name=None, cg_kwargs=dict(absdelta=1e-12, miniter=N, maxiter=N)),
            nonlinearly_update_kwargs=dict(minimize_kwargs=dict(name=None, xtol=0.0, miniter=2, maxiter=2,
                                                                cg_kwargs=dict(name=None, miniter=3, maxiter=3))),
            kl_kwargs=dict(minimize_kwargs=dict(name=None, xtol=0.0, miniter=3, maxiter=3,
                                                cg_kwargs=dict(name=None, miniter=3, maxiter=3))),
            odir=None)
        last = [np.asarray(samples.pos.tree[k]) for k in ("amp", "xi")]
        if samples._samples is not None:
            last += [np.asarray(samples._samples.tree[k]) for k in ("amp", "xi")]
    return dict(digest=_dig(last), values=[x.tolist() for x in last])


RUN = dict(cl_draw_chain=cl_draw_chain, cl_kl=cl_kl, cl_okl=cl_okl, re_okl=re_okl, re_draws=re_draws,
           re_history=re_history)

if __name__ == "__main__":
    name = sys.argv[1]
    params = json.loads(sys.argv[2]) if len(sys.argv) > 2 else {}
    res = RUN[name](params)
    sys.stdout.write("\nVFRESULT " + json.dumps(res) + "\n")
